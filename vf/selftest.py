"""Mutation self-test of the monitors.

  /venv/bin/python -m vf.selftest [PID ...] [--suite] [--tier quick]

Each mutant in vf/mutants.json is a realistic property-breaking edit (old -> new text in one file).
It is applied to a scratch copy of the repository (outside /repo and /verif), the owning check is
run with VERIF_REPO=<scratch>, exit status 1 (a VIOLATION) is expected, and the copy is removed.
--suite additionally runs the repository's own tests on the mutant (to know whether it survives them).
"""
import json
import os
import shutil
import subprocess
import sys
import tempfile

V = os.path.dirname(os.path.dirname(os.path.abspath(__file__)))


def make_scratch(repo='/repo'):
  d = tempfile.mkdtemp(prefix='vf-mut-')
  shutil.copytree(os.path.join(repo, 'gin'), os.path.join(d, 'gin'),
                  ignore=shutil.ignore_patterns('__pycache__', 'tf', 'torch'))
  shutil.copytree(os.path.join(repo, 'tests'), os.path.join(d, 'tests'),
                  ignore=shutil.ignore_patterns('__pycache__', 'tf', 'torch'))
  return d


def apply(d, m):
  path = os.path.join(d, m['file'])
  s = open(path).read()
  if s.count(m['old']) != 1:
    raise RuntimeError('mutant %s: old text occurs %d times' % (m['name'], s.count(m['old'])))
  open(path, 'w').write(s.replace(m['old'], m['new']))


def run_suite(d):
  os.makedirs(os.path.join(d, '_tmp'), exist_ok=True)      # the suite leaves temporary directories behind: inside the scratch copy, removed with it
  env = dict(os.environ, PYTHONPATH=d, TMPDIR=os.path.join(d, '_tmp'))
  r = subprocess.run(['/venv/bin/python', '-m', 'pytest', '-q', '-p', 'no:cacheprovider', '-x', '--timeout=300',
                      'tests/config_parser_test.py', 'tests/config_test.py', 'tests/selector_map_test.py',
                      'tests/resource_reader_test.py', '--deselect', 'tests/config_test.py::ConfigTest::testConfigStrDynamicRegistration',
                      '--deselect', 'tests/config_test.py::ConfigTest::testConfigStrDynamicRegistrationIsIdempotent',
                      '--deselect', 'tests/config_test.py::ConfigTest::testDynamicRegistrationImportMain',
                      '--deselect', 'tests/config_test.py::ConfigTest::testDynamicRegistrationImportMainAndRegister',
                      '--deselect', 'tests/config_test.py::ConfigTest::testDynamicallyRegisteredClassWithMethods',
                      '--deselect', 'tests/config_test.py::ConfigTest::testInteractiveMode'],
                     cwd=d, env=env, capture_output=True, text=True)
  return r.returncode == 0, r.stdout.strip().splitlines()[-1] if r.stdout.strip() else r.stderr[-200:]


def main(argv):
  want = [a.upper() for a in argv if not a.startswith('--')]
  suite = '--suite' in argv
  tier = 'thorough' if '--thorough' in argv else 'quick'
  muts = json.load(open(os.path.join(V, 'vf', 'mutants.json')))
  results = []
  for m in muts:
    if want and not (set(m['checks']) & set(want)):
      continue
    d = make_scratch()
    try:
      apply(d, m)
      suite_ok = run_suite(d) if suite else None
      for pid in m['checks']:
        if want and pid not in want:
          continue
        env = dict(os.environ, VERIF_REPO=d)
        r = subprocess.run(['/venv/bin/python', '-m', 'vf.run', pid, '--tier', tier], cwd=V, env=env,
                           capture_output=True, text=True)
        caught = r.returncode == 1 and 'VIOLATION property=%s' % pid in r.stdout
        keys = [l.strip() for l in r.stdout.splitlines() if l.strip().startswith('key=')]
        results.append((m['name'], pid, caught, r.returncode, suite_ok))
        print('%-48s %s %s rc=%d %s %s' % (m['name'], pid, 'CAUGHT' if caught else 'MISSED', r.returncode,
                                          ('suite:' + ('passes' if suite_ok[0] else 'FAILS ' + suite_ok[1][:60])) if suite_ok else '',
                                          (keys[0][:110] if keys else r.stdout.strip().splitlines()[-1][:110] if r.stdout.strip() else r.stderr[-200:])))
        sys.stdout.flush()
    finally:
      shutil.rmtree(d, ignore_errors=True)
  missed = [r for r in results if not r[2]]
  print('%d mutant runs, %d caught, %d missed' % (len(results), len(results) - len(missed), len(missed)))
  return 1 if missed else 0


if __name__ == '__main__':
  sys.exit(main(sys.argv[1:]))
