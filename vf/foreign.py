"""Extra workloads for an online monitor (vf/online.py): programs the owning check did not write.

  suite_workload(ctx, which)            the repository's own tests (4 test files, ~10 s) under the monitors  [worker 0 only]
  foreign_workload(ctx, which, mods, n) generated cases of OTHER checks, run with a throw-away Ctx: only the online
                                        monitor's verdicts count, the foreign check's own oracle is ignored here

Both only ADD observations (counters prefixed suite:/foreign:) and violations; they never make a run inconclusive: the
owning check's generated workload is what decides coverage.
"""
import json
import os
import random
import subprocess
import sys
import tempfile

from vf import core, online

SUITE_FILES = ['tests/config_parser_test.py', 'tests/config_test.py', 'tests/selector_map_test.py', 'tests/resource_reader_test.py']


def classify_rt(text, again, values):
  """Map round-trip differences caused by a recorded C06 finding onto its mechanism key (same narrow classifiers as C06)."""
  from vf.checks import c06
  a, b = '\n'.join(c06.strip_none_sections(text)), '\n'.join(c06.strip_none_sections(again))
  unorderable = any(c06.has_unorderable_dict(v) for v in values)
  if text != again and a == b:
    return 'empty-section-of-nonrepresentable-only-bindings-not-reproduced'
  if unorderable and c06.only_line_order_differs(a, b):
    return 'dict-with-unorderable-keys-printed-in-object-id-order'
  return None


_DOTTED_SCOPE_KEY = None


def classify_parse_failure(text, message):
  """A config string that does not parse because a scope component of a binding key contains a period (config_scope('a.b') and
  bind_parameter('a.b/f.x', ..) accept it, the config language does not): recorded finding of C06 and C07."""
  global _DOTTED_SCOPE_KEY
  import re
  if _DOTTED_SCOPE_KEY is None:
    _DOTTED_SCOPE_KEY = re.compile(r'^\s*(?:[A-Za-z_]\w*/)*[A-Za-z_]\w*(?:\.[A-Za-z_]\w*)+/[^=\n]*=', re.M)
  if 'Malformatted scope or selector' in message and _DOTTED_SCOPE_KEY.search(text):
    return 'dotted-scope-component-printed-but-not-parseable'
  if '.<locals>.' in text and 'dynamic_registration' in text:
    # under dynamic registration a configurable registered from Python that is a local function / class is printed by module and __qualname__
    return 'local-object-printed-by-qualname-under-dynamic-registration'
  m = re.search(r"Couldn't resolve selector ([\w.]+);", message)
  if m and 'dynamic_registration' in text and _names_unreachable_python_registered_object(m.group(1)):
    return 'local-object-printed-by-qualname-under-dynamic-registration'
  return None


def _names_unreachable_python_registered_object(selector):
  """True iff `selector` ends in the __qualname__ of a configurable registered from Python (no import source) that cannot be reached as
  module.__qualname__ (a local object, or one renamed after definition): the same recorded finding without '<locals>' in the text."""
  import importlib
  from gin import config as gc
  for entry in list(gc._REGISTRY._selector_map.values()):
    if entry.import_source is not None:
      continue
    w = entry.wrapped
    qn, mod = getattr(w, '__qualname__', None), getattr(w, '__module__', None)
    if not qn or not mod or not selector.endswith(qn):
      continue
    try:
      o = importlib.import_module(mod)
      for part in qn.split('.'):
        o = getattr(o, part)
      reachable = o is w
    except Exception:  # pylint: disable=broad-except
      reachable = False
    if not reachable:
      return True
  return False


def merge(ctx, rep, prefix):
  for k, v in rep.get('counters', {}).items():
    ctx.count('%s:%s' % (prefix, k), v)
    if k == 'oracle_evals':
      ctx.count('oracle_evals', v)
  counts = rep.get('viol_counts', {})
  seen = set()
  for v in rep.get('violations', []):
    key = v['key']
    n = counts.get(v['key'], 1) if v['key'] not in seen else 0
    seen.add(v['key'])
    ctx.violation(key, '[%s workload, at %s] %s' % (prefix, v.get('where'), v['msg']), case={'workload': prefix, 'where': v.get('where')})
    for _ in range(max(0, min(n, 50) - 1)):
      ctx.viol_counts[key] = ctx.viol_counts.get(key, 0) + 1


def suite_workload(ctx, which, rt_classify=False):
  if ctx.widx != 0:
    return
  root = core.repo_root()
  if not all(os.path.exists(os.path.join(root, f)) for f in SUITE_FILES):
    ctx.note('suite_workload', 'test files not found: skipped')
    return
  with tempfile.TemporaryDirectory(prefix='vf-online-') as d:
    out = os.path.join(d, 'online.json')
    env = dict(os.environ, PYTHONPATH=core.VERIF + os.pathsep + root, VF_ONLINE=','.join(which), VF_ONLINE_OUT=out, PYTHONHASHSEED='0', VF_ONLINE_RTCLASS='1' if rt_classify else '')
    try:
      r = subprocess.run([sys.executable, '-m', 'pytest', '-q', '--no-header', '-p', 'no:cacheprovider', '-p', 'vf.suiteplug'] + SUITE_FILES,
                         cwd=root, env=env, capture_output=True, text=True, timeout=600)
    except subprocess.TimeoutExpired:
      ctx.note('suite_workload', 'timed out: nothing observed')
      return
    if not os.path.exists(out):
      ctx.note('suite_workload', 'no report written (pytest said: %s)' % r.stdout[-300:])
      return
    rep = json.load(open(out))
  merge(ctx, rep, 'suite')
  ctx.bucket('workload:repository-test-suite')


def foreign_workload(ctx, which, mods, n, rt_classify=False):
  """Run n generated cases of each module in `mods` under a fresh Online(which)."""
  import gin
  m = online.Online(which)
  if rt_classify:
    m.rt_classifier = classify_rt
  m.parse_failure_classifier = classify_parse_failure
  rng = random.Random(ctx.seed * 7919 + ctx.widx)
  if 'clear' in which:
    gin.clear_config(clear_constants=True)
    m.gin, m.gc = gin, gin.config
    m.pristine = m.observe()
  m.install()
  try:
    for pid in mods:
      mod = core.load_check(pid)
      fctx = core.Ctx(pid, 'quick', ctx.seed, ctx.widx, ctx.nworkers, dict(mod.TIERS['quick']))
      online.set_label('generated workload of ' + pid)
      try:
        if hasattr(mod, 'setup'):
          with gin.config.interactive_mode():     # probe names of different checks may coincide
            mod.setup(fctx)
        skip_kinds = getattr(mod, 'FOREIGN_SKIP_KINDS', ())
        for case in mod.iter_cases(fctx, rng, n):
          if isinstance(case, dict) and case.get('kind') in skip_kinds:
            continue      # scenarios that exist to exhibit a recorded finding of THAT property: not a workload for another property's monitor
          fctx.case_no += 1
          fctx.cur_case = case
          try:
            mod.run_case(fctx, case)
          except core.Inconclusive:
            break
          except Exception:  # pylint: disable=broad-except
            ctx.count('foreign:case_errors_ignored')
        ctx.count('foreign:cases:' + pid, fctx.case_no)
      except Exception as e:  # pylint: disable=broad-except
        ctx.count('foreign:module_errors_ignored')
        ctx.note('foreign_error_' + pid, repr(e)[:300])
  finally:
    m.uninstall()
    try:
      gin.clear_config(clear_constants=True)
    except Exception:  # pylint: disable=broad-except
      pass
  merge(ctx, m.report(), 'foreign')
  ctx.bucket('workload:other-checks-generated-cases')


def run_spec(ctx, spec, tier, only=None):
  """spec = {'which': [...], 'foreign': [PID..], 'n': {'quick': k, 'thorough': k}, 'rt_classify': bool}"""
  which = spec['which']
  if only in (None, 'suite') and spec.get('suite', True):
    suite_workload(ctx, which, spec.get('rt_classify', False))
  if only in (None, 'foreign') and spec.get('foreign'):
    foreign_workload(ctx, which, spec['foreign'], spec.get('n', {}).get(tier, 30), spec.get('rt_classify', False))
