"""Reference models (each a few lines), independent of gin's code."""
import re

IDENT = re.compile(r'^[a-zA-Z_]\w*$')
MODULE = re.compile(r'^([a-zA-Z_]\w*\.)*[a-zA-Z_]\w*$')


class ScopeModel:
  """enter(str) appends components, enter(list) replaces, enter(None|'') clears, exit pops."""

  def __init__(self):
    self.stack = [[]]

  @property
  def cur(self):
    return list(self.stack[-1])

  @staticmethod
  def valid(arg):
    if isinstance(arg, list):
      return all(isinstance(c, str) and MODULE.match(c) for c in arg)
    if isinstance(arg, str):
      return arg == '' or all(MODULE.match(c) for c in arg.split('/'))
    return arg is None

  def target(self, arg):
    if isinstance(arg, list):
      return list(arg)
    if isinstance(arg, str) and arg:
      return self.cur + arg.split('/')
    return []

  def enter(self, arg):
    """Returns True and pushes if valid; otherwise leaves the stack as it was."""
    if not self.valid(arg):
      return False
    self.stack.append(self.target(arg))
    return True

  def exit(self):
    self.stack.pop()


def overlay(bindings, selector, scope):
  """bindings: {(scope_str, selector): {param: value}}.  Shortest prefix first, longer overrides."""
  out = {}
  for i in range(len(scope) + 1):
    out.update(bindings.get(('/'.join(scope[:i]), selector), {}))
  return out


def injected(applicable, positional_names, nP, K):
  named = positional_names[:nP]
  return {p: v for p, v in applicable.items() if p not in named and p not in K}


def resolve_suffix(names, q):
  """Suffix resolution: exact match wins, else all stored names ending with '.'+q."""
  if q in names:
    return [q]
  return sorted(n for n in names if n.endswith('.' + q))
