"""Shared machinery: worker context, fan-out, evidence, verdicts.

A check module (vf/checks/cNN.py) provides

  ID, LEVEL, RULE, TIERS = {'quick': {...}, 'thorough': {...}}
  REQUIRED_BUCKETS   coverage buckets that must be hit or the run is inconclusive
  ORACLE_COUNTERS    counters that must be > 0 (the deciding monitors)
  iter_cases(ctx, rng, n)  -> yields JSON-able cases     (worker side)
  run_case(ctx, case)      -> drives the real gin and reports through ctx
  optional setup(ctx), worker_main(ctx, rng, n), finish(ctx), ASSUMPTIONS

Every worker is a fresh interpreter whose sys.path[0] is the repository under
test; the parent only aggregates what the workers' monitors counted.
"""
import hashlib
import json
import os
import random
import subprocess
import sys
import time
import traceback

VERIF = os.path.dirname(os.path.dirname(os.path.abspath(__file__)))
PY = '/venv/bin/python'
MARK = '@@VF-RESULT@@'


def repo_root():
  return os.path.realpath(os.environ.get('VERIF_REPO', '/repo'))


def derive_seed(*parts):
  h = hashlib.sha256(':'.join(str(p) for p in parts).encode()).hexdigest()
  return int(h[:12], 16)


def short(x, n=300):
  s = x if isinstance(x, str) else repr(x)
  return s if len(s) <= n else s[:n] + '...<%d>' % len(s)


def to_json(o):
  """Lossless JSON encoding of generated cases (tuples, bytes, non-str dict keys, complex, special floats, sets)."""
  t = type(o)
  if o is None or t in (bool, int, str):
    return o
  if t is float:
    return o if o == o and o not in (float('inf'), float('-inf')) else {'__float__': repr(o)}
  if t is list:
    return [to_json(x) for x in o]
  if t is tuple:
    return {'__tuple__': [to_json(x) for x in o]}
  if t is bytes:
    return {'__bytes__': o.hex()}
  if t is complex:
    return {'__complex__': [o.real, o.imag]}
  if t in (set, frozenset):
    return {'__set__': [to_json(x) for x in sorted(o, key=repr)]}
  if t is dict:
    if all(type(k) is str and not k.startswith('__') for k in o):
      return {k: to_json(v) for k, v in o.items()}
    return {'__dict__': [[to_json(k), to_json(v)] for k, v in o.items()]}
  return {'__repr__': repr(o)}


def from_json(o):
  if isinstance(o, list):
    return [from_json(x) for x in o]
  if isinstance(o, dict):
    if '__tuple__' in o:
      return tuple(from_json(x) for x in o['__tuple__'])
    if '__bytes__' in o:
      return bytes.fromhex(o['__bytes__'])
    if '__complex__' in o:
      return complex(*o['__complex__'])
    if '__float__' in o:
      return float(o['__float__'])
    if '__set__' in o:
      return set(from_json(x) for x in o['__set__'])
    if '__dict__' in o:
      return {from_json(k): from_json(v) for k, v in o['__dict__']}
    if '__repr__' in o:
      return o['__repr__']
    return {k: from_json(v) for k, v in o.items()}
  return o


class Inconclusive(Exception):
  pass


class Ctx:
  """Per-worker monitor state (single-threaded use, or under the caller's lock)."""

  def __init__(self, pid, tier, seed, widx, nworkers, params):
    self.pid = pid
    self.tier = tier
    self.seed = seed
    self.widx = widx
    self.nworkers = nworkers
    self.params = params
    self.counters = {}
    self.buckets = {}
    self.fps = set()
    self.samples = []
    self.violations = []
    self.viol_counts = {}
    self.notes = {}
    self.case_no = 0
    self.cur_case = None
    self.uid = 'w%dx%d' % (widx, seed % 100000)
    self.exhaustive = None

  # -- counting ---------------------------------------------------------
  def count(self, name, k=1):
    self.counters[name] = self.counters.get(name, 0) + k

  def bucket(self, name, k=1):
    self.buckets[name] = self.buckets.get(name, 0) + k

  def fp(self, *obj):
    """Record a structural fingerprint of a non-trivial case."""
    h = hashlib.blake2b(repr(obj).encode(), digest_size=6).hexdigest()
    if len(self.fps) < 400000:
      self.fps.add(h)

  def sample(self, obj, cap=4):
    if len(self.samples) < cap:
      self.samples.append(to_json(obj))

  def note(self, k, v):
    self.notes[k] = v

  # -- verdicts ---------------------------------------------------------
  def violation(self, key, msg, detail=None, case=None):
    """key = mechanism classifier (never a seed / hash / random value)."""
    self.viol_counts[key] = self.viol_counts.get(key, 0) + 1
    if self.viol_counts[key] <= 3:
      self.violations.append({
          'key': key,
          'msg': short(msg, 2000),
          'detail': to_json(detail),
          'case': to_json(case if case is not None else self.cur_case),
          'worker': self.widx,
          'case_no': self.case_no,
      })

  def check(self, cond, key, msg, detail=None):
    self.count('oracle_evals')
    if not cond:
      self.violation(key, msg, detail)
    return cond

  def result(self):
    return {
        'counters': self.counters,
        'buckets': self.buckets,
        'fps': sorted(self.fps),
        'samples': self.samples,
        'violations': self.violations,
        'viol_counts': self.viol_counts,
        'notes': self.notes,
        'cases': self.case_no,
        'exhaustive': self.exhaustive,
    }


def load_check(pid):
  import importlib
  return importlib.import_module('vf.checks.' + pid.lower())


# ---------------------------------------------------------------------------
# Worker side


def worker_entry(argv):
  pid, tier, seed, widx, nworkers, ncases = argv[:6]
  seed, widx, nworkers, ncases = int(seed), int(widx), int(nworkers), int(ncases)
  root = repo_root()
  sys.path.insert(0, root)
  import gin  # noqa
  gin_file = os.path.realpath(gin.__file__)
  if not gin_file.startswith(root + os.sep):
    print(MARK + json.dumps({'fatal': 'gin imported from %s not %s' % (gin_file, root)}))
    return 3
  mod = load_check(pid)
  params = dict(mod.TIERS[tier])
  ctx = Ctx(pid, tier, seed, widx, nworkers, params)
  rng = random.Random(seed)
  try:
    if hasattr(mod, 'setup'):
      mod.setup(ctx)
    if hasattr(mod, 'worker_main'):
      mod.worker_main(ctx, rng, ncases)
    else:
      known = {k for (p, k), f in load_known().items()
               if p == pid and f.get('status') == 'known'}
      for case in mod.iter_cases(ctx, rng, ncases):
        # The verdict is decided once unlisted violations pile up; a broken
        # tree may also leak state that makes later cases ever slower, so stop
        # rather than run into the watchdog (which would lose the witnesses).
        if sum(n for k, n in ctx.viol_counts.items() if k not in known) >= 300:
          ctx.note('stopped_early_after_violations', ctx.case_no)
          break
        ctx.case_no += 1
        ctx.cur_case = case
        try:
          mod.run_case(ctx, case)
        except Inconclusive:
          raise
        except Exception as e:  # harness bug or unexpected gin failure: surface it
          ctx.violation('harness-exception:' + type(e).__name__,
                        'unexpected exception in run_case: %r' % (e,),
                        detail=traceback.format_exc()[-3000:])
        ctx.cur_case = None
    if hasattr(mod, 'finish'):
      mod.finish(ctx)
    if getattr(mod, 'ONLINE', None) and not os.environ.get('VF_NO_ONLINE'):
      # further workloads under the property's online monitor: the repository's own tests, other checks' generated cases
      from vf import foreign
      try:
        foreign.run_spec(ctx, mod.ONLINE, tier)
      except Inconclusive:
        raise
      except Exception as e:  # the monitor could not attach to this tree: keep what the check itself observed
        ctx.note('online_workload_failed', '%s: %s' % (type(e).__name__, e))
        ctx.count('online_workload_failed')
  except Inconclusive as e:
    out = ctx.result()
    out['inconclusive'] = str(e)
    print(MARK + json.dumps(out, default=repr))
    return 0
  print(MARK + json.dumps(ctx.result(), default=repr))
  return 0


def replay_entry(pid, path):
  root = repo_root()
  sys.path.insert(0, root)
  import gin  # noqa
  mod = load_check(pid)
  rec = json.load(open(path))
  tier = rec.get('tier', 'quick')
  ctx = Ctx(pid, tier, rec.get('worker_seed', 0), rec.get('worker', 0), 1,
            dict(mod.TIERS[tier]))
  if hasattr(mod, 'setup'):
    mod.setup(ctx)
  case = from_json(rec['case'])
  ctx.cur_case = case
  ctx.case_no = rec.get('case_no', 1)
  if isinstance(case, dict) and 'workload' in case:
    from vf import foreign
    ctx.seed, ctx.widx, ctx.nworkers = rec.get('worker_seed', 0), rec.get('worker', 0), rec.get('nworkers', 1)
    if case['workload'] == 'suite':
      ctx.widx = 0
    foreign.run_spec(ctx, mod.ONLINE, tier, only=case['workload'])
  elif hasattr(mod, 'replay_case'):
    mod.replay_case(ctx, case)
  else:
    mod.run_case(ctx, case)
  for v in ctx.violations:
    print('REPLAY-VIOLATION key=%s %s' % (v['key'], v['msg']))
    if v.get('detail'):
      print('  detail:', short(v['detail'], 4000))
  print('replay: %d violation(s), %d oracle evaluations' %
        (sum(ctx.viol_counts.values()), ctx.counters.get('oracle_evals', 0)))
  return 1 if ctx.violations else 0


# ---------------------------------------------------------------------------
# Parent side


def load_known():
  path = os.path.join(VERIF, 'known_findings.json')
  if not os.path.exists(path):
    return {}
  data = json.load(open(path))
  return {(f['property'], f['key']): f for f in data.get('findings', [])}


def run_check(pid, tier, seed, workers_override=None, cases_override=None):
  t0 = time.time()
  mod = load_check(pid)
  params = mod.TIERS[tier]
  nworkers = workers_override or params.get('workers', 8)
  ncases = cases_override or params['cases']
  timeout = params.get('timeout', 900)
  env = dict(os.environ)
  env['PYTHONHASHSEED'] = '0'
  env['PYTHONPATH'] = VERIF
  env['PYTHONDONTWRITEBYTECODE'] = '1'
  env.setdefault('VERIF_REPO', '/repo')
  # Every temporary file or directory of the workers (generated packages, config files, scratch copies) lives under one directory per
  # run - and one under /dev/shm where checks ask for a memory-backed one - which the parent removes when the workers are done or killed.
  import shutil
  import tempfile
  scratch = tempfile.mkdtemp(prefix='vf-run-%s-' % pid)
  shm_scratch = None
  if os.path.isdir('/dev/shm') and os.access('/dev/shm', os.W_OK | os.X_OK):
    shm_scratch = tempfile.mkdtemp(prefix='vf-run-%s-' % pid, dir='/dev/shm')
  env['TMPDIR'] = scratch
  env['VF_SHM_DIR'] = shm_scratch or scratch
  procs = []
  for w in range(nworkers):
    wseed = derive_seed(seed, pid, w)
    cmd = [PY, '-m', 'vf.worker', pid, tier, str(wseed), str(w), str(nworkers), str(ncases)]
    procs.append((w, wseed, subprocess.Popen(
        cmd, cwd=VERIF, env=env, stdout=subprocess.PIPE, stderr=subprocess.PIPE, text=True)))
  results, problems = [], []
  deadline = t0 + timeout
  for w, wseed, p in procs:
    try:
      out, err = p.communicate(timeout=max(1, deadline - time.time()))
    except subprocess.TimeoutExpired:
      p.kill()
      out, err = p.communicate()
      problems.append('worker %d exceeded the %ds wall-clock watchdog' % (w, timeout))
      continue
    line = [l for l in out.splitlines() if l.startswith(MARK)]
    if not line:
      problems.append('worker %d produced no result (rc=%s): %s' % (w, p.returncode, short(err[-1500:], 1500)))
      continue
    r = json.loads(line[-1][len(MARK):])
    if 'fatal' in r:
      problems.append('worker %d: %s' % (w, r['fatal']))
      continue
    if 'inconclusive' in r:
      problems.append('worker %d: %s' % (w, r['inconclusive']))
    r['wseed'] = wseed
    results.append(r)
  shutil.rmtree(scratch, ignore_errors=True)
  if shm_scratch:
    shutil.rmtree(shm_scratch, ignore_errors=True)

  # aggregate
  counters, buckets, fps, samples, viols, vcounts, notes = {}, {}, set(), [], [], {}, {}
  cases = 0
  exhaustive = None
  for r in results:
    for k, v in r['counters'].items():
      counters[k] = counters.get(k, 0) + v
    for k, v in r['buckets'].items():
      buckets[k] = buckets.get(k, 0) + v
    fps.update(r['fps'])
    for s in r['samples']:
      if len(samples) < 6:
        samples.append(s)
    for v in r['violations']:
      v['worker_seed'] = r['wseed']
      viols.append(v)
    for k, v in r['viol_counts'].items():
      vcounts[k] = vcounts.get(k, 0) + v
    for k, v in r['notes'].items():
      notes.setdefault(k, v)
    cases += r['cases']
    if r.get('exhaustive') is not None:
      exhaustive = r['exhaustive'] if exhaustive is None else (exhaustive and r['exhaustive'])

  known = load_known()
  unknown_keys, known_keys = [], []
  for k in sorted(vcounts):
    f = known.get((pid, k))
    if f and f.get('status') == 'known':
      known_keys.append(k)
    else:
      unknown_keys.append(k)

  missing = [b for b in getattr(mod, 'REQUIRED_BUCKETS', []) if not buckets.get(b)]
  zero = [c for c in getattr(mod, 'ORACLE_COUNTERS', ['oracle_evals']) if not counters.get(c)]
  if missing:
    problems.append('coverage buckets never hit: %s' % missing[:12])
  if zero:
    problems.append('deciding monitor never evaluated: %s' % zero)

  os.makedirs(os.path.join(VERIF, 'replays'), exist_ok=True)
  os.makedirs(os.path.join(VERIF, 'evidence'), exist_ok=True)
  replay_paths = []
  for i, v in enumerate(viols):
    if v['key'] in known_keys:
      continue
    path = os.path.join(VERIF, 'replays', '%s-%s-%d.json' % (pid, seed, i))
    json.dump({'property': pid, 'tier': tier, 'seed': seed, 'key': v['key'], 'msg': v['msg'],
               'detail': v['detail'], 'case': v['case'], 'worker': v['worker'],
               'worker_seed': v['worker_seed'], 'case_no': v['case_no']},
              open(path, 'w'), indent=1, default=repr)
    replay_paths.append((v, path))

  n_unknown = sum(vcounts[k] for k in unknown_keys)
  wall = time.time() - t0
  evals = counters.get('oracle_evals', 0)
  evidence = {
      'property_id': pid,
      'tier': tier,
      'seed': seed,
      'level': mod.LEVEL,
      'coverage': {
          'evaluations': max(evals, cases),
          'distinct_nontrivial': len(fps),
          'rule': mod.RULE,
          'samples': samples if samples else [],
          'cases_run': cases,
          'oracle_evaluations': evals,
          'counters': counters,
          'buckets': buckets,
          'workers': len(results),
          'known_finding_hits': {k: vcounts[k] for k in known_keys},
          'notes': notes,
      },
      'assumptions': list(getattr(mod, 'ASSUMPTIONS', [])) + [
          'gin imported from %s in fresh worker processes (PYTHONHASHSEED=0)' % repo_root(),
          'CPython %d.%d.%d' % sys.version_info[:3]],
      'wall_s': round(wall, 2),
      'violations': n_unknown,
  }
  if exhaustive is not None:
    evidence['coverage']['exhaustive'] = bool(exhaustive)
  verdict = 'held'
  if n_unknown:
    verdict = 'violated'
  elif problems:
    verdict = 'inconclusive'
  evidence['coverage']['verdict'] = verdict
  if problems:
    evidence['coverage']['inconclusive_reasons'] = problems
  json.dump(evidence, open(os.path.join(VERIF, 'evidence', pid + '.json'), 'w'), indent=1, default=repr)

  for k in known_keys:
    f = known[(pid, k)]
    print('KNOWN-FINDING: property=%s %s [key=%s, observed %d times this run]' %
          (pid, f.get('what', k), k, vcounts[k]))
  print('%s tier=%s seed=%s workers=%d cases=%d oracle_evals=%d distinct=%d wall=%.1fs verdict=%s' %
        (pid, tier, seed, len(results), cases, evals, len(fps), wall, verdict))
  if n_unknown:
    shown = set()
    for v, path in replay_paths:
      if v['key'] in shown:
        continue
      shown.add(v['key'])
      print('VIOLATION property=%s replay=%s' % (pid, path))
      print('  key=%s count=%d: %s' % (v['key'], vcounts[v['key']], short(v['msg'], 600)))
    return 1
  if problems:
    for pr in problems:
      print('INCONCLUSIVE property=%s reason=%s' % (pid, pr))
    return 2
  return 0
