"""Worker entry point: python -m vf.worker <ID> <tier> <seed> <widx> <nworkers> <ncases>."""
import sys
from vf import core

if __name__ == '__main__':
  sys.exit(core.worker_entry(sys.argv[1:]))
