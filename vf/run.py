"""Entry point:  /venv/bin/python -m vf.run C07 [--tier quick|thorough] [--replay PATH]

Exit 0 = held on everything observed, 1 = violation (VIOLATION line), 2 = inconclusive.
Environment: VERIF_SEED (int, default 0), VERIF_TIER, VERIF_REPO (default /repo).
"""
import argparse
import json
import os
import subprocess
import sys

from vf import core


def selfcheck():
  """setup_cmd: everything needed is on disk (no third-party dependency)."""
  ok = os.path.exists(core.PY) and os.path.isdir(core.repo_root())
  out = subprocess.run([core.PY, '-c', 'import sys; sys.path.insert(0, %r); import gin; print(gin.__file__)'
                        % core.repo_root()], capture_output=True, text=True)
  print('python:', core.PY, 'gin:', out.stdout.strip() or out.stderr.strip()[-300:])
  return 0 if ok and out.returncode == 0 else 1


def main():
  ap = argparse.ArgumentParser()
  ap.add_argument('pid', nargs='?')
  ap.add_argument('--tier', default=os.environ.get('VERIF_TIER') or 'quick')
  ap.add_argument('--replay')
  ap.add_argument('--selfcheck', action='store_true')
  ap.add_argument('--workers', type=int)
  ap.add_argument('--cases', type=int)
  a = ap.parse_args()
  if a.selfcheck:
    return selfcheck()
  pid = a.pid.upper()
  if a.replay:
    env = dict(os.environ, PYTHONHASHSEED='0', PYTHONPATH=core.VERIF, PYTHONDONTWRITEBYTECODE='1')
    return subprocess.run([core.PY, '-c',
                           'import sys; from vf import core; sys.exit(core.replay_entry(%r, %r))'
                           % (pid, a.replay)], env=env, cwd=core.VERIF).returncode
  seed = int(os.environ.get('VERIF_SEED') or 0)
  tier = a.tier if a.tier in ('quick', 'thorough') else 'quick'
  return core.run_check(pid, tier, seed, a.workers, a.cases)


if __name__ == '__main__':
  sys.exit(main())
