"""C16 — a failed parse applies exactly the preceding statements; errors say where."""
import contextlib
import io
import itertools
import os
import re
import shutil
import tempfile
import tokenize

from vf import probes, snap
from vf.teq import canon

ID = 'C16'
LEVEL = 'fault_enumeration'
RULE = ('valid configs (bindings string or file, include trees to depth 3, 3-15 statements: flat bindings with single- and multi-line values, blocks, '
        'macros, imports, includes, comments/blank lines); for every insertion position (before each statement of each file, at each block-member index, '
        'at end of file) x fault kind {bad value, missing value, unbalanced open/close bracket, bad selector, unknown parameter / configurable / '
        'reference (multi-line), ambiguous macro-constant, denylisted parameter, bad include, bad import, block member: semantic / syntactic / missing "=", '
        'tokenizer fault on the first token of the next statement, source unreadable from line N on: reader\'s file object raising (readline only / every reading '
        'method) or bytes that are not UTF-8 (binary-mode reader, binary file object, text file with the bad line beyond one decoding chunk)} one faulty variant is parsed. Oracles: store == store of a '
        'cleared config given only the preceding statements (flattened prefix text), scope/lock/parse-context depth unchanged, a follow-up parse agrees in '
        'both worlds; semantic faults keep their class (real except clause) and name file/bindings-string + line once per include level, innermost '
        'first; syntax faults report a line inside the statement span. Plus provenance: "# Set in src:line:" equals the model\'s last setter. '
        'Each fault is driven through one entry point {parse_config(str) / parse_config_file, parse_config(list of statements), parse_config(file object, '
        'named or not), parse_config_files_and_bindings(first file, root, later file; bindings)} x {absolute / search-path-relative includes} x '
        '{skip_unknown False / True / list} x {empty / non-empty config before} x {unlocked / locked + unlock_config()} x {once / twice in a row}, then '
        'a follow-up {string, file, include, the corrected input} plus plain bind_parameter / query_parameter, compared with the prefix world; after the '
        'failure the provenance comments of the applied prefix are compared with the last-setter model. One config in eight has a root file with '
        'dynamic registration (own symbol table). Once per config: the valid config parsed successfully (provenance through includes) and parsed while '
        'the config is locked (fails at the first binding statement, nothing changes, lock stays). '
        'Comment lines may end in characters str.splitlines() breaks at (form feed, separators); import faults include a module whose own import fails. '
        'quick samples positions, thorough enumerates every position x kind of each generated config. distinct = (config shape, position class, fault kind)')
TIERS = {
    'quick': {'workers': 8, 'cases': 60, 'timeout': 900, 'faults_per_config': 36, 'all_positions': False},
    'thorough': {'workers': 16, 'cases': 100, 'timeout': 3400, 'faults_per_config': 0, 'all_positions': True},
}
FAULTS = {
    # kind: (lines, expected exception classes, semantic?, accepts-any-line-in-span?)
    'bad-value': (['c16f.x = 1 +'], (SyntaxError,), False),
    'missing-value': (['c16f.x ='], (SyntaxError,), False),
    'unbalanced-open': (['c16f.x = [1, 2'], (SyntaxError, tokenize.TokenError), False),
    'unbalanced-close': (['c16f.x = 1]'], (SyntaxError, tokenize.TokenError), False),
    'bad-selector-empty-component': (['c16f..x = 1'], (SyntaxError,), False),
    'bad-selector-whitespace': (['a /c16f.x = 1'], (SyntaxError,), False),
    'unknown-parameter': (['c16f.nope = 1'], (ValueError,), True),
    'unknown-parameter-scoped': (['sc/c16f.nope = 1'], (ValueError,), True),
    'unknown-configurable': (['c16_nosuch.x = 1'], (ValueError,), True),
    # a block whose HEADER names no configurable: the header line is the offending statement, nothing of the block is applied
    'unknown-block-header': (['c16_nosuch:', '  x = 1', "  y = 'never'"], (ValueError,), True),
    'unknown-reference': (['c16f.x = [1,', '  @c16_nosuch()]'], (ValueError,), True),
    'ambiguous-constant': (['c16f.x = %C16AMBIG'], (ValueError,), True),
    'denylisted-parameter': (['c16d.secret = 1'], (ValueError,), True),
    'bad-include': (["include '/nonexistent/c16_missing_file.gin'"], (IOError,), True),
    'bad-import': (['import c16_missing_module_xyz'], (ImportError,), True),
    # the imported module is there, but a module IT imports is not: the caller's `except ModuleNotFoundError` still applies
    'import-nested-missing-module': (['import vfc16_nested'], (ModuleNotFoundError,), True),
    'tokenizer-fault-next-statement': (["'unterminated string at the start of a statement"], (SyntaxError, tokenize.TokenError), False),
    # a statement whose own work fails with a file-system error class (the import opens a data file that is not there / not readable)
    'import-raises-FileNotFoundError': (['import vfc16_fnf'], (FileNotFoundError,), True),
    'import-raises-PermissionError': (['import vfc16_perm'], (PermissionError,), True),
    # ... or is abandoned by an exception that is not an Exception (sys.exit() in a module, Ctrl-C): passes through, leaves nothing behind
    'import-aborts-SystemExit': (['import vfc16_exit'], (SystemExit,), False),
    'import-aborts-KeyboardInterrupt': (['import vfc16_kbd'], (KeyboardInterrupt,), False),
}
MEMBER_FAULTS = {
    'member-semantic': (['nope = 1'], (ValueError,), True),
    'member-syntactic': (['x = 1 +'], (SyntaxError,), False),
    'member-missing-eq': (['x 1'], (SyntaxError,), False),
    'member-unknown-reference': (['y = @c16_nosuch'], (ValueError,), True),
}
# A file that enables dynamic registration has its own symbol table ("per-file import tables"): there the configurables are reached through an
# imported module. Selectors of the generated statements / faults are rewritten for such a file; exception classes the existing oracle has not
# established for this mode (NameError / AttributeError of the symbol lookup) are left open (any Exception).
DYN_SEL = {'c16f': 'vfc16_dyn.g', 'm.c16f': 'vfc16_dyn.g', 'c16g': 'vfc16_dyn.h', 'c16d': 'vfc16_dyn.h'}
DYN_HEADER = ['from __gin__ import dynamic_registration', 'import vfc16_dyn']
DYN_OPEN_CLASS = ('unknown-configurable', 'unknown-block-header', 'unknown-reference', 'member-unknown-reference', 'dyn-unknown-attribute')
DYN_ONLY_FAULTS = {'dyn-unknown-attribute': (['vfc16_dyn.nosuch.x = 1'], (Exception,), True)}
DYN_EXCLUDED = ('denylisted-parameter',)     # the dynamically registered functions have no denylist

# Faults of the READING kind: the source cannot be read / decoded from some line on (the statements on the lines before it are the "preceding
# statements"). 'reader-raises': a registered reader's file object fails when asked for that line (through readline only, or through every reading
# method a file object has: read / readlines / iteration fail as well, since they would have to pass the bad spot). 'undecodable-byte': the line
# holds bytes that are not UTF-8 (written as surrogate escapes here, real bytes on disk); it reaches gin through a reader that opens files in binary
# mode (gin decodes the lines), through a binary file object handed to parse_config, or through the ordinary text-mode reader - there Python decodes
# in chunks, so the bad line is put beyond a padding of comment lines longer than one chunk and the number of readable lines is measured with a
# plain readline loop (not assumed). The exception class is not named by the property for these: any Exception is accepted for the decoding fault.
BAD_BYTE_LINES = ("c16f.x = 'caf\udce9 never applied'", "c16f.x = 'lone continuation byte \udc80'", "# a comment with a truncated sequence \udce2\udc82",
                  "c16f.x = ['na\udcefve',", "\udcff\udcfe")
READ_FAULTS = ('reader-raises', 'undecodable-byte')
DELIVERIES = ('binary-reader', 'binary-fileobject', 'text-file-beyond-decoding-chunk')
PAD_LINE = '# padding before the undecodable line: c16f.y = [ %04d ' + 'x' * 40
PAD_BYTES = io.DEFAULT_BUFFER_SIZE + 256

# Ways to drive the faulty parse (entry point / shape of the input), states it starts from, what is tried afterwards.
ENTRIES = ('plain', 'plain', 'plain', 'list-or-filelike', 'files-and-bindings')
# skip_unknown=True turns these kinds into non-errors (or leaves open when the error is raised): never combined
SKIP_TRUE_EXCLUDED = ('unknown-configurable', 'unknown-block-header', 'bad-import', 'import-nested-missing-module', 'unknown-reference', 'member-unknown-reference')
SKIP_LIST_EXCLUDED = ('bad-import', 'import-nested-missing-module')
PRE_LINES = ["c16f.x = 'pre'", "sc/c16g.y = 'pre'", "c16mac = 'pre'"]
PRE_KEYS = [('', 'c16f', 'x'), ('sc', 'c16g', 'y'), ('c16mac', 'gin.macro', 'value')]
PRE_LINES_DYN = ["vfc16_dyn.g.x = 'pre'"]
PRE_KEYS_DYN = [('', 'vfc16_dyn.g', 'x')]
FIRST_FILE_LINES = ["c16g.z = 'first-file'", '', "c16f.x = 'first-file'"]
FIRST_FILE_KEYS = [(1, ('', 'c16g', 'z')), (3, ('', 'c16f', 'x'))]
LATER_FILE_LINES = ["later/c16f.x = 'later-file'"]
CLI_BINDINGS = ["later/c16f.y = 'command-line'"]
CANON_SEL = {'c16f': 'c16.m.c16f', 'm.c16f': 'c16.m.c16f', 'c16g': 'c16.m.c16g', 'c16d': 'c16.m.c16d', 'vfc16_dyn.g': 'vfc16_dyn.g', 'vfc16_dyn.h': 'vfc16_dyn.h',
             'gin.macro': 'gin.macro'}

REQUIRED_BUCKETS = (['fault:' + k for k in FAULTS] + ['fault:' + k for k in MEMBER_FAULTS] + ['fault:' + k for k in READ_FAULTS] + ['read-fault:' + d for d in DELIVERIES] + [
                    'read-fault:file-object-readline-only', 'read-fault:file-object-full-api', 'read-fault:in-included-file', 'read-fault:after-applied-statements', 'pos:first-statement', 'pos:end-of-file',
                    'pos:in-included-file', 'pos:depth3', 'pos:after-include', 'pos:after-block', 'pos:block-member-0', 'pos:block-member-k', 'pos:after-multiline-value',
                    'root:string', 'root:file', 'followup:compared', 'message:chain-2+', 'provenance:file', 'provenance:string', 'provenance:programmatic',
                    'provenance:block-member', 'provenance:overwritten', 'provenance:macro', 'provenance:restated-same-value',
                    # entry points / shapes
                    'entry:list', 'entry:filelike-named', 'entry:filelike-unnamed', 'entry:files-and-bindings:fault-in-file', 'entry:files-and-bindings:fault-in-bindings',
                    'include:relative-to-search-path', 'skip-unknown:True', 'skip-unknown:list',
                    # states the failing call starts from, fault sequences
                    'pre:non-empty-config', 'pre:binding-overwritten-by-prefix', 'lock:failure-inside-unlock-config', 'lock:parse-while-locked',
                    'seq:two-consecutive-failures', 'followup:string', 'followup:file', 'followup:include', 'followup:corrected-retry', 'followup:api-bind-and-query',
                    # provenance after a failed parse / through includes
                    'provenance:after-failed-parse', 'provenance:after-failed-parse:included-file', 'provenance:through-include',
                    'provenance:includer-overrides-included', 'provenance:included-overrides-includer',
                    # a file with its own import table
                    'dynreg:fault-in-dynamic-registration-file', 'fault:dyn-unknown-attribute'])
ORACLE_COUNTERS = ['oracle_evals', 'faults_injected', 'prefix_stores_compared', 'messages_checked', 'provenance_lines_checked']
LOC = re.compile(r'In (?:file "([^"]*)",|(bindings string)) line (\d+)')
_S = {}


class ReaderFault(OSError):
  pass



def _lines(text, keepends=False):
  """Lines as files and tokenize see them: broken at '\\n' only (str.splitlines also breaks at form feeds, separators, NEL...)."""
  import io
  ls = io.StringIO(text).readlines()
  return ls if keepends else [l[:-1] if l.endswith('\n') else l for l in ls]


def setup(ctx):
  import gin
  for name, deny in (('c16f', None), ('c16g', None), ('c16d', ['secret'])):
    spec = {'shape': 'fn', 'api': 'external', 'name': name, 'module': 'c16.m', 'pos': [], 'dflt': [['x', 0], ['y', 0], ['z', 0], ['secret', 0]],
            'varargs': False, 'kwonly': [], 'varkw': False}
    if deny:
      spec['deny'] = deny
    probes.build(spec)
  gin.constant('p.C16AMBIG', 1)
  gin.constant('q.C16AMBIG', 2)
  # (thousands of small files are rewritten: a memory-backed directory where there is one)
  shm = os.environ.get('VF_SHM_DIR') or ('/dev/shm' if (os.path.isdir('/dev/shm') and os.access('/dev/shm', os.W_OK | os.X_OK)) else None)
  _S['root'] = tempfile.mkdtemp(prefix='vf-c16-', dir=shm)
  import sys
  os.makedirs(os.path.join(_S['root'], 'py'))
  for mod, body in (('vfc16_fnf', "raise FileNotFoundError(2, 'No such file or directory', 'weights.bin')"), ('vfc16_perm', "raise PermissionError(13, 'Permission denied', 'secret.bin')"),
                    ('vfc16_exit', 'import sys\nsys.exit(3)'), ('vfc16_nested', 'import c16_dependency_that_is_not_installed'), ('vfc16_kbd', 'raise KeyboardInterrupt()')):
    open(os.path.join(_S['root'], 'py', mod + '.py'), 'w').write(body + '\n')
  open(os.path.join(_S['root'], 'py', 'vfc16_dyn.py'), 'w').write(
      'def g(x=0, y=0, z=0, secret=0):\n  return (x, y, z)\n\n\ndef h(x=0, y=0, z=0, secret=0):\n  return (x, y, z)\n')
  sys.path.insert(0, os.path.join(_S['root'], 'py'))
  _S['n'] = itertools.count()
  # Which registrations a FAILING dynamic-registration statement leaves behind is not constrained: register both functions up front, so that
  # every later world (failed parse / prefix only) sees the same registry.
  gin.parse_config('\n'.join(DYN_HEADER + ['vfc16_dyn.g.x = 0', 'vfc16_dyn.h.x = 0']) + '\n')
  gin.clear_config()
  # relative include names are looked up under the registered search paths
  gin.add_config_file_search_path(_S['root'])


def finish(ctx):
  shutil.rmtree(_S['root'], ignore_errors=True)


# ---------------------------------------------------------------------------
# config generation


def gen_vspec(rng):
  r = rng.random()
  if r < 0.55:
    return ['lit', rng.choice([1, 'text', None, 2.5, [1, 2], {'k': (1, 2)}, True]), False]
  if r < 0.75:
    return ['lit', rng.choice([[1, 2, 3], {'a': 1, 'b': [2, 3]}, ('x', 'y')]), True]   # rendered over several lines
  if r < 0.9:
    return ['ref', 'c16g', rng.random() < 0.5]
  return ['macro', 'c16mac']


def gen_file(rng, fid, depth, state):
  items = []
  for _ in range(rng.choice([2, 3, 4, 5, 6])):
    r = rng.random()
    if r < 0.45:
      items.append(['bind', rng.choice(['', '', 'sc', 'a/b']), rng.choice(['c16f', 'c16g', 'm.c16f']), rng.choice(['x', 'y', 'z']), gen_vspec(rng)])
    elif r < 0.62:
      items.append(['block', rng.choice(['', 'sc']), rng.choice(['c16f', 'c16d']), [[p, gen_vspec(rng)] for p in rng.sample(['x', 'y', 'z'], rng.choice([1, 2, 3]))]])
    elif r < 0.7:
      items.append(['macrodef', 'c16mac', ['lit', rng.randrange(100), False]])
    elif r < 0.78:
      items.append(['import', rng.choice(['os', 'json', 'string'])])
    elif r < 0.88:
      items.append([rng.choice(['comment', 'blank'])])
    elif depth < 3 and state['count'] < 5:
      state['count'] += 1
      cid = state['count']
      state['files'][cid] = gen_file(rng, cid, depth + 1, state)
      items.append(['include', cid])
  return {'id': fid, 'items': items}


def iter_cases(ctx, rng, n):
  for i in range(n):
    if i % 6 == 5:
      yield gen_provenance(rng)
      continue
    dynreg = i % 8 == 3
    # (a file with dynamic registration has its own symbol table: the flattened-prefix oracle cannot splice other files into it -> no includes)
    state = {'count': 99 if dynreg else 0, 'files': {}}
    root = gen_file(rng, 0, 1, state)
    state['files'][0] = root
    case = {'kind': 'faults', 'files': {str(k): v for k, v in state['files'].items()}, 'root_is_string': rng.random() < 0.4, 'seed': rng.randrange(1 << 30)}
    if dynreg:
      root['items'][:0] = [['raw', l] for l in DYN_HEADER]
      case['dynreg'] = True
    yield case


def vtext(v, sel=None):
  """Returns list of lines for the value."""
  if v[0] == 'lit':
    if v[2]:
      val = v[1]
      if isinstance(val, dict):
        items = ['%r: %r' % (k, x) for k, x in val.items()]
        return ['{'] + ['    ' + it + ',' for it in items] + ['}']
      if isinstance(val, list):
        return ['['] + ['    %r,' % x for x in val] + ['  ]']
      return ['('] + ['    %r,  # c' % x for x in val] + [')']
    return [repr(v[1])]
  if v[0] == 'ref':
    return ['@' + (sel(v[1]) if sel else v[1]) + ('()' if v[2] else '')]
  return ['%' + v[1]]


class Rendered:
  """Renders the file tree; records for every atom its file, first and last line, and the flattened order."""

  def __init__(self, case, base, fault=None, relinc=False):
    self.case, self.base, self.fault, self.relinc = case, base, fault, relinc
    self.dyn = bool(case.get('dynreg'))
    self.texts = {}
    self.starts = {}    # fid -> first line of every top-level statement / comment / blank line / injected fault
    self.atoms = {}     # fid -> list of (item index, member index or None, start line, end line, flat text lines)
    self.fault_loc = None   # (fid, start line, end line)
    for fid in case['files']:
      self.render_file(fid)

  def path(self, fid):
    return os.path.join(self.base, 'f%s.gin' % fid)

  def relpath(self, fid):
    """The file's name relative to the search path registered in setup()."""
    return os.path.relpath(self.path(fid), _S['root'])

  def is_dyn(self, fid):
    return self.dyn and fid == '0'

  def key_of(self, fid, idx, mi):
    """(scope, selector as written, parameter) bound by the atom, or None."""
    it = self.case['files'][fid]['items'][idx]
    sel = (lambda n: DYN_SEL[n]) if self.is_dyn(fid) else (lambda n: n)
    if it[0] == 'bind':
      return (it[1], sel(it[2]), it[3])
    if it[0] == 'block':
      return (it[1], sel(it[2]), it[3][mi][0])
    if it[0] == 'macrodef':
      return (it[1], 'gin.macro', 'value')
    return None

  def render_file(self, fid):
    f = self.case['files'][fid]
    lines = []
    atoms = []
    fault = self.fault
    sel = (lambda n: DYN_SEL[n]) if self.is_dyn(fid) else (lambda n: n)

    def put_fault(flines, indent=''):
      start = len(lines) + 1
      for l in flines:
        lines.append(indent + l)
      self.fault_loc = (fid, start, len(lines))

    starts = []
    for idx, it in enumerate(f['items']):
      if fault and fault['where'] == ('item', fid, idx):
        starts.append(len(lines) + 1)
        put_fault(fault['lines'])
      starts.append(len(lines) + 1)
      k = it[0]
      if k == 'bind':
        vl = vtext(it[4], sel)
        key = (it[1] + '/' if it[1] else '') + sel(it[2]) + '.' + it[3]
        start = len(lines) + 1
        lines.append(key + ' = ' + vl[0])
        lines.extend(vl[1:])
        atoms.append((idx, None, start, len(lines), [key + ' = ' + vl[0]] + vl[1:]))
      elif k == 'block':
        hdr = (it[1] + '/' if it[1] else '') + sel(it[2])
        lines.append(hdr + ':')
        for mi, (p, v) in enumerate(it[3]):
          if fault and fault['where'] == ('member', fid, idx, mi):
            if (idx + mi) % 2 == 0:
              lines.append('  # a comment line right before the faulty member')
              lines.append('')
            put_fault(fault['lines'], '  ')
          # layout noise inside the block (deterministic per position): comment / blank lines before a member
          noise = (idx * 7 + mi * 3 + len(lines)) % 5
          if noise == 0:
            lines.append('  # a comment inside the block')
          elif noise == 1:
            lines.append('')
            lines.append('      # another one, indented differently')
          vl = vtext(v, sel)
          start = len(lines) + 1
          lines.append('  ' + p + ' = ' + vl[0])
          lines.extend(vl[1:])
          atoms.append((idx, mi, start, len(lines), [hdr + '.' + p + ' = ' + vl[0]] + vl[1:]))
        if fault and fault['where'] == ('member', fid, idx, len(it[3])):
          put_fault(fault['lines'], '  ')
      elif k == 'macrodef':
        start = len(lines) + 1
        lines.append(it[1] + ' = ' + vtext(it[2])[0])
        atoms.append((idx, None, start, start, [lines[-1]]))
      elif k == 'import':
        lines.append('import ' + it[1])
        atoms.append((idx, None, len(lines), len(lines), [lines[-1]]))
      elif k == 'raw':
        lines.append(it[1])
        atoms.append((idx, None, len(lines), len(lines), [lines[-1]]))
      elif k == 'include':
        lines.append("include '%s'" % (self.relpath(str(it[1])) if self.relinc else self.path(str(it[1]))))
        atoms.append((idx, 'include', len(lines), len(lines), str(it[1])))
      elif k == 'comment':
        # (some comments end in a character that str.splitlines() - but no file, and not Python's tokenizer - takes for a line break)
        lines.append('# a comment line: c16f.x = [' + ('', ' \x0c', '', ' \x1c', ' \x0b', '', ' \x1d\x1e')[(idx + len(lines)) % 7])
      else:
        lines.append('')
    if fault and fault['where'] == ('item', fid, len(f['items'])):
      starts.append(len(lines) + 1)
      put_fault(fault['lines'])
    self.texts[fid] = '\n'.join(lines) + '\n'
    self.atoms[fid] = atoms
    self.starts[fid] = starts

  def as_list(self, fid='0'):
    """The text as a list of individual statements (a block, a multi-line value, a comment line are one element each)."""
    lines = self.texts[fid].split('\n')[:-1]
    cuts = sorted(set(self.starts[fid]) | {1, len(lines) + 1})
    return ['\n'.join(lines[a - 1:b - 1]) for a, b in zip(cuts, cuts[1:])]

  def write(self, only=None):
    # (files whose content on disk is already the wanted one are not rewritten: opening files dominates the cost of a fault otherwise)
    disk = _S.setdefault('disk', {})
    for fid, t in self.texts.items():
      path = self.path(fid)
      if (only is None or fid == only) and disk.get(path) != t:
        # (surrogate escapes in the text stand for raw bytes that are not UTF-8)
        with open(path, 'w', encoding='utf-8', errors='surrogateescape') as fh:
          fh.write(t)
        disk[path] = t

  def prefix_lines(self, fid='0', chain=()):
    """Flattened text of everything applied before the fault. Returns (lines, done, chain) where chain lists (fid, line) innermost first."""
    out = []
    fault = self.fault
    if not chain:
      self.applied = []       # (fid, item index, member index, first line) of every statement applied before the fault, in order
    for (idx, mi, start, end, flat) in self.atoms[fid]:
      if fault and fault['where'][1] == fid:
        w = fault['where']
        if w[0] == 'item' and idx >= w[2]:
          return out, True, [(fid, None)] + list(chain)
        if w[0] == 'member' and (idx > w[2] or (idx == w[2] and (mi is None or mi >= w[3]))):
          return out, True, [(fid, None)] + list(chain)
      if mi == 'include':
        sub, done, ch = self.prefix_lines(flat, [(fid, start)] + list(chain))
        out += sub
        if done:
          return out, True, ch
      else:
        out += flat
        self.applied.append((fid, idx, mi, start))
    if fault and fault['where'][1] == fid:
      return out, True, [(fid, None)] + list(chain)
    return out, False, None

  def first_binding(self, fid='0', chain=()):
    """(fid, first line, [(fid, line) ...] include chain) of the first statement that binds something, in application order."""
    for (idx, mi, start, end, flat) in self.atoms[fid]:
      if mi == 'include':
        got = self.first_binding(flat, [(fid, start)] + list(chain))
        if got:
          return got
      elif self.key_of(fid, idx, mi) is not None:
        return (fid, start, list(chain))
    return None


def positions(case):
  """Every insertion point of the config: (where, position classes)."""
  # reachable files only, with their include depth
  depth = {'0': 1}
  order = ['0']
  for fid in order:
    for it in case['files'][fid]['items']:
      if it[0] == 'include' and str(it[1]) not in depth:
        depth[str(it[1])] = depth[fid] + 1
        order.append(str(it[1]))
  out = []
  for fid in order:
    items = case['files'][fid]['items']
    # (in a dynamic-registration file the faults are written against its symbol table: only after the two header statements)
    first = len(DYN_HEADER) if (case.get('dynreg') and fid == '0') else 0
    for idx in range(first, len(items) + 1):
      cls = set()
      if idx == 0:
        cls.add('pos:first-statement')
      if idx == len(items):
        cls.add('pos:end-of-file')
      if fid != '0':
        cls.add('pos:in-included-file')
      if depth[fid] >= 3:
        cls.add('pos:depth3')
      prev = [it for it in items[:idx] if it[0] not in ('comment', 'blank')]
      if prev and prev[-1][0] == 'include':
        cls.add('pos:after-include')
      if prev and prev[-1][0] == 'block':
        cls.add('pos:after-block')
      if prev and prev[-1][0] == 'bind' and prev[-1][4][0] == 'lit' and prev[-1][4][2]:
        cls.add('pos:after-multiline-value')
      out.append((('item', fid, idx), cls, depth[fid]))
    for idx, it in enumerate(items):
      if it[0] == 'block':
        for mi in range(len(it[3]) + 1):
          cls = {'pos:block-member-0' if mi == 0 else 'pos:block-member-k'}
          if fid != '0':
            cls.add('pos:in-included-file')
          out.append((('member', fid, idx, mi), cls, depth[fid]))
  return out


def fault_spec(kind, where, dyn):
  """(lines, exception classes, semantic?) of a fault kind at a position; `dyn`: the position lies in a dynamic-registration file."""
  if kind == 'reader-raises':
    return [], (ReaderFault,), True
  if kind == 'undecodable-byte':
    return [BAD_BYTE_LINES[0]], (Exception,), True
  if kind in DYN_ONLY_FAULTS:
    return DYN_ONLY_FAULTS[kind]
  lines, classes, semantic = (MEMBER_FAULTS if where[0] == 'member' else FAULTS)[kind]
  if dyn:
    lines = [l.replace('c16f', DYN_SEL['c16f']) for l in lines]
    if kind in DYN_OPEN_CLASS:
      classes = (Exception,)
  return lines, classes, semantic


def choose_mode(rng, case, where, kind, has_includes):
  """How the faulty parse is driven, from which state, and what is tried afterwards (all decided by the case's own seed)."""
  dyn = bool(case.get('dynreg'))
  mode = {'entry': rng.choice(ENTRIES), 'relinc': has_includes and rng.random() < 0.3, 'pre': rng.random() < 0.2, 'unlock': rng.random() < 0.15,
          'double': rng.random() < 0.1, 'followup': rng.choice(['string'] * 5 + ['file', 'include', 'corrected']), 'skip': False}
  r = rng.random()
  if not dyn and r < 0.25:
    if r < 0.13 and kind not in SKIP_TRUE_EXCLUDED:
      mode['skip'] = True
    elif r >= 0.13 and kind not in SKIP_LIST_EXCLUDED:
      mode['skip'] = ['c16_some_other_unknown', 'c16f']
  if kind == 'reader-raises' and mode['entry'] == 'list-or-filelike':
    mode['entry'] = 'plain'     # a file object opened by the caller does not go through the registered readers
  if kind in READ_FAULTS:
    # how the unreadable line reaches the parser / which reading methods the failing file object has / what the bad line looks like
    mode['delivery'] = rng.choice(DELIVERIES)
    mode['full_api'] = rng.random() < 0.5
    mode['bad_line'] = rng.randrange(len(BAD_BYTE_LINES))
  return mode


def read_provenance(text):
  """{binding key as printed: 'src:line' from the '# Set in' comment directly above the binding's first line, or None}."""
  lines = _lines(text)
  seen = {}
  for i, l in enumerate(lines):
    m = re.match(r'^([\w./]+) = ', l)
    if m and not l.startswith('#'):
      above = lines[i - 1] if i else ''
      pm = re.match(r'^# Set in (.*):$', above)
      seen[m.group(1)] = pm.group(1) if pm else None
  return seen


def printed_keys(key):
  """The spellings under which config_str may print the binding (minimal selector; full selector when dynamic registration is on)."""
  sc, selector, prm = key
  if selector == 'gin.macro':
    return [sc]
  full = CANON_SEL.get(selector, selector)
  pre = sc + '/' if sc else ''
  return [pre + s + '.' + prm for s in dict.fromkeys([full.rsplit('.', 1)[-1], full])]


def canon_key(key):
  return (key[0], CANON_SEL[key[1]], key[2])


def check_provenance(ctx, gin, setter, label, vkey):
  """setter: {canonical key: set of acceptable 'src:line' strings}. Returns the text without its provenance comments."""
  try:
    text = gin.config_str(show_provenance=True)
  except Exception as e:  # pylint: disable=broad-except
    ctx.check(False, vkey, '%s: config_str(show_provenance=True) raised %r' % (label, e))
    return 'RAISED %s' % type(e).__name__
  check_provenance_text(ctx, text, setter, label, vkey)
  return '\n'.join(l for l in text.split('\n') if not (l.startswith('# Set in ') and l.endswith(':')))


def check_provenance_text(ctx, text, setter, label, vkey):
  seen = read_provenance(text)
  for key, want in setter.items():
    ctx.count('provenance_lines_checked')
    got = [seen[k] for k in printed_keys(key) if k in seen]
    if not got:
      ctx.check(False, 'provenance-binding-line-missing', '%s: binding %r not found in config_str(show_provenance=True):\n%s' % (label, key, text[:800]))
      continue
    ctx.check(got[0] in want, vkey, '%s: binding %r is attributed to %r, the statement that last set it is %r\n%s' % (label, key, got[0], sorted(want), text[:900]))


def run_faults(ctx, case):
  import random
  import gin
  from gin import config as gc
  rng = random.Random(case['seed'])
  base = os.path.join(_S['root'], 'c%d' % next(_S['n']))
  os.makedirs(base)
  dyn = bool(case.get('dynreg'))
  _S['disk'] = {}
  try:
    for name, lines in (('first.gin', FIRST_FILE_LINES), ('later.gin', LATER_FILE_LINES), ('followup.gin', followup_lines(dyn))):
      with open(os.path.join(base, name), 'w') as fh:
        fh.write('\n'.join(lines) + '\n')
    plan = []
    pos = positions(case)
    has_includes = any(w[1] != '0' for w, _, _ in pos)
    for where, cls, depth in pos:
      here_dyn = dyn and where[1] == '0'
      kinds = list(MEMBER_FAULTS) if where[0] == 'member' else list(FAULTS)
      if here_dyn:
        kinds = [k for k in kinds if k not in DYN_EXCLUDED] + ([] if where[0] == 'member' else list(DYN_ONLY_FAULTS))
      for kind in kinds:
        plan.append((where, cls, depth, kind))
      if where[0] == 'item':
        for kind in READ_FAULTS:
          plan.append((where, cls, depth, kind))
    if not ctx.params['all_positions']:
      plan = rng.sample(plan, min(len(plan), ctx.params['faults_per_config']))
    else:
      ctx.count('configs_fully_enumerated')
      ctx.exhaustive = True
    ctx.bucket('root:string' if case['root_is_string'] else 'root:file')
    ctx.sample({'files': {k: v['items'][:5] for k, v in list(case['files'].items())[:3]}, 'root_is_string': case['root_is_string'],
                'fault_plan_size': len(plan), 'example_fault': [list(plan[0][0]), plan[0][3]] if plan else None}, cap=2)
    mrng = random.Random(case['seed'] ^ 0x5bd1e995)
    for where, cls, depth, kind in plan:
      one_fault(ctx, case, base, where, cls, depth, kind, gin, gc, choose_mode(mrng, case, where, kind, has_includes))
    # once per config: the valid config parsed successfully (provenance through the include tree), and parsed while the config is locked
    whole_config(ctx, case, base, gin, gc, relinc=has_includes and mrng.random() < 0.5)
    locked_parse(ctx, case, base, gin, gc, relinc=has_includes and mrng.random() < 0.3, pre=mrng.random() < 0.6)
  finally:
    shutil.rmtree(base, ignore_errors=True)
    gin.clear_config()


def followup_lines(dyn):
  return ["c16f.z = 'followup'", 'c16g.x = @c16f()', "c16mac = 'later'"] + (["vfc16_dyn.g.z = 'followup'"] if dyn else [])


def src_names(r, case, fid, unnamed_root=None):
  """Acceptable names of a file in messages / provenance: its path (as given to the reader) or, for a relative include, the name as written."""
  if fid == '0' and (case['root_is_string'] if unnamed_root is None else unnamed_root):
    return [None]
  if r.relinc and fid != '0':
    return [r.path(fid), r.relpath(fid)]
  return [r.path(fid)]


def model_setters(r, case, applied, setter, unnamed_root=None, buckets=None):
  """Adds the last setter of every applied statement to `setter` ({canonical key: set of 'src:line'})."""
  from_file = {}
  for (fid, idx, mi, start) in applied:
    key = r.key_of(fid, idx, mi)
    if key is None:
      continue
    key = canon_key(key)
    if buckets is not None and key in from_file and (from_file[key] == '0') != (fid == '0'):
      buckets.add('provenance:includer-overrides-included' if fid == '0' else 'provenance:included-overrides-includer')
    from_file[key] = fid
    setter[key] = {'%s:%d' % (n if n is not None else 'bindings string', start) for n in src_names(r, case, fid, unnamed_root)}
  if buckets is not None and any(f != '0' for f in from_file.values()):
    buckets.add('provenance:through-include')
  return from_file


def whole_config(ctx, case, base, gin, gc, relinc):
  """The valid config, parsed successfully: every binding is attributed to the file and line of the statement that last set it."""
  r = Rendered(case, base, None, relinc=relinc)
  r.write()
  r.prefix_lines()
  label = 'whole config (root %s%s)' % ('string' if case['root_is_string'] else 'file', ', relative includes' if relinc else '')
  gin.clear_config()
  try:
    if case['root_is_string']:
      gin.parse_config(r.texts['0'])
    else:
      gin.parse_config_file(r.path('0'))
  except Exception as e:  # pylint: disable=broad-except
    ctx.check(False, 'valid-config-rejected', '%s: %r' % (label, e), {'texts': r.texts})
    gin.clear_config()
    return
  setter, buckets = {}, set()
  model_setters(r, case, r.applied, setter, buckets=buckets)
  for b in buckets:
    ctx.bucket(b)
  if relinc:
    ctx.bucket('include:relative-to-search-path')
  check_provenance(ctx, gin, setter, label, 'provenance-differs-from-last-setter')
  gin.clear_config()


def locked_parse(ctx, case, base, gin, gc, relinc, pre):
  """The valid config parsed while the config is locked: IF that fails, it fails at the first statement that binds something; nothing changes."""
  r = Rendered(case, base, None, relinc=relinc)
  r.write()
  first = r.first_binding()
  if first is None:
    return
  ffid, fstart, chain = first
  label = 'parse while locked (root %s, first binding in f%s line %d)' % ('string' if case['root_is_string'] else 'file', ffid, fstart)
  gin.clear_config()
  if pre:
    gin.parse_config('\n'.join(PRE_LINES) + '\n')
  store_before = snap.store_nonempty(gc)
  depth_before = len(gc._PARSE_CONTEXTS)
  gin.finalize()
  exc = original = None
  try:
    try:
      gin.bind_parameter('c16f.x', 'locked?')     # the original exception type of a binding refused by the lock
    except Exception as e:  # pylint: disable=broad-except
      original = type(e)
    if original is None:
      return      # (the lock itself is another property's business)
    try:
      with gin.config_scope('outer/scope'):
        try:
          if case['root_is_string']:
            gin.parse_config(r.texts['0'])
          else:
            gin.parse_config_file(r.path('0'))
        except Exception as e:  # pylint: disable=broad-except
          exc = e
        scope_after = gin.current_scope()
    except Exception as e:  # pylint: disable=broad-except
      ctx.check(False, 'scope-changed-by-failed-parse', '%s: leaving the surrounding scope raised %r' % (label, e))
      return
    if exc is None:
      ctx.bucket('lock:parse-while-locked-accepted')
      return
    ctx.bucket('lock:parse-while-locked')
    ctx.count('faults_injected')
    ctx.check(isinstance(exc, original), 'exception-class-changed', '%s: a refused binding raises %s, the parse raised %s: %s' % (label, original.__name__, type(exc).__name__, str(exc)[:300]))
    ctx.check(gin.config_is_locked(), 'lock-changed-by-failed-parse', '%s: the config is unlocked after the failed parse' % label)
    ctx.check(scope_after == ['outer', 'scope'] and gin.current_scope() == [], 'scope-changed-by-failed-parse', '%s: scope %r' % (label, scope_after))
    ctx.check(len(gc._PARSE_CONTEXTS) == depth_before, 'parse-context-leaked', '%s: parse-context depth %d -> %d' % (label, depth_before, len(gc._PARSE_CONTEXTS)))
    store_after = snap.store_nonempty(gc)
    ctx.count('prefix_stores_compared')
    ctx.check(store_after == store_before, 'store-differs-from-prefix', '%s: the failed parse changed the store: %r' % (label, snap.diff(store_after, store_before)), {'texts': r.texts})
    ctx.count('messages_checked')
    found = [(m.group(1) if m.group(1) is not None else None, int(m.group(3))) for m in LOC.finditer(str(exc))]
    want = [(src_names(r, case, ffid), fstart)] + [(src_names(r, case, f), ln) for f, ln in chain]
    ok = len(found) == len(want) and all(fn in wn and fl == wl for (fn, fl), (wn, wl) in zip(found, want))
    ctx.check(ok, 'error-location-chain', '%s: message names %r, expected (innermost first) %r\n%s' % (label, found, want, str(exc)[-600:]))
  finally:
    with gin.unlock_config():
      gin.clear_config()
    gin.clear_config()


def one_fault(ctx, case, base, where, cls, depth, kind, gin, gc, mode):
  fid = where[1]
  dyn = bool(case.get('dynreg'))
  if kind == 'reader-raises':
    if case['root_is_string'] and fid == '0':
      return  # a bindings string has no reader
  flines, exc_types, semantic = fault_spec(kind, where, dyn and fid == '0')
  delivery = None
  if kind == 'undecodable-byte':
    delivery = mode['delivery']
    if fid != '0' and delivery == 'binary-fileobject':
      delivery = 'binary-reader'          # an included file is always opened by a reader
    if fid == '0' and case['root_is_string']:
      delivery = 'binary-fileobject'      # an in-memory source can only be undecodable as a bytes file object
    flines = [BAD_BYTE_LINES[mode['bad_line']]]
    if delivery == 'text-file-beyond-decoding-chunk':
      pad, size = [], 0
      while size < PAD_BYTES:
        pad.append(PAD_LINE % len(pad))
        size += len(pad[-1]) + 1
      flines = pad + flines
  fault = {'where': where, 'lines': flines, 'kind': kind}
  r = Rendered(case, base, fault if kind != 'reader-raises' else {'where': where, 'lines': ['# reader fails before this line'], 'kind': kind}, relinc=mode['relinc'])
  r.write()
  if delivery == 'text-file-beyond-decoding-chunk':
    # how many lines does a plain text-mode readline loop deliver before the decoding error? (the platform's decoding chunks, measured)
    readable = 0
    try:
      with open(r.path(fid)) as fh:
        while fh.readline():
          readable += 1
      ctx.bucket('read-fault:text-file-decodes-in-this-locale')
      return
    except UnicodeDecodeError:
      pass
    if readable < r.fault_loc[1] - 1:
      ctx.bucket('read-fault:padding-shorter-than-decoding-chunk')
      return        # the error surfaces before the preceding statements' lines can be read: nothing to demand
  ctx.count('faults_injected')
  ctx.bucket('fault:' + kind)
  for c in cls:
    ctx.bucket(c)
  ctx.fp(tuple(sorted((k, tuple(i[0] for i in v['items'])) for k, v in case['files'].items())), where[0], tuple(sorted(cls)), kind, case['root_is_string'])
  prefix, done, chain = r.prefix_lines()
  applied = list(r.applied)
  assert done, 'fault not reached in flattening'
  ffid, fstart, fend = r.fault_loc
  entry, skip = mode['entry'], mode['skip']
  root_string = case['root_is_string']
  if entry == 'list-or-filelike':
    entry = 'list' if (root_string and (fstart + len(prefix)) % 2) else 'filelike'
  if kind == 'undecodable-byte':
    if delivery == 'binary-fileobject':
      entry = 'filelike'
    elif ffid == '0' and entry == 'filelike' and delivery == 'binary-reader':
      entry = 'plain'           # a file object opened by the caller does not go through the registered readers
  pcfab = entry == 'files-and-bindings'
  label = 'fault %s at %r (file f%s lines %d-%d, root %s; entry %s%s%s%s%s%s)' % (
      kind, where, ffid, fstart, fend, 'string' if root_string else 'file', entry, ', relative includes' if mode['relinc'] else '',
      ', skip_unknown=%r' % (skip,) if skip else '', ', non-empty config before' if mode['pre'] else '',
      ', locked + unlock_config()' if mode['unlock'] else '', ', attempted twice' if mode['double'] else '')
  first_file = os.path.join(base, 'first.gin')
  later_file = os.path.join(base, 'later.gin')
  pre_lines = (PRE_LINES + (PRE_LINES_DYN if dyn else [])) if mode['pre'] else []
  pre_keys = (PRE_KEYS + (PRE_KEYS_DYN if dyn else [])) if mode['pre'] else []
  kw = {'skip_unknown': skip} if skip else {}

  def drive():
    if entry == 'plain':
      if root_string:
        gin.parse_config(r.texts['0'], **kw)
      else:
        gin.parse_config_file(r.path('0'), **kw)
    elif entry == 'list':
      gin.parse_config(r.as_list(), **kw)
    elif entry == 'filelike':
      if delivery == 'binary-fileobject':
        # a binary file object: gin decodes its lines
        if root_string:
          gin.parse_config(io.BytesIO(r.texts['0'].encode('utf-8', 'surrogateescape')), **kw)
        else:
          with open(r.path('0'), 'rb') as fh:
            gin.parse_config(fh, **kw)
      elif root_string:
        gin.parse_config(io.StringIO(r.texts['0']), **kw)      # no name: a 'bindings string'
      else:
        with open(r.path('0')) as fh:
          gin.parse_config(fh, **kw)
    elif root_string:
      gin.parse_config_files_and_bindings([first_file], r.as_list(), **kw)
    else:
      gin.parse_config_files_and_bindings([first_file, r.path('0'), later_file], CLI_BINDINGS, **kw)

  # ---- world A: the faulty parse
  gin.clear_config()
  if pre_lines:
    gin.parse_config('\n'.join(pre_lines) + '\n')
  depth_before = len(gc._PARSE_CONTEXTS)
  reader_installed = None
  if kind == 'reader-raises':
    # the file `ffid` is served by a reader whose readline raises when asked for line `fstart`
    target = r.path(ffid)
    text = r.texts[ffid]

    class FailingFile:
      def __init__(self):
        self.lines = _lines(text, True)
        self.i = 0
        self.name = target

      def readline(self, size=-1):
        self.i += 1
        if self.i >= fstart:
          raise ReaderFault(5, 'reader failed at line %d' % fstart)
        return self.lines[self.i - 1] if self.i <= len(self.lines) else ''

      def __enter__(self):
        return self

      def __exit__(self, *a):
        return False

    class FailingFullFile(FailingFile):
      """The same source with all the reading methods of a file object: whatever has to pass the bad spot fails there."""

      def read(self, size=-1):
        if size is None or size < 0:
          out = []
          while True:
            out.append(self.readline())     # (raises at the bad line: the rest of the source cannot be delivered)
            if not out[-1]:
              return ''.join(out)
        return self.readline()[:size] if size else ''

      def readlines(self, hint=-1):
        return list(self)

      def readable(self):
        return True

      def __iter__(self):
        return self

      def __next__(self):
        line = self.readline()
        if not line:
          raise StopIteration
        return line

      def close(self):
        pass

    def reader(path):
      return (FailingFullFile if mode['full_api'] else FailingFile)()

    def exists(path):
      return path == target
    saved = list(gc._FILE_READERS)
    gc._FILE_READERS[:] = [(reader, exists)] + saved
    reader_installed = saved
    ctx.bucket('read-fault:file-object-full-api' if mode['full_api'] else 'read-fault:file-object-readline-only')
  elif delivery == 'binary-reader':
    # the file `ffid` is served by a reader that opens files in binary mode (lines arrive as bytes, gin decodes them)
    target = r.path(ffid)
    saved = list(gc._FILE_READERS)
    gc._FILE_READERS[:] = [(lambda path: open(path, 'rb'), lambda path: path == target)] + saved
    reader_installed = saved
  if kind in READ_FAULTS:
    if delivery:
      ctx.bucket('read-fault:' + delivery)
    if ffid != '0':
      ctx.bucket('read-fault:in-included-file')
    if any(r.key_of(f, i, m) is not None for (f, i, m, _) in applied):
      ctx.bucket('read-fault:after-applied-statements')
  exc = None
  attempts = 2 if mode['double'] else 1
  raised = 0
  stack = contextlib.ExitStack()
  if mode['unlock']:
    gin.finalize()
    stack.enter_context(gin.unlock_config())
  try:
    try:
      with gin.config_scope('outer/scope'):
        for _ in range(attempts):
          try:
            drive()
          except exc_types as e:      # a real except clause with the original class
            exc = e
            raised += 1
        scope_after = gin.current_scope()
    except BaseException as e:  # pylint: disable=broad-except
      ctx.check(False, 'exception-class-changed', '%s: expected %s, got %s: %s' % (label, [t.__name__ for t in exc_types], type(e).__name__, str(e)[:300]))
      return
    finally:
      if reader_installed is not None:
        gc._FILE_READERS[:] = reader_installed
    if not ctx.check(raised == attempts, 'faulty-config-accepted', '%s: parse succeeded (%d of %d attempts raised)' % (label, raised, attempts)):
      return
    ctx.bucket({'plain': 'entry:plain', 'list': 'entry:list', 'filelike': 'entry:filelike-unnamed' if root_string else 'entry:filelike-named',
                'files-and-bindings': 'entry:files-and-bindings:fault-in-bindings' if root_string else 'entry:files-and-bindings:fault-in-file'}[entry])
    if mode['relinc']:
      ctx.bucket('include:relative-to-search-path')
    if skip:
      ctx.bucket('skip-unknown:True' if skip is True else 'skip-unknown:list')
    if mode['double']:
      ctx.bucket('seq:two-consecutive-failures')
    if mode['unlock']:
      ctx.bucket('lock:failure-inside-unlock-config')
    if dyn:
      ctx.bucket('dynreg:fault-in-dynamic-registration-file')
    store_a = snap.store_nonempty(gc)
    ctx.check(scope_after == ['outer', 'scope'] and gin.current_scope() == [], 'scope-changed-by-failed-parse', '%s: scope %r' % (label, scope_after))
    ctx.check(not gin.config_is_locked(), 'lock-changed-by-failed-parse', '%s: config locked' % label)
    ctx.check(len(gc._PARSE_CONTEXTS) == depth_before, 'parse-context-leaked', '%s: parse-context depth %d -> %d' % (label, depth_before, len(gc._PARSE_CONTEXTS)))

    # ---- provenance of what the failed call did apply (and of what it did not touch)
    setter = {}
    for i, k in enumerate(pre_keys):
      setter[canon_key(k)] = {'bindings string:%d' % (i + 1)}
    if pcfab:
      for ln, k in FIRST_FILE_KEYS:
        setter[canon_key(k)] = {'%s:%d' % (first_file, ln)}
    before = set(setter)
    unnamed_root = root_string      # (a list, an unnamed file object and the bindings of files-and-bindings are 'bindings string's too)
    from_file = model_setters(r, case, applied, setter, unnamed_root)
    if from_file:
      ctx.bucket('provenance:after-failed-parse')
      if any(f != '0' for f in from_file.values()):
        ctx.bucket('provenance:after-failed-parse:included-file')
    if mode['pre']:
      ctx.bucket('pre:non-empty-config')
      if before & set(from_file):
        ctx.bucket('pre:binding-overwritten-by-prefix')
    # (one serialisation serves both: the provenance comments, and - without them - the text compared with the prefix world's config_str())
    cstr_a = check_provenance(ctx, gin, setter, label, 'provenance-after-failed-parse-differs-from-last-setter')

    # ---- later parsing
    followup = '\n'.join(followup_lines(dyn)) + '\n'
    fu_file = os.path.join(base, 'followup.gin')
    fu_kind = mode['followup']
    corrected = Rendered(case, base, None, relinc=mode['relinc']) if fu_kind == 'corrected' else None

    def later():
      """What is done after the failure; the same in both worlds. Returns the outcome."""
      out = []
      try:
        if fu_kind == 'string':
          gin.parse_config(followup)
        elif fu_kind == 'file':
          gin.parse_config_file(fu_file)
        elif fu_kind == 'include':
          gin.parse_config("c16g.y = 'before the include'\ninclude '%s'\nc16g.z = 'after the include'\n" % fu_file)
        else:
          # the same input again, corrected
          corrected.write(only=ffid)
          if root_string:
            gin.parse_config(corrected.texts['0'])
          else:
            gin.parse_config_file(corrected.path('0'))
        out.append(snap.store_nonempty(gc))
      except Exception as e:  # pylint: disable=broad-except
        out.append('RAISED %s' % type(e).__name__)
      # plain API calls resolve names through the import table that is current outside any parse
      for f in (lambda: gin.bind_parameter('a/b/m.c16f.x', ['api']), lambda: canon(gin.query_parameter('a/b/c16f.x'))):
        try:
          out.append(f())
        except Exception as e:  # pylint: disable=broad-except
          out.append('RAISED %s' % type(e).__name__)
      out.append(snap.store_nonempty(gc))
      return out

    fa = later()
    # (valid input, registered configurables, an unlocked config: in a fresh process none of these steps raises - also a guard against state
    # that outlives clear_config() and would spoil the prefix world of this very process in the same way)
    failed_steps = [x for x in fa if isinstance(x, str) and x.startswith('RAISED ')]
    ctx.check(not failed_steps, 'later-call-fails-after-failed-parse', '%s: after the failed parse, a valid %s follow-up / plain bind_parameter / query_parameter raised: %r'
              % (label, fu_kind, failed_steps))
    ctx.bucket('followup:' + {'string': 'string', 'file': 'file', 'include': 'include', 'corrected': 'corrected-retry'}[fu_kind])
    ctx.bucket('followup:api-bind-and-query')
  finally:
    stack.close()

  # ---- world B: a cleared config given only the preceding statements
  gin.clear_config()
  if pre_lines:
    gin.parse_config('\n'.join(pre_lines) + '\n')
  if pcfab:
    gin.parse_config('\n'.join(FIRST_FILE_LINES) + '\n')
  ptext = '\n'.join(prefix) + '\n'
  gin.parse_config(ptext)
  store_b = snap.store_nonempty(gc)
  cstr_b = snap._safe(gin.config_str)
  fb = later()
  ctx.count('prefix_stores_compared')
  if store_a != store_b:
    d = snap.diff(store_a, store_b)
    key = 'store-differs-from-prefix'
    missing_only = all(k not in store_a or all(p in store_b[k] for p in store_a[k]) for k in d if k in store_b) and all(k in store_b for k in d)
    if kind in ('member-syntactic', 'member-missing-eq') and missing_only:
      key = 'block-member-syntax-fault-drops-earlier-members'
    elif kind in ('tokenizer-fault-next-statement', 'reader-raises') and missing_only:
      key = 'tokenizer-fault-in-next-statement-preempts-previous-statement'
    elif kind == 'undecodable-byte' and missing_only:
      key = 'unreadable-line-preempts-preceding-statements'
    ctx.check(False, key, '%s: after the failed parse the store differs from the prefix (failed, prefix): %r' % (label, {k: d[k] for k in list(d)[:4]}),
              {'texts': r.texts, 'prefix': ptext})
  else:
    ctx.count('oracle_evals')
    ctx.bucket('followup:compared')
    # DESIGN X: which imports are *recorded* after a failed parse is not constrained -> compare without the import lines
    # (with dynamic registration the recorded imports decide how selectors are spelled: no text comparison there)
    if not dyn:
      strip = lambda t: '\n'.join(l for l in t.split('\n') if not (l.startswith('import ') or l.startswith('from '))).lstrip('\n')
      cstr_a, cstr_b = strip(cstr_a), strip(cstr_b)
      ctx.check(cstr_a == cstr_b, 'config-str-differs-from-prefix', '%s: config_str() after the failed parse differs from the prefix world:\n%s\n---\n%s' % (label, cstr_a[:700], cstr_b[:700]))
    if fa != fb:
      what = [i for i, (x, y) in enumerate(zip(fa, fb)) if x != y]
      ctx.check(False, 'followup-parse-differs', '%s: later parsing / binding (%s follow-up) behaves differently than in a fresh process with the prefix; differing steps %r: %r vs %r'
                % (label, fu_kind, what, [fa[i] for i in what][:2], [fb[i] for i in what][:2]))
    else:
      ctx.count('oracle_evals')

  # ---- where the error says it happened
  unnamed = root_string
  names = {f: src_names(r, case, f, unnamed) for f in case['files']}
  same = lambda found, want: len(found) == len(want) and all(fn in wn and fl == wl for (fn, fl), (wn, wl) in zip(found, want))
  if semantic:
    ctx.count('messages_checked')
    found = [(m.group(1) if m.group(1) is not None else None, int(m.group(3))) for m in LOC.finditer(str(exc))]
    if kind in READ_FAULTS:
      # the failing reader / the undecodable line is reported by the including statements only
      want = [(names[f], ln) for f, ln in chain[1:]]
      ctx.check(same(found, want), 'error-location-chain', '%s: message names %r, expected include chain %r' % (label, found, want))
    else:
      want = [(names[chain[0][0]], fstart)] + [(names[f], ln) for f, ln in chain[1:]]
      ok = same(found, want)
      if not ok and kind in ('unknown-reference',) and len(found) == len(want):
        ok = same(found[1:], want[1:]) and found[0][0] in want[0][0] and fstart <= found[0][1] <= fend
      if len(want) >= 2:
        ctx.bucket('message:chain-2+')
      ctx.check(ok, 'error-location-chain', '%s: message names %r, expected (innermost first) %r\n%s' % (label, found, want, str(exc)[-600:]))
    # type-specific data survives (C17 covers this in general; here only the class)
  else:
    ctx.count('messages_checked')
    if isinstance(exc, SyntaxError):
      ln = exc.lineno
      last = len(_lines(r.texts[ffid])) + 1
      hi = last if kind in ('unbalanced-open', 'tokenizer-fault-next-statement') else fend
      ctx.check(ln is not None and fstart <= ln <= hi, 'syntax-error-line-outside-statement',
                '%s: SyntaxError.lineno=%r, statement spans lines %d-%d' % (label, ln, fstart, hi))
      if entry == 'plain' or not (root_string and ffid == '0'):
        ctx.check(exc.filename in names[ffid], 'syntax-error-wrong-file', '%s: SyntaxError.filename=%r expected %r' % (label, exc.filename, names[ffid]))
    elif isinstance(exc, tokenize.TokenError):
      pos = exc.args[1] if len(exc.args) > 1 and isinstance(exc.args[1], tuple) else None
      ctx.check(pos is None or pos[0] >= fstart, 'syntax-error-line-outside-statement', '%s: TokenError position %r before line %d' % (label, pos, fstart))
    else:
      ctx.check(type(exc) in exc_types and 'In ' not in str(exc), 'base-exception-not-passed-through', '%s: %r was altered on its way out' % (label, exc))
  gin.clear_config()


# ---------------------------------------------------------------------------
# provenance


def gen_provenance(rng):
  steps = []
  for _ in range(rng.choice([1, 2, 3, 4])):
    kind = rng.choice(['file', 'string', 'bind'])
    if kind == 'bind':
      steps.append(['bind', rng.choice(['', 'sc']), rng.choice(['c16f', 'c16g']), rng.choice(['x', 'y', 'z']), rng.randrange(100)])
    else:
      items = []
      for _ in range(rng.choice([1, 2, 4, 6])):
        r = rng.random()
        if r < 0.5:
          items.append(['bind', rng.choice(['', 'sc']), rng.choice(['c16f', 'c16g']), rng.choice(['x', 'y', 'z']), gen_vspec(rng)])
        elif r < 0.7:
          items.append(['block', rng.choice(['', 'sc']), 'c16f', [[p, gen_vspec(rng)] for p in rng.sample(['x', 'y', 'z'], rng.choice([1, 2]))]])
        elif r < 0.8:
          items.append(['macrodef', 'c16mac', ['lit', rng.randrange(100), False]])
        else:
          items.append([rng.choice(['comment', 'blank'])])
      steps.append([kind, items])
  # an override source restating a value an earlier source already set (same object for None/True/small ints/short strings)
  if rng.random() < 0.6:
    earlier = [it for st in steps if st[0] != 'bind' for it in st[1] if it[0] == 'bind' and it[4][0] == 'lit' and not it[4][2]]
    if earlier:
      it = rng.choice(earlier)
      steps.append([rng.choice(['file', 'string']), [['comment'], list(it)]])
  return {'kind': 'provenance', 'steps': steps}


def run_provenance(ctx, case):
  import gin
  from gin import config as gc
  gin.clear_config()
  base = os.path.join(_S['root'], 'p%d' % next(_S['n']))
  os.makedirs(base)
  setter = {}   # (scope, selector, param) -> 'src:line' or None
  values = {}
  sel = {'c16f': 'c16.m.c16f', 'c16g': 'c16.m.c16g', 'm.c16f': 'c16.m.c16f', 'c16d': 'c16.m.c16d'}
  try:
    for si, st in enumerate(case['steps']):
      if st[0] == 'bind':
        gin.bind_parameter((st[1], st[2], st[3]), st[4])
        k = (st[1], sel[st[2]], st[3])
        if k in setter:
          ctx.bucket('provenance:overwritten')
        setter[k] = None
        ctx.bucket('provenance:programmatic')
        continue
      fake = {'files': {'0': {'id': 0, 'items': st[1]}}}
      r = Rendered(fake, base)
      if st[0] == 'file':
        path = os.path.join(base, 's%d.gin' % si)
        open(path, 'w').write(r.texts['0'])
        gin.parse_config_file(path)
        src = path
        ctx.bucket('provenance:file')
      else:
        gin.parse_config(r.texts['0'])
        src = 'bindings string'
        ctx.bucket('provenance:string')
      for (idx, mi, start, end, flat) in r.atoms['0']:
        it = st[1][idx]
        if it[0] == 'bind':
          k = (it[1], sel[it[2]], it[3])
        elif it[0] == 'block':
          k = (it[1], sel[it[2]], it[3][mi][0])
          ctx.bucket('provenance:block-member')
        elif it[0] == 'macrodef':
          k = (it[1], 'gin.macro', 'value')
          ctx.bucket('provenance:macro')
        else:
          continue
        if k in setter:
          ctx.bucket('provenance:overwritten')
          if it[0] == 'bind' and values.get(k) == repr(it[4]):
            ctx.bucket('provenance:restated-same-value')
        if it[0] == 'bind':
          values[k] = repr(it[4])
        setter[k] = '%s:%d' % (src, start)
    text = gin.config_str(show_provenance=True)
    lines = _lines(text)
    bindings, _, _, order = snap.parse_text(text)
    # map each binding statement (in order) to the comment line directly above its first line
    seen = {}
    for i, l in enumerate(lines):
      m = re.match(r'^([\w./]+) = ', l)
      if m and not l.startswith('#'):
        above = lines[i - 1] if i else ''
        pm = re.match(r'^# Set in (.*):$', above)
        seen[m.group(1)] = pm.group(1) if pm else None
    for (sc, selector, prm), want in setter.items():
      ctx.count('provenance_lines_checked')
      if selector == 'gin.macro':
        key = sc
      else:
        key = (sc + '/' if sc else '') + gc._REGISTRY.minimal_selector(selector) + '.' + prm
      if key not in seen:
        ctx.check(False, 'provenance-binding-line-missing', 'binding %s not found in config_str(show_provenance=True):\n%s' % (key, text[:800]))
        continue
      ctx.check(seen[key] == want, 'provenance-differs-from-last-setter', 'binding %s is attributed to %r, last set by %r\n%s' % (key, seen[key], want, text[:800]))
    ctx.fp('prov', tuple((s[0], len(s[1]) if s[0] != 'bind' else 0) for s in case['steps']))
  finally:
    shutil.rmtree(base, ignore_errors=True)
    gin.clear_config()


def run_case(ctx, case):
  if case['kind'] == 'faults':
    run_faults(ctx, case)
  else:
    run_provenance(ctx, case)


LEVEL_TEXT = ('Fault enumeration at run time: for each generated config (include trees to depth 3) a faulty statement of each of 27 kinds is injected at '
              'every statement position / block-member index / end of file (all of them in thorough, a sample in quick) and the real parser is run; '
              'the store after the failure is compared with the store of a cleared config given the flattened prefix, scope/lock/parse-context depth '
              'are compared, a follow-up parse is compared in both worlds, the exception class is checked with a real except clause and the message\'s '
              'location chain / SyntaxError.lineno against the renderer\'s line numbers; provenance comments are compared with a last-setter model '
              '(after successful histories, after every failed parse, through include trees). The entry point (string / file / list / file object / '
              'parse_config_files_and_bindings), include spelling, skip_unknown, the state before the call (non-empty, locked + unlock_config), '
              'repetition and the kind of follow-up vary per fault (sampled by the case seed, not enumerated).')
LEVEL_NOTE = ('Trusted: the renderer\'s line bookkeeping and prefix flattening. Recorded imports after a failed parse are not constrained; for unknown '
              'references inside multi-line values any line of the statement span is accepted (DESIGN X). Under dynamic registration the class of '
              'symbol-lookup errors is left open and config_str texts are not compared; a relative include may be named as written or by its path; '
              'parsing while locked is only judged if it fails (that it must fail is not this property).')
TECHNIQUE = 'runtime fault injection at every statement position x fault kind with a prefix (metamorphic) oracle'
DESIGN_REF = 'DESIGN.md section 4, C16'
