"""C16 — a failed parse applies exactly the preceding statements; errors say where."""
import itertools
import os
import re
import shutil
import tempfile
import tokenize

from vf import probes, snap
from vf.teq import canon

ID = 'C16'
LEVEL = 'fault_enumeration'
RULE = ('valid configs (bindings string or file, include trees to depth 3, 3-15 statements: flat bindings with single- and multi-line values, blocks, '
        'macros, imports, includes, comments/blank lines); for every insertion position (before each statement of each file, at each block-member index, '
        'at end of file) x fault kind {bad value, missing value, unbalanced open/close bracket, bad selector, unknown parameter / configurable / '
        'reference (multi-line), ambiguous macro-constant, denylisted parameter, bad include, bad import, block member: semantic / syntactic / missing "=", '
        'tokenizer fault on the first token of the next statement, reader raising at line N} one faulty variant is parsed. Oracles: store == store of a '
        'cleared config given only the preceding statements (flattened prefix text), scope/lock/parse-context depth unchanged, a follow-up parse agrees in '
        'both worlds; semantic faults keep their class (real except clause) and name file/bindings-string + line once per include level, innermost '
        'first; syntax faults report a line inside the statement span. Plus provenance: "# Set in src:line:" equals the model\'s last setter. '
        'quick samples positions, thorough enumerates every position x kind of each generated config. distinct = (config shape, position class, fault kind)')
TIERS = {
    'quick': {'workers': 8, 'cases': 60, 'timeout': 900, 'faults_per_config': 40, 'all_positions': False},
    'thorough': {'workers': 16, 'cases': 100, 'timeout': 3400, 'faults_per_config': 0, 'all_positions': True},
}
FAULTS = {
    # kind: (lines, expected exception classes, semantic?, accepts-any-line-in-span?)
    'bad-value': (['c16f.x = 1 +'], (SyntaxError,), False),
    'missing-value': (['c16f.x ='], (SyntaxError,), False),
    'unbalanced-open': (['c16f.x = [1, 2'], (SyntaxError, tokenize.TokenError), False),
    'unbalanced-close': (['c16f.x = 1]'], (SyntaxError, tokenize.TokenError), False),
    'bad-selector-empty-component': (['c16f..x = 1'], (SyntaxError,), False),
    'bad-selector-whitespace': (['a /c16f.x = 1'], (SyntaxError,), False),
    'unknown-parameter': (['c16f.nope = 1'], (ValueError,), True),
    'unknown-configurable': (['c16_nosuch.x = 1'], (ValueError,), True),
    'unknown-reference': (['c16f.x = [1,', '  @c16_nosuch()]'], (ValueError,), True),
    'ambiguous-constant': (['c16f.x = %C16AMBIG'], (ValueError,), True),
    'denylisted-parameter': (['c16d.secret = 1'], (ValueError,), True),
    'bad-include': (["include '/nonexistent/c16_missing_file.gin'"], (IOError,), True),
    'bad-import': (['import c16_missing_module_xyz'], (ImportError,), True),
    'tokenizer-fault-next-statement': (["'unterminated string at the start of a statement"], (SyntaxError, tokenize.TokenError), False),
    # a statement whose own work fails with a file-system error class (the import opens a data file that is not there / not readable)
    'import-raises-FileNotFoundError': (['import vfc16_fnf'], (FileNotFoundError,), True),
    'import-raises-PermissionError': (['import vfc16_perm'], (PermissionError,), True),
    # ... or is abandoned by an exception that is not an Exception (sys.exit() in a module, Ctrl-C): passes through, leaves nothing behind
    'import-aborts-SystemExit': (['import vfc16_exit'], (SystemExit,), False),
    'import-aborts-KeyboardInterrupt': (['import vfc16_kbd'], (KeyboardInterrupt,), False),
}
MEMBER_FAULTS = {
    'member-semantic': (['nope = 1'], (ValueError,), True),
    'member-syntactic': (['x = 1 +'], (SyntaxError,), False),
    'member-missing-eq': (['x 1'], (SyntaxError,), False),
    'member-unknown-reference': (['y = @c16_nosuch'], (ValueError,), True),
}
REQUIRED_BUCKETS = (['fault:' + k for k in FAULTS] + ['fault:' + k for k in MEMBER_FAULTS] + ['fault:reader-raises', 'pos:first-statement', 'pos:end-of-file',
                    'pos:in-included-file', 'pos:depth3', 'pos:after-include', 'pos:after-block', 'pos:block-member-0', 'pos:block-member-k', 'pos:after-multiline-value',
                    'root:string', 'root:file', 'followup:compared', 'message:chain-2+', 'provenance:file', 'provenance:string', 'provenance:programmatic',
                    'provenance:block-member', 'provenance:overwritten', 'provenance:macro', 'provenance:restated-same-value'])
ORACLE_COUNTERS = ['oracle_evals', 'faults_injected', 'prefix_stores_compared', 'messages_checked', 'provenance_lines_checked']
LOC = re.compile(r'In (?:file "([^"]*)",|(bindings string)) line (\d+)')
_S = {}


class ReaderFault(OSError):
  pass


def setup(ctx):
  import gin
  for name, deny in (('c16f', None), ('c16g', None), ('c16d', ['secret'])):
    spec = {'shape': 'fn', 'api': 'external', 'name': name, 'module': 'c16.m', 'pos': [], 'dflt': [['x', 0], ['y', 0], ['z', 0], ['secret', 0]],
            'varargs': False, 'kwonly': [], 'varkw': False}
    if deny:
      spec['deny'] = deny
    probes.build(spec)
  gin.constant('p.C16AMBIG', 1)
  gin.constant('q.C16AMBIG', 2)
  _S['root'] = tempfile.mkdtemp(prefix='vf-c16-')
  import sys
  os.makedirs(os.path.join(_S['root'], 'py'))
  for mod, body in (('vfc16_fnf', "raise FileNotFoundError(2, 'No such file or directory', 'weights.bin')"), ('vfc16_perm', "raise PermissionError(13, 'Permission denied', 'secret.bin')"),
                    ('vfc16_exit', 'import sys\nsys.exit(3)'), ('vfc16_kbd', 'raise KeyboardInterrupt()')):
    open(os.path.join(_S['root'], 'py', mod + '.py'), 'w').write(body + '\n')
  sys.path.insert(0, os.path.join(_S['root'], 'py'))
  _S['n'] = itertools.count()


def finish(ctx):
  shutil.rmtree(_S['root'], ignore_errors=True)


# ---------------------------------------------------------------------------
# config generation


def gen_vspec(rng):
  r = rng.random()
  if r < 0.55:
    return ['lit', rng.choice([1, 'text', None, 2.5, [1, 2], {'k': (1, 2)}, True]), False]
  if r < 0.75:
    return ['lit', rng.choice([[1, 2, 3], {'a': 1, 'b': [2, 3]}, ('x', 'y')]), True]   # rendered over several lines
  if r < 0.9:
    return ['ref', 'c16g', rng.random() < 0.5]
  return ['macro', 'c16mac']


def gen_file(rng, fid, depth, state):
  items = []
  for _ in range(rng.choice([2, 3, 4, 5, 6])):
    r = rng.random()
    if r < 0.45:
      items.append(['bind', rng.choice(['', '', 'sc', 'a/b']), rng.choice(['c16f', 'c16g', 'm.c16f']), rng.choice(['x', 'y', 'z']), gen_vspec(rng)])
    elif r < 0.62:
      items.append(['block', rng.choice(['', 'sc']), rng.choice(['c16f', 'c16d']), [[p, gen_vspec(rng)] for p in rng.sample(['x', 'y', 'z'], rng.choice([1, 2, 3]))]])
    elif r < 0.7:
      items.append(['macrodef', 'c16mac', ['lit', rng.randrange(100), False]])
    elif r < 0.78:
      items.append(['import', rng.choice(['os', 'json', 'string'])])
    elif r < 0.88:
      items.append([rng.choice(['comment', 'blank'])])
    elif depth < 3 and state['count'] < 5:
      state['count'] += 1
      cid = state['count']
      state['files'][cid] = gen_file(rng, cid, depth + 1, state)
      items.append(['include', cid])
  return {'id': fid, 'items': items}


def iter_cases(ctx, rng, n):
  for i in range(n):
    if i % 6 == 5:
      yield gen_provenance(rng)
      continue
    state = {'count': 0, 'files': {}}
    root = gen_file(rng, 0, 1, state)
    state['files'][0] = root
    yield {'kind': 'faults', 'files': {str(k): v for k, v in state['files'].items()}, 'root_is_string': rng.random() < 0.4, 'seed': rng.randrange(1 << 30)}


def vtext(v):
  """Returns list of lines for the value."""
  if v[0] == 'lit':
    if v[2]:
      val = v[1]
      if isinstance(val, dict):
        items = ['%r: %r' % (k, x) for k, x in val.items()]
        return ['{'] + ['    ' + it + ',' for it in items] + ['}']
      if isinstance(val, list):
        return ['['] + ['    %r,' % x for x in val] + ['  ]']
      return ['('] + ['    %r,  # c' % x for x in val] + [')']
    return [repr(v[1])]
  if v[0] == 'ref':
    return ['@' + v[1] + ('()' if v[2] else '')]
  return ['%' + v[1]]


class Rendered:
  """Renders the file tree; records for every atom its file, first and last line, and the flattened order."""

  def __init__(self, case, base, fault=None):
    self.case, self.base, self.fault = case, base, fault
    self.texts = {}
    self.atoms = {}     # fid -> list of (item index, member index or None, start line, end line, flat text lines)
    self.fault_loc = None   # (fid, start line, end line)
    for fid in case['files']:
      self.render_file(fid)

  def path(self, fid):
    return os.path.join(self.base, 'f%s.gin' % fid)

  def render_file(self, fid):
    f = self.case['files'][fid]
    lines = []
    atoms = []
    fault = self.fault

    def put_fault(flines, indent=''):
      start = len(lines) + 1
      for l in flines:
        lines.append(indent + l)
      self.fault_loc = (fid, start, len(lines))

    for idx, it in enumerate(f['items']):
      if fault and fault['where'] == ('item', fid, idx):
        put_fault(fault['lines'])
      k = it[0]
      if k == 'bind':
        vl = vtext(it[4])
        key = (it[1] + '/' if it[1] else '') + it[2] + '.' + it[3]
        start = len(lines) + 1
        lines.append(key + ' = ' + vl[0])
        lines.extend(vl[1:])
        atoms.append((idx, None, start, len(lines), [key + ' = ' + vl[0]] + vl[1:]))
      elif k == 'block':
        hdr = (it[1] + '/' if it[1] else '') + it[2]
        lines.append(hdr + ':')
        for mi, (p, v) in enumerate(it[3]):
          if fault and fault['where'] == ('member', fid, idx, mi):
            if (idx + mi) % 2 == 0:
              lines.append('  # a comment line right before the faulty member')
              lines.append('')
            put_fault(fault['lines'], '  ')
          # layout noise inside the block (deterministic per position): comment / blank lines before a member
          noise = (idx * 7 + mi * 3 + len(lines)) % 5
          if noise == 0:
            lines.append('  # a comment inside the block')
          elif noise == 1:
            lines.append('')
            lines.append('      # another one, indented differently')
          vl = vtext(v)
          start = len(lines) + 1
          lines.append('  ' + p + ' = ' + vl[0])
          lines.extend(vl[1:])
          atoms.append((idx, mi, start, len(lines), [hdr + '.' + p + ' = ' + vl[0]] + vl[1:]))
        if fault and fault['where'] == ('member', fid, idx, len(it[3])):
          put_fault(fault['lines'], '  ')
      elif k == 'macrodef':
        start = len(lines) + 1
        lines.append(it[1] + ' = ' + vtext(it[2])[0])
        atoms.append((idx, None, start, start, [lines[-1]]))
      elif k == 'import':
        lines.append('import ' + it[1])
        atoms.append((idx, None, len(lines), len(lines), [lines[-1]]))
      elif k == 'include':
        lines.append("include '%s'" % self.path(str(it[1])))
        atoms.append((idx, 'include', len(lines), len(lines), str(it[1])))
      elif k == 'comment':
        lines.append('# a comment line: c16f.x = [')
      else:
        lines.append('')
    if fault and fault['where'] == ('item', fid, len(f['items'])):
      put_fault(fault['lines'])
    self.texts[fid] = '\n'.join(lines) + '\n'
    self.atoms[fid] = atoms

  def write(self):
    for fid, t in self.texts.items():
      with open(self.path(fid), 'w') as fh:
        fh.write(t)

  def prefix_lines(self, fid='0', chain=()):
    """Flattened text of everything applied before the fault. Returns (lines, done, chain) where chain lists (fid, line) innermost first."""
    out = []
    fault = self.fault
    for (idx, mi, start, end, flat) in self.atoms[fid]:
      if fault and fault['where'][1] == fid:
        w = fault['where']
        if w[0] == 'item' and idx >= w[2]:
          return out, True, [(fid, None)] + list(chain)
        if w[0] == 'member' and (idx > w[2] or (idx == w[2] and (mi is None or mi >= w[3]))):
          return out, True, [(fid, None)] + list(chain)
      if mi == 'include':
        sub, done, ch = self.prefix_lines(flat, [(fid, start)] + list(chain))
        out += sub
        if done:
          return out, True, ch
      else:
        out += flat
    if fault and fault['where'][1] == fid:
      return out, True, [(fid, None)] + list(chain)
    return out, False, None


def positions(case):
  """Every insertion point of the config: (where, position classes)."""
  # reachable files only, with their include depth
  depth = {'0': 1}
  order = ['0']
  for fid in order:
    for it in case['files'][fid]['items']:
      if it[0] == 'include' and str(it[1]) not in depth:
        depth[str(it[1])] = depth[fid] + 1
        order.append(str(it[1]))
  out = []
  for fid in order:
    items = case['files'][fid]['items']
    for idx in range(len(items) + 1):
      cls = set()
      if idx == 0:
        cls.add('pos:first-statement')
      if idx == len(items):
        cls.add('pos:end-of-file')
      if fid != '0':
        cls.add('pos:in-included-file')
      if depth[fid] >= 3:
        cls.add('pos:depth3')
      prev = [it for it in items[:idx] if it[0] not in ('comment', 'blank')]
      if prev and prev[-1][0] == 'include':
        cls.add('pos:after-include')
      if prev and prev[-1][0] == 'block':
        cls.add('pos:after-block')
      if prev and prev[-1][0] == 'bind' and prev[-1][4][0] == 'lit' and prev[-1][4][2]:
        cls.add('pos:after-multiline-value')
      out.append((('item', fid, idx), cls, depth[fid]))
    for idx, it in enumerate(items):
      if it[0] == 'block':
        for mi in range(len(it[3]) + 1):
          cls = {'pos:block-member-0' if mi == 0 else 'pos:block-member-k'}
          if fid != '0':
            cls.add('pos:in-included-file')
          out.append((('member', fid, idx, mi), cls, depth[fid]))
  return out


def run_faults(ctx, case):
  import random
  import gin
  from gin import config as gc
  rng = random.Random(case['seed'])
  base = os.path.join(_S['root'], 'c%d' % next(_S['n']))
  os.makedirs(base)
  try:
    plan = []
    for where, cls, depth in positions(case):
      kinds = list(MEMBER_FAULTS) if where[0] == 'member' else list(FAULTS)
      for kind in kinds:
        plan.append((where, cls, depth, kind))
      if where[0] == 'item':
        plan.append((where, cls, depth, 'reader-raises'))
    if not ctx.params['all_positions']:
      plan = rng.sample(plan, min(len(plan), ctx.params['faults_per_config']))
    else:
      ctx.count('configs_fully_enumerated')
      ctx.exhaustive = True
    ctx.bucket('root:string' if case['root_is_string'] else 'root:file')
    ctx.sample({'files': {k: v['items'][:5] for k, v in list(case['files'].items())[:3]}, 'root_is_string': case['root_is_string'],
                'fault_plan_size': len(plan), 'example_fault': [list(plan[0][0]), plan[0][3]] if plan else None}, cap=2)
    for where, cls, depth, kind in plan:
      one_fault(ctx, case, base, where, cls, depth, kind, gin, gc)
  finally:
    shutil.rmtree(base, ignore_errors=True)


def one_fault(ctx, case, base, where, cls, depth, kind, gin, gc):
  fid = where[1]
  if kind == 'reader-raises':
    if case['root_is_string'] and fid == '0':
      return  # a bindings string has no reader
    flines, exc_types, semantic = [], (ReaderFault,), True
  elif where[0] == 'member':
    flines, exc_types, semantic = MEMBER_FAULTS[kind]
  else:
    flines, exc_types, semantic = FAULTS[kind]
  fault = {'where': where, 'lines': flines, 'kind': kind}
  r = Rendered(case, base, fault if kind != 'reader-raises' else {'where': where, 'lines': ['# reader fails before this line'], 'kind': kind})
  r.write()
  ctx.count('faults_injected')
  ctx.bucket('fault:' + kind)
  for c in cls:
    ctx.bucket(c)
  ctx.fp(tuple(sorted((k, tuple(i[0] for i in v['items'])) for k, v in case['files'].items())), where[0], tuple(sorted(cls)), kind, case['root_is_string'])
  prefix, done, chain = r.prefix_lines()
  assert done, 'fault not reached in flattening'
  ffid, fstart, fend = r.fault_loc
  label = 'fault %s at %r (file f%s lines %d-%d, root %s)' % (kind, where, ffid, fstart, fend, 'string' if case['root_is_string'] else 'file')

  # ---- world A: the faulty parse
  gin.clear_config()
  depth_before = len(gc._PARSE_CONTEXTS)
  reader_installed = None
  if kind == 'reader-raises':
    # the file `ffid` is served by a reader whose readline raises when asked for line `fstart`
    target = r.path(ffid)
    text = r.texts[ffid]

    class FailingFile:
      def __init__(self):
        self.lines = text.splitlines(True)
        self.i = 0
        self.name = target

      def readline(self):
        self.i += 1
        if self.i >= fstart:
          raise ReaderFault(5, 'reader failed at line %d' % fstart)
        return self.lines[self.i - 1] if self.i <= len(self.lines) else ''

      def __enter__(self):
        return self

      def __exit__(self, *a):
        return False

    def reader(path):
      return FailingFile()

    def exists(path):
      return path == target
    saved = list(gc._FILE_READERS)
    gc._FILE_READERS[:] = [(reader, exists)] + saved
    reader_installed = saved
  exc = None
  try:
    with gin.config_scope('outer/scope'):
      try:
        if case['root_is_string']:
          gin.parse_config(r.texts['0'])
        else:
          gin.parse_config_file(r.path('0'))
      except exc_types as e:      # a real except clause with the original class
        exc = e
      scope_after = gin.current_scope()
  except BaseException as e:  # pylint: disable=broad-except
    ctx.check(False, 'exception-class-changed', '%s: expected %s, got %s: %s' % (label, [t.__name__ for t in exc_types], type(e).__name__, str(e)[:300]))
    if reader_installed is not None:
      gc._FILE_READERS[:] = reader_installed
    return
  finally:
    pass
  if reader_installed is not None:
    gc._FILE_READERS[:] = reader_installed
  if not ctx.check(exc is not None, 'faulty-config-accepted', '%s: parse succeeded' % label):
    return
  store_a = snap.store_nonempty(gc)
  cstr_a = snap._safe(gin.config_str)
  ctx.check(scope_after == ['outer', 'scope'] and gin.current_scope() == [], 'scope-changed-by-failed-parse', '%s: scope %r' % (label, scope_after))
  ctx.check(not gin.config_is_locked(), 'lock-changed-by-failed-parse', '%s: config locked' % label)
  ctx.check(len(gc._PARSE_CONTEXTS) == depth_before, 'parse-context-leaked', '%s: parse-context depth %d -> %d' % (label, depth_before, len(gc._PARSE_CONTEXTS)))
  followup = "c16f.z = 'followup'\nc16g.x = @c16f()\nc16mac = 'later'\n"
  try:
    gin.parse_config(followup)
    fa = snap.store_nonempty(gc)
  except Exception as e:  # pylint: disable=broad-except
    fa = 'RAISED %r' % (e,)

  # ---- world B: a cleared config given only the preceding statements
  gin.clear_config()
  ptext = '\n'.join(prefix) + '\n'
  gin.parse_config(ptext)
  store_b = snap.store_nonempty(gc)
  cstr_b = snap._safe(gin.config_str)
  gin.parse_config(followup)
  fb = snap.store_nonempty(gc)
  ctx.count('prefix_stores_compared')
  if store_a != store_b:
    d = snap.diff(store_a, store_b)
    key = 'store-differs-from-prefix'
    missing_only = all(k not in store_a or all(p in store_b[k] for p in store_a[k]) for k in d if k in store_b) and all(k in store_b for k in d)
    if kind in ('member-syntactic', 'member-missing-eq') and missing_only:
      key = 'block-member-syntax-fault-drops-earlier-members'
    elif kind in ('tokenizer-fault-next-statement', 'reader-raises') and missing_only:
      key = 'tokenizer-fault-in-next-statement-preempts-previous-statement'
    ctx.check(False, key, '%s: after the failed parse the store differs from the prefix (failed, prefix): %r' % (label, {k: d[k] for k in list(d)[:4]}),
              {'texts': r.texts, 'prefix': ptext})
  else:
    ctx.count('oracle_evals')
    ctx.bucket('followup:compared')
    # DESIGN X: which imports are *recorded* after a failed parse is not constrained -> compare without the import lines
    strip = lambda t: '\n'.join(l for l in t.split('\n') if not (l.startswith('import ') or l.startswith('from '))).lstrip('\n')
    cstr_a, cstr_b = strip(cstr_a), strip(cstr_b)
    ctx.check(cstr_a == cstr_b, 'config-str-differs-from-prefix', '%s: config_str() after the failed parse differs from the prefix world:\n%s\n---\n%s' % (label, cstr_a[:700], cstr_b[:700]))
    ctx.check(fa == fb, 'followup-parse-differs', '%s: a later parse gives a different configuration than in a fresh process with the prefix' % label)

  # ---- where the error says it happened
  names = {f: (None if (f == '0' and case['root_is_string']) else r.path(f)) for f in case['files']}
  if semantic:
    ctx.count('messages_checked')
    found = [(m.group(1) if m.group(1) is not None else None, int(m.group(3))) for m in LOC.finditer(str(exc))]
    if kind == 'reader-raises':
      # the failing reader is reported by the including statements only
      want = [(names[f], ln) for f, ln in chain[1:]]
      ctx.check(found == want, 'error-location-chain', '%s: message names %r, expected include chain %r' % (label, found, want))
    else:
      want = [(names[chain[0][0]], fstart)] + [(names[f], ln) for f, ln in chain[1:]]
      ok = found == want
      if not ok and kind in ('unknown-reference',) and len(found) == len(want):
        ok = found[1:] == want[1:] and found[0][0] == want[0][0] and fstart <= found[0][1] <= fend
      if len(want) >= 2:
        ctx.bucket('message:chain-2+')
      ctx.check(ok, 'error-location-chain', '%s: message names %r, expected (innermost first) %r\n%s' % (label, found, want, str(exc)[-600:]))
    # type-specific data survives (C17 covers this in general; here only the class)
  else:
    ctx.count('messages_checked')
    if isinstance(exc, SyntaxError):
      ln = exc.lineno
      last = len(r.texts[ffid].splitlines()) + 1
      hi = last if kind in ('unbalanced-open', 'tokenizer-fault-next-statement') else fend
      ctx.check(ln is not None and fstart <= ln <= hi, 'syntax-error-line-outside-statement',
                '%s: SyntaxError.lineno=%r, statement spans lines %d-%d' % (label, ln, fstart, hi))
      ctx.check(exc.filename == names[ffid], 'syntax-error-wrong-file', '%s: SyntaxError.filename=%r expected %r' % (label, exc.filename, names[ffid]))
    elif isinstance(exc, tokenize.TokenError):
      pos = exc.args[1] if len(exc.args) > 1 and isinstance(exc.args[1], tuple) else None
      ctx.check(pos is None or pos[0] >= fstart, 'syntax-error-line-outside-statement', '%s: TokenError position %r before line %d' % (label, pos, fstart))
    else:
      ctx.check(type(exc) in exc_types and 'In ' not in str(exc), 'base-exception-not-passed-through', '%s: %r was altered on its way out' % (label, exc))
  gin.clear_config()


# ---------------------------------------------------------------------------
# provenance


def gen_provenance(rng):
  steps = []
  for _ in range(rng.choice([1, 2, 3, 4])):
    kind = rng.choice(['file', 'string', 'bind'])
    if kind == 'bind':
      steps.append(['bind', rng.choice(['', 'sc']), rng.choice(['c16f', 'c16g']), rng.choice(['x', 'y', 'z']), rng.randrange(100)])
    else:
      items = []
      for _ in range(rng.choice([1, 2, 4, 6])):
        r = rng.random()
        if r < 0.5:
          items.append(['bind', rng.choice(['', 'sc']), rng.choice(['c16f', 'c16g']), rng.choice(['x', 'y', 'z']), gen_vspec(rng)])
        elif r < 0.7:
          items.append(['block', rng.choice(['', 'sc']), 'c16f', [[p, gen_vspec(rng)] for p in rng.sample(['x', 'y', 'z'], rng.choice([1, 2]))]])
        elif r < 0.8:
          items.append(['macrodef', 'c16mac', ['lit', rng.randrange(100), False]])
        else:
          items.append([rng.choice(['comment', 'blank'])])
      steps.append([kind, items])
  # an override source restating a value an earlier source already set (same object for None/True/small ints/short strings)
  if rng.random() < 0.6:
    earlier = [it for st in steps if st[0] != 'bind' for it in st[1] if it[0] == 'bind' and it[4][0] == 'lit' and not it[4][2]]
    if earlier:
      it = rng.choice(earlier)
      steps.append([rng.choice(['file', 'string']), [['comment'], list(it)]])
  return {'kind': 'provenance', 'steps': steps}


def run_provenance(ctx, case):
  import gin
  from gin import config as gc
  gin.clear_config()
  base = os.path.join(_S['root'], 'p%d' % next(_S['n']))
  os.makedirs(base)
  setter = {}   # (scope, selector, param) -> 'src:line' or None
  values = {}
  sel = {'c16f': 'c16.m.c16f', 'c16g': 'c16.m.c16g', 'm.c16f': 'c16.m.c16f', 'c16d': 'c16.m.c16d'}
  try:
    for si, st in enumerate(case['steps']):
      if st[0] == 'bind':
        gin.bind_parameter((st[1], st[2], st[3]), st[4])
        k = (st[1], sel[st[2]], st[3])
        if k in setter:
          ctx.bucket('provenance:overwritten')
        setter[k] = None
        ctx.bucket('provenance:programmatic')
        continue
      fake = {'files': {'0': {'id': 0, 'items': st[1]}}}
      r = Rendered(fake, base)
      if st[0] == 'file':
        path = os.path.join(base, 's%d.gin' % si)
        open(path, 'w').write(r.texts['0'])
        gin.parse_config_file(path)
        src = path
        ctx.bucket('provenance:file')
      else:
        gin.parse_config(r.texts['0'])
        src = 'bindings string'
        ctx.bucket('provenance:string')
      for (idx, mi, start, end, flat) in r.atoms['0']:
        it = st[1][idx]
        if it[0] == 'bind':
          k = (it[1], sel[it[2]], it[3])
        elif it[0] == 'block':
          k = (it[1], sel[it[2]], it[3][mi][0])
          ctx.bucket('provenance:block-member')
        elif it[0] == 'macrodef':
          k = (it[1], 'gin.macro', 'value')
          ctx.bucket('provenance:macro')
        else:
          continue
        if k in setter:
          ctx.bucket('provenance:overwritten')
          if it[0] == 'bind' and values.get(k) == repr(it[4]):
            ctx.bucket('provenance:restated-same-value')
        if it[0] == 'bind':
          values[k] = repr(it[4])
        setter[k] = '%s:%d' % (src, start)
    text = gin.config_str(show_provenance=True)
    lines = text.splitlines()
    bindings, _, _, order = snap.parse_text(text)
    # map each binding statement (in order) to the comment line directly above its first line
    seen = {}
    for i, l in enumerate(lines):
      m = re.match(r'^([\w./]+) = ', l)
      if m and not l.startswith('#'):
        above = lines[i - 1] if i else ''
        pm = re.match(r'^# Set in (.*):$', above)
        seen[m.group(1)] = pm.group(1) if pm else None
    for (sc, selector, prm), want in setter.items():
      ctx.count('provenance_lines_checked')
      if selector == 'gin.macro':
        key = sc
      else:
        key = (sc + '/' if sc else '') + gc._REGISTRY.minimal_selector(selector) + '.' + prm
      if key not in seen:
        ctx.check(False, 'provenance-binding-line-missing', 'binding %s not found in config_str(show_provenance=True):\n%s' % (key, text[:800]))
        continue
      ctx.check(seen[key] == want, 'provenance-differs-from-last-setter', 'binding %s is attributed to %r, last set by %r\n%s' % (key, seen[key], want, text[:800]))
    ctx.fp('prov', tuple((s[0], len(s[1]) if s[0] != 'bind' else 0) for s in case['steps']))
  finally:
    shutil.rmtree(base, ignore_errors=True)
    gin.clear_config()


def run_case(ctx, case):
  if case['kind'] == 'faults':
    run_faults(ctx, case)
  else:
    run_provenance(ctx, case)


LEVEL_TEXT = ('Fault enumeration at run time: for each generated config (include trees to depth 3) a faulty statement of each of 19 kinds is injected at '
              'every statement position / block-member index / end of file (all of them in thorough, a sample in quick) and the real parser is run; '
              'the store after the failure is compared with the store of a cleared config given the flattened prefix, scope/lock/parse-context depth '
              'are compared, a follow-up parse is compared in both worlds, the exception class is checked with a real except clause and the message\'s '
              'location chain / SyntaxError.lineno against the renderer\'s line numbers; provenance comments are compared with a last-setter model.')
LEVEL_NOTE = ('Trusted: the renderer\'s line bookkeeping and prefix flattening. Recorded imports after a failed parse are not constrained; for unknown '
              'references inside multi-line values any line of the statement span is accepted (DESIGN X).')
TECHNIQUE = 'runtime fault injection at every statement position x fault kind with a prefix (metamorphic) oracle'
DESIGN_REF = 'DESIGN.md section 4, C16'
