"""C11 — only configurable parameters of registered configurables can ever be bound."""
import os
import tempfile

from vf import probes, snap
from vf.teq import teq

ID = 'C11'
LEVEL = 'exploration'
RULE = ('random configurable shape (fn/init/new/method) with allowlist/denylist x parameter-name class (configurable, denylisted, not '
        'allowlisted, unknown without **kw, unknown with **kw, the *args name, unknown configurable, bare vs class-qualified method) x scope x '
        'binding API path (str key, tuple key, list key, flat text, block, multi-member block, scoped key, parse_config_files_and_bindings, '
        'finalize-hook return); oracle: accepted iff registered and acceptable and allowed; a rejection raises and leaves bindings, '
        'provenance and config_str() identical; an accepted value is stored under the one canonical key and injected by the next call; a '
        'rejected one is never injected. Further dimensions: names only reachable through **kwargs that an allowlist / denylist names or omits; '
        'selector spelling (shortest, partly and fully module-qualified); skip_unknown=True / list / tuple / set on every text entry point (a '
        'known configurable\'s bad parameter still raises); an accepted statement (flat, block, member of the same block, macro) in front of '
        'the rejected one; entry points parse_config(list), parse_config_file, include, files of parse_config_files_and_bindings; hook dicts with '
        'tuple keys; unknown parameters under dynamic registration; the shapes callable object and bound method, whose bound first parameter '
        '(self / cls / any name) is no parameter the configurable can accept; a history in front of the examined binding that makes gin '
        'inspect the signature (a call that marks the examined name gin.REQUIRED, passes it, marks the positionals REQUIRED, a plain call, an '
        'earlier attempt at the same binding, introspection) and must not change the decision. distinct = (shape, list kind, name class, '
        'api path, scoped?, spelling, skip kind, lead kind, prior kind)')
TIERS = {
    'quick': {'workers': 8, 'cases': 3600, 'timeout': 600},
    'thorough': {'workers': 16, 'cases': 25000, 'timeout': 3000},
}
CLASSES = ['configurable', 'denylisted', 'not-allowlisted', 'unknown-no-varkw', 'unknown-varkw', 'varargs-name', 'unknown-configurable', 'method-bare',
           # names that only **kwargs can take, against the lists: outside the allowlist / named by the denylist / named by the allowlist
           'varkw-not-allowlisted', 'varkw-denylisted', 'varkw-allowlisted',
           # the bound first parameter of a callable object / bound method (the caller can never supply it, the signature of the
           # registered object does not have it)
           'bound-receiver']
# shapes of the ordinary cases; 'callable' = an instance with __call__, 'boundmethod' = obj.method, both through external_configurable
SHAPES = ['fn', 'init', 'new', 'method', 'fn', 'init', 'new', 'method', 'callable', 'boundmethod']
BOUND_SHAPES = ('callable', 'boundmethod')
APIS = ['str', 'tuple', 'list', 'text', 'block', 'block-multi', 'files_and_bindings', 'hook',
        'hook-tuple', 'text-list', 'file', 'include', 'files']
# entry points that take config text: they accept skip_unknown and can carry an accepted statement in front of the examined one
TEXT_APIS = ('text', 'block', 'block-multi', 'files_and_bindings', 'text-list', 'file', 'include', 'files')
SKIPS = [None, None, None, 'true', 'list-given', 'tuple-both', 'set-given', 'list-other']
LEADS = [None, None, None, 'flat', 'block', 'same-block', 'macro']
# history in front of the examined binding: uses of the configurable that make gin look at its signature / its registration.  None of them
# registers anything or changes a list, so the accept/reject decision afterwards is the one of the fresh configurable.
PRIORS = [None, None, None, None, 'call-marks-required', 'call-marks-required', 'call-passes-name', 'call-required-positional', 'call-plain',
          'earlier-attempt', 'introspection']
# History "bind y -> re-register the same name with y denylisted (or with a function without y) -> call, no clear_config in between": the
# literal reading of "a non-configurable parameter is never injected" forbids the injection of the stored y; gin injects it (the lists are
# consulted when a binding is made, never when it is used) - see /tmp/impl/C11/defect_1.py. Switched off so that the unchanged tree is 'held';
# switch on to see the violation 'stale-binding-of-now-nonconfigurable-parameter-injected'.
ENABLE_STALE_BINDING_AFTER_STRICTER_REREGISTRATION = False
SPECIALS = ['reregister-with-denylist', 'reregister-interactive', 'decorated-function', 'two-hooks-second-rejected', 'dynamic-method-keeps-class-lists',
            'dynamic-method-bare-name', 'method-of-configurable-decorated-class', 'list-given-as-iterator', 'dynamic-unknown-parameter',
            'bound-receiver-name']
if ENABLE_STALE_BINDING_AFTER_STRICTER_REREGISTRATION:
  SPECIALS.append('stale-binding-after-stricter-reregistration')
# further workloads for the property's online monitor (vf/online.py): the repository's tests and other checks' generated cases
ONLINE = {'which': ['bind'], 'foreign': ['C01', 'C05', 'C07', 'C10', 'C12', 'C13', 'C20'], 'n': {'quick': 40, 'thorough': 600}}
REQUIRED_BUCKETS = (['class:' + c for c in CLASSES] + ['api:' + a for a in APIS] + ['shape:fn', 'shape:init', 'shape:new', 'shape:method',
                    'shape:callable', 'shape:boundmethod', 'bound-shape-accepted-then-injected', 'prior-then-rejected', 'prior-then-accepted',
                    'prior-marked-required-then-unknown-rejected', 'receiver:bound-method', 'receiver:bound-classmethod',
                    'receiver:callable-instance', 'receiver-not-called-self',
                    'verdict:accepted', 'verdict:rejected', 'scoped', 'accepted-then-injected', 'rejected-then-not-injected', 'varkw-with-denylist',
                    'spelling:short', 'spelling:mid', 'spelling:full', 'skip:true', 'skip:list-given', 'skip:tuple-both', 'skip:set-given', 'skip:list-other',
                    'skip-known-configurable-bad-parameter-raised', 'skip-known-configurable-accepted', 'skip-unknown-configurable-not-stored',
                    'lead:flat', 'lead:block', 'lead:same-block', 'lead:macro', 'lead-then-rejected-not-bound', 'lead-then-accepted',
                    'form:flat', 'form:block', 'varkw-name-listed', 'hooks-tuple-keys']
                    + ['special:' + k for k in SPECIALS] + ['prior:' + k for k in sorted(set(PRIORS) - {None})])
ORACLE_COUNTERS = ['oracle_evals', 'attempts']
_S = {'plan': None}


def setup(ctx):
  from gin import config as gc

  def hook(config):
    plan = _S['plan']
    _S['plan'] = None
    return plan

  def hook2(config):
    plan = _S.get('plan2')
    _S['plan2'] = None
    return plan

  gc.register_finalize_hook(hook)
  gc.register_finalize_hook(hook2)
  _S['tmp'] = tempfile.mkdtemp(prefix='vf-c11-')


def finish(ctx):
  import shutil
  shutil.rmtree(_S['tmp'], ignore_errors=True)
  if 'tree' in _S:
    _S['tree'].cleanup()


def iter_cases(ctx, rng, n):
  for i in range(n):
    if i % 9 == 8:
      yield {'special': rng.choice(SPECIALS),
             'api': rng.choice(['str', 'tuple', 'text', 'block']), 'scope': rng.choice(['', 'sc']), 'spelling': rng.choice(['short', 'mid', 'full'])}
      continue
    cls = CLASSES[i % len(CLASSES)]
    api = APIS[(i // len(CLASSES)) % len(APIS)]
    shape = 'method' if cls == 'method-bare' else rng.choice(BOUND_SHAPES) if cls == 'bound-receiver' else rng.choice(SHAPES)
    for _ in range(200):
      spec = probes.gen_spec(rng, shapes=[shape], lists=False)
      names = probes.all_named(spec)
      if not names:
        continue
      if cls == 'denylisted':
        spec['deny'] = rng.sample(names, rng.randrange(1, len(names) + 1))
        param = rng.choice(spec['deny'])
      elif cls == 'not-allowlisted':
        if len(names) < 2:
          continue
        spec['allow'] = rng.sample(names, rng.randrange(1, len(names)))
        param = rng.choice([x for x in names if x not in spec['allow']])
      elif cls == 'configurable':
        r = rng.random()
        if r < 0.3:
          spec['allow'] = rng.sample(names, rng.randrange(1, len(names) + 1))
          param = rng.choice(spec['allow'])
        elif r < 0.6 and len(names) > 1:
          spec['deny'] = rng.sample(names, rng.randrange(1, len(names)))
          param = rng.choice([x for x in names if x not in spec['deny']])
        else:
          param = rng.choice(names)
      elif cls == 'unknown-no-varkw':
        spec['varkw'] = False
        param = rng.choice(['zzz', 'p9', 'P0', 'kwargs', 'value'])
      elif cls == 'unknown-varkw':
        spec['varkw'] = True
        if rng.random() < 0.4:
          spec['deny'] = rng.sample(names, 1)
        param = rng.choice(['zzz', 'p9', 'extra'])
      elif cls == 'varargs-name':
        spec['varargs'] = True
        spec['varkw'] = rng.random() < 0.5
        param = 'args'
      elif cls in ('varkw-not-allowlisted', 'varkw-denylisted', 'varkw-allowlisted'):
        # `param` is no named parameter: only **kwargs can take it.  The lists apply to such names exactly as to named ones.
        spec['varkw'] = True
        param = rng.choice(['zzz', 'p9', 'extra', 'kwargs'])
        some = rng.sample(names, rng.randrange(0, len(names) + 1))
        other = [x for x in ['zzz', 'p9', 'extra', 'kwargs', 'more'] if x != param]
        if cls == 'varkw-not-allowlisted':
          spec['allow'] = (some + rng.sample(other, rng.randrange(0, 2))) or [names[0]]
        elif cls == 'varkw-denylisted':
          spec['deny'] = some + [param] + rng.sample(other, rng.randrange(0, 2))
        else:
          spec['allow'] = some + [param] + rng.sample(other, rng.randrange(0, 2))
        rng.shuffle(spec.get('allow') or spec['deny'])
      elif cls == 'bound-receiver':
        # with **kwargs the statement's "(or it takes **kwargs)" clause would apply: not examined
        spec['varkw'] = False
        r = rng.random()
        if r < 0.3:
          spec['deny'] = rng.sample(names, rng.randrange(1, len(names) + 1))
        elif r < 0.4:
          spec['allow'] = rng.sample(names, rng.randrange(1, len(names) + 1))
        param = 'self'
      else:
        param = rng.choice(names)
      break
    text = api in TEXT_APIS
    yield {'cls': cls, 'api': api, 'spec': spec, 'param': param, 'scope': rng.choice(['', '', 'sc', 'sc/inner']),
           'pre': rng.random() < 0.7, 'spelling': rng.choice(['short', 'short', 'mid', 'full']),
           'skip': rng.choice(SKIPS) if text else None, 'lead': rng.choice(LEADS) if text else None, 'form': rng.choice(['flat', 'block']),
           'prior': rng.choice(PRIORS), 'prior_extra': rng.random() < 0.4, 'prior_scoped': rng.random() < 0.5}


def expected_accept(case):
  spec, cls, param = case['spec'], case['cls'], case['param']
  if cls in ('unknown-configurable', 'method-bare', 'denylisted', 'not-allowlisted', 'unknown-no-varkw', 'bound-receiver'):
    return False
  if cls == 'varargs-name':
    return bool(spec['varkw'])
  if cls == 'unknown-varkw':
    return not spec.get('allow') and param not in (spec.get('deny') or [])
  if cls in ('varkw-not-allowlisted', 'varkw-denylisted'):
    return False
  return True


def spelled(case, p):
  """The selector the examined binding is written with: shortest (class-qualified for methods), partly or fully module-qualified."""
  sp = case.get('spelling', 'short')
  last = p.module.rsplit('.', 1)[-1]
  if case['cls'] == 'unknown-configurable':
    base = 'c11_no_such_configurable'
  elif case['cls'] == 'method-bare':
    # neither the bare method name, nor its old module-level selector (before the class was registered), nor the class's module followed by
    # the method name (without the class) may address it
    if sp == 'short':
      return p.name if case.get('pre') else 'vfprobes.' + p.name
    base = p.name
  else:
    base = p.key_selector
  return {'short': base, 'mid': last + '.' + base, 'full': p.module + '.' + base}[sp]


def skip_value(case, sel, p):
  """(value for skip_unknown, does it name `sel` as skippable-if-unknown?)"""
  kind = case.get('skip')
  if kind == 'true':
    return True, True
  if kind == 'list-given':
    return [sel], True
  if kind == 'tuple-both':
    return (sel, p.selector), True
  if kind == 'set-given':
    return {sel, 'c11_some_other_name'}, True
  if kind == 'list-other':
    return ['c11_some_other_name'], False
  return None, False


def statement(pre, sel, param, value, form):
  if form == 'flat':
    return '%s%s.%s = %r\n' % (pre, sel, param, value)
  if form == 'block':
    return '%s%s:\n  %s = %r\n' % (pre, sel, param, value)
  return '%s%s:\n  %s = %r\n  %s = %r\n' % (pre, sel, param, value, param, value)


def lead_param(case, p):
  good = [x for x in p.configurable_params() if x != case['param']]
  return good[0] if good else None


def config_text(case, p, sel, value, form):
  """Text of the examined statement, preceded (case['lead']) by a statement that gin must accept."""
  sc, param, lead = case['scope'], case['param'], case.get('lead')
  pre = sc + '/' if sc else ''
  good = lead_param(case, p)
  if not lead:
    return statement(pre, sel, param, value, form)
  if lead == 'macro' or good is None:
    return 'c11_lead = 1\n' + statement(pre, sel, param, value, form)
  if lead == 'same-block' and form != 'flat' and case['cls'] not in ('unknown-configurable', 'method-bare'):
    # the accepted member and the examined one inside one block
    return '%s%s:\n  %s = %r\n%s' % (pre, sel, good, 'lead-value', statement(pre, sel, param, value, form).split('\n', 1)[1])
  return statement(pre, p.key_selector, good, 'lead-value', 'flat' if lead == 'flat' else 'block') + statement(pre, sel, param, value, form)


def attempt(gin, case, p, value):
  api, sc, param = case['api'], case['scope'], case['param']
  pre = sc + '/' if sc else ''
  sel = spelled(case, p)
  skip, _ = skip_value(case, sel, p)
  kw = {} if skip is None else {'skip_unknown': skip}
  form = {'text': 'flat', 'block': 'block', 'block-multi': 'block-multi', 'files_and_bindings': 'flat'}.get(api, case.get('form', 'flat'))
  if api == 'str':
    gin.bind_parameter('%s%s.%s' % (pre, sel, param), value)
  elif api == 'tuple':
    gin.bind_parameter((sc, sel, param), value)
  elif api == 'list':
    gin.bind_parameter([sc, sel, param], value)
  elif api in ('text', 'block', 'block-multi'):
    gin.parse_config(config_text(case, p, sel, value, form), **kw)
  elif api == 'text-list':
    gin.parse_config(config_text(case, p, sel, value, form).splitlines(), **kw)
  elif api == 'files_and_bindings':
    good = lead_param(case, p)
    bindings = []
    if case.get('lead'):
      bindings.append('c11_lead = 1' if case['lead'] == 'macro' or good is None else
                      statement(pre, p.key_selector, good, 'lead-value', 'flat' if case['lead'] == 'flat' else 'block').rstrip('\n'))
    bindings.append('%s%s.%s = %r' % (pre, sel, param, value))
    gin.parse_config_files_and_bindings([], bindings, finalize_config=False, **kw)
  elif api in ('file', 'include', 'files'):
    path = os.path.join(_S['tmp'], 'c11_%s.gin' % api)
    with open(path, 'w') as f:
      f.write(config_text(case, p, sel, value, form))
    if api == 'file':
      gin.parse_config_file(path, **kw)
    elif api == 'include':
      gin.parse_config("include '%s'\n" % path, **kw)
    else:
      gin.parse_config_files_and_bindings([path], None, finalize_config=False, **kw)
  elif api in ('hook', 'hook-tuple'):
    _S['plan'] = {('%s%s.%s' % (pre, sel, param) if api == 'hook' else (sc, sel, param)): value}
    try:
      gin.finalize()
    finally:
      _S['plan'] = None
    # accepted: finalize locked the configuration; unlock to let the history continue
    from gin import config as gc
    gc._set_config_is_locked(False)
  else:
    raise ValueError(api)


def prior_history(gin, case, p):
  """Uses of the configurable in front of the examined binding (case['prior']).  Whatever they do (most of them raise), they register
  nothing and touch no list: nothing is demanded of them, only of the binding that follows."""
  kind, param, spec = case.get('prior'), case['param'], p.spec
  if not kind:
    return
  P = []
  K = {n: ['caller', n] for n in spec['pos']}
  K.update({n: ['caller', n] for n, has, _ in spec['kwonly'] if not has})
  if kind == 'call-marks-required':
    # the caller marks the examined name (and perhaps another name no signature has) as to-be-supplied-by-gin; nothing is bound to it
    K[param] = gin.REQUIRED
    if case.get('prior_extra'):
      K['c11_foreign'] = gin.REQUIRED
  elif kind == 'call-passes-name':
    K[param] = ['caller', param]
  elif kind == 'call-required-positional':
    names = probes.positional_names(spec)
    P = [gin.REQUIRED] * len(names)
    for n in names:
      K.pop(n, None)
    if case.get('prior_extra'):
      P.append(['caller', 'one-too-many'])
  elif kind == 'earlier-attempt':
    try:
      gin.bind_parameter((case['scope'] if case.get('prior_scoped') else 'c11prior', spelled(case, p), param), ['c11-earlier', param])
    except Exception:  # pylint: disable=broad-except
      pass
    return
  elif kind == 'introspection':
    full = ('%s/' % case['scope'] if case['scope'] else '') + p.key_selector + '.' + param
    for fn in (lambda: gin.query_parameter(full), lambda: gin.get_bindings(p.selector), gin.config_str, gin.operative_config_str,
               lambda: gin.get_configurable(p.selector)):
      try:
        fn()
      except Exception:  # pylint: disable=broad-except
        pass
  try:
    if case['scope'] and case.get('prior_scoped'):
      with gin.config_scope(case['scope']):
        probes.call_probe(p, P, K)
    else:
      probes.call_probe(p, P, K)
  except Exception:  # pylint: disable=broad-except
    pass


def call_and_receive(gin, p, case, avoid):
  """Call the probe supplying every parameter without a default except `avoid` by keyword; return (received, exc)."""
  spec = p.spec
  K = {}
  for n in spec['pos']:
    if n != avoid:
      K[n] = ['caller', n]
  for n, has, _ in spec['kwonly']:
    if not has and n != avoid:
      K[n] = ['caller', n]
  mark = probes.RECORDER.mark()
  try:
    if case['scope']:
      with gin.config_scope(case['scope']):
        probes.call_probe(p, [], K)
    else:
      probes.call_probe(p, [], K)
  except Exception as e:  # pylint: disable=broad-except
    return None, e, K
  recs = probes.RECORDER.since(mark, p.pid)
  return (recs[0].received if recs else None), None, K


def bind_via(gin, api, scope, sel, param, value):
  pre = scope + '/' if scope else ''
  if api == 'str':
    gin.bind_parameter('%s%s.%s' % (pre, sel, param), value)
  elif api == 'tuple':
    gin.bind_parameter((scope, sel, param), value)
  elif api == 'text':
    gin.parse_config('%s%s.%s = %r' % (pre, sel, param, value))
  else:
    gin.parse_config('%s%s:\n  %s = %r\n' % (pre, sel, param, value))


def run_special(ctx, case):
  """Multi-step histories: the accept/reject rule must follow the *current* registration and the *real* signature."""
  import functools
  import itertools
  import gin
  gin.clear_config()
  kind, api, scope = case['special'], case['api'], case['scope']
  ctx.bucket('special:' + kind)
  n = next(_S.setdefault('ctr', itertools.count(1)))
  name = 'c11s%d_%s' % (n, ctx.uid)
  module = 'c11.sp.deep'
  sel = {'short': name, 'mid': 'deep.' + name, 'full': module + '.' + name}[case['spelling']]
  log = []

  def f(x=0, y=0):
    log.append(('f', x, y))
  f.__name__ = name

  def expect_rejected(param, why):
    before = snap.full(gin)
    try:
      bind_via(gin, api, scope, sel, param, 'forbidden')
      ctx.check(False, 'nonconfigurable-binding-accepted:' + kind, '%s: binding %s.%s via %s accepted although %s' % (kind, sel, param, api, why))
    except Exception:  # pylint: disable=broad-except
      ctx.count('oracle_evals')
    ctx.check(snap.full(gin) == before, 'rejected-binding-changed-config', '%s: rejected binding changed the configuration' % kind)

  if kind == 'list-given-as-iterator':
    # an allowlist/denylist that is not a list or tuple: either refused at registration, or (if accepted) enforced like a list
    listkind = ['generator', 'iter', 'set', 'dict-keys', 'map'][n % 5]
    names = {'generator': (x for x in ['y']), 'iter': iter(['y']), 'set': {'y'}, 'dict-keys': {'y': 1}.keys(), 'map': map(str, ['y'])}[listkind]
    try:
      if n % 2:
        gin.external_configurable(f, name, module=module, denylist=names)
      else:
        gin.configurable(name, module=module, denylist=names)(f)
      registered = True
    except (TypeError, ValueError):
      registered = False
      ctx.count('oracle_evals')
    ctx.bucket('special:list-as-' + ('accepted' if registered else 'refused'))
    if registered:
      expect_rejected('y', 'y was given in the denylist (as %s)' % listkind)
  elif kind == 'bound-receiver-name':
    # a bound method / bound classmethod / callable instance handed to external_configurable: its first parameter - whatever it is called -
    # is bound already; the registered object's signature does not have it, so no binding path may accept it, however often it is asked,
    # and not after a caller marked it gin.REQUIRED either.  The real parameters stay bindable.
    recv = ['self', 'this', 'cls', 'me', '_r'][n % 5]
    form = ['bound-method', 'bound-classmethod', 'callable-instance'][(n // 5) % 3]
    mname = '__call__' if form == 'callable-instance' else ['run', 'draw', name][(n // 15) % 3]
    g = {'log': log}
    exec('class H:\n%s  def %s(%s, x=0, *, y=0):\n    log.append(("f", x, y))\n' %
         ('  @classmethod\n' if form == 'bound-classmethod' else '', mname, recv), g)
    obj = {'bound-method': lambda: getattr(g['H'](), mname), 'bound-classmethod': lambda: getattr(g['H'], mname), 'callable-instance': lambda: g['H']()}[form]()
    lists = {'denylist': ['y']} if (n // 2) % 2 else {}
    conf = gin.external_configurable(obj, name, module=module, **lists)
    ctx.bucket('receiver:' + form)
    if recv != 'self':
      ctx.bucket('receiver-not-called-self')
    why = 'it is the bound first parameter of the %s (def %s(%s, x=0, *, y=0))' % (form, mname, recv)
    expect_rejected(recv, why)
    expect_rejected(recv, why + ' [asked again]')
    try:
      conf(**{recv: gin.REQUIRED})
    except Exception:  # pylint: disable=broad-except
      pass
    expect_rejected(recv, why + ' [after a call that marked it gin.REQUIRED]')
    expect_rejected('nope', 'there is no such parameter')
    if lists:
      expect_rejected('y', 'y is denylisted')
    bind_via(gin, api, scope, sel, 'x', 5)
    err = None
    try:
      with gin.config_scope(scope or None):
        conf()
    except Exception as e:  # pylint: disable=broad-except
      err = e
    ctx.check(err is None and log[-1:] == [('f', 5, 0)], 'accepted-binding-not-injected', '%s (%s, receiver %r): call %s' %
              (kind, form, recv, 'raised %r' % (err,) if err else 'received %r' % (log[-1:],)))
  elif kind == 'dynamic-method-keeps-class-lists':
    # a class registered (statically) with a denylist/allowlist; a config file then configures one of its methods under dynamic registration,
    # which re-registers the class: the lists must still hold
    import importlib
    from vf import pkgtree
    if 'tree' not in _S:
      _S['tree'] = pkgtree.Tree()
    pk = _S['tree'].new_package('c11')
    alpha = importlib.import_module(pk + '.alpha')
    lists = {'denylist': ['b']} if n % 2 else {'allowlist': ['a']}
    gin.register('K', module=pk + '.alpha', **lists)(alpha.K)
    dyn = 'from __gin__ import dynamic_registration\nimport %s.alpha\n' % pk
    gin.parse_config(dyn + '%s.alpha.K.meth.m = 7\n%s.alpha.K.a = 3\n' % (pk, pk))
    for text in (dyn + '%s.alpha.K.b = 5\n' % pk, '%s.alpha.K.b = 5\n' % pk, 'sc/%s.alpha.K.b = 5\n' % pk):
      before = snap.full(gin)
      try:
        gin.parse_config(text)
        ctx.check(False, 'nonconfigurable-binding-accepted:' + kind, 'after a method of the class was configured dynamically, %s parameter b is bindable: %r' %
                  ('denylisted' if n % 2 else 'not allowlisted', text))
      except ValueError:
        ctx.count('oracle_evals')
      except Exception as e:  # pylint: disable=broad-except
        ctx.check(False, 'unexpected-exception', '%s: %r' % (kind, e))
      ctx.check(snap.full(gin) == before, 'rejected-binding-changed-config', '%s: rejected binding changed the configuration' % kind)
    inst = gin.get_configurable(alpha.K)()
    ctx.check((inst.a, inst.b, inst.meth()[1]) == (3, 0, 7), 'accepted-binding-not-injected', '%s: instance has a=%r b=%r meth->%r' % (kind, inst.a, inst.b, inst.meth()[1]))
  elif kind == 'method-of-configurable-decorated-class':
    # the class is registered through @gin.configurable (not gin.register): its registered method is still a method of a registered class
    g = {'gin': gin, '__name__': 'c11cfg'}
    cname, mname = 'C11CK%d_%s' % (n % 100000, ctx.uid), 'c11cm%d_%s' % (n % 100000, ctx.uid)
    exec('class %s:\n  def __init__(self, c=0):\n    self.c = c\n  @gin.register\n  def %s(self, a=0):\n    return a\n' % (cname, mname), g)
    gin.configurable(cname, module='c11cfg')(g[cname])
    problems = []
    try:
      gin.bind_parameter('%s.a' % mname, 3)
      problems.append('the bare method name %s.a is accepted' % mname)
    except Exception:  # pylint: disable=broad-except
      pass
    try:
      gin.bind_parameter('%s.%s.a' % (cname, mname), 4)
    except Exception as e:  # pylint: disable=broad-except
      problems.append('the class-qualified name %s.%s.a is rejected (%s)' % (cname, mname, type(e).__name__))
    ctx.check(not problems, 'method-of-configurable-decorated-class-addressable-without-class-name',
              'class registered with @gin.configurable holding a @gin.register method: ' + '; '.join(problems))
  elif kind == 'dynamic-method-bare-name':
    # a method that became a configurable through a dynamic-registration config (class registered before or not) is still only
    # addressable through its class name
    import importlib
    from vf import pkgtree
    if 'tree' not in _S:
      _S['tree'] = pkgtree.Tree()
    pk = _S['tree'].new_package('c11')
    alpha = importlib.import_module(pk + '.alpha')
    if n % 2:
      gin.register('K', module=pk + '.alpha')(alpha.K)
    dyn = 'from __gin__ import dynamic_registration\nimport %s.alpha\n' % pk
    gin.parse_config(dyn + '%s.alpha.K.other.o = 7\n' % pk)
    for label, fn in (('bind_parameter', lambda: gin.bind_parameter('other.o', 9)), ('tuple key', lambda: gin.bind_parameter(('sc', 'other', 'o'), 9)),
                      ('config text', lambda: gin.parse_config('other.o = 9\n')), ('block', lambda: gin.parse_config('sc/other:\n  o = 9\n')),
                      ('module-qualified without class', lambda: gin.bind_parameter('%s.alpha.other.o' % pk, 9))):
      before = snap.full(gin)
      try:
        fn()
        ctx.check(False, 'method-addressable-without-class-name', 'after %s.alpha.K.other was configured under dynamic registration, the bare method name is accepted (%s)' % (pk, label))
      except Exception:  # pylint: disable=broad-except
        ctx.count('oracle_evals')
      ctx.check(snap.full(gin) == before, 'rejected-binding-changed-config', '%s: rejected binding (%s) changed the configuration' % (kind, label))
    ctx.check(gin.get_configurable(alpha.K)().other()[1] == 7, 'accepted-binding-not-injected', '%s: method received %r' % (kind, gin.get_configurable(alpha.K)().other()))
  elif kind == 'dynamic-unknown-parameter':
    # under dynamic registration a selector is resolved through the file's imports and registered on the fly: the parameter must still be
    # one the (just registered) function / constructor / method can accept
    import importlib
    from vf import pkgtree
    if 'tree' not in _S:
      _S['tree'] = pkgtree.Tree()
    pk = _S['tree'].new_package('c11')
    alpha = importlib.import_module(pk + '.alpha')
    if n % 2:
      gin.register('K', module=pk + '.alpha')(alpha.K)
    dyn = 'from __gin__ import dynamic_registration\nimport %s.alpha\n' % pk
    gin.parse_config(dyn + '%s.alpha.K.meth.m = 7\n' % pk)
    pre = scope + '/' if scope else ''
    target = ['K.meth', 'K', 'fa', 'K.other', 'K.Inner', 'K.Inner.deep'][(n // 2) % 6]
    full = '%s.alpha.%s' % (pk, target)
    texts = {'str': None, 'tuple': None, 'text': dyn + '%s%s.nope = 1\n' % (pre, full), 'block': dyn + '%s%s:\n  nope = 1\n' % (pre, full)}
    for label, fn, leading in (
        ('config text', lambda: gin.parse_config(texts['text' if api in ('str', 'text') else 'block']), False),
        ('config text, skip_unknown=True', lambda: gin.parse_config(texts['block' if api in ('str', 'text') else 'text'], skip_unknown=True), False),
        ('after an accepted statement', lambda: gin.parse_config(dyn + '%s.alpha.K.a = 3\n%s%s.nope = 1\n' % (pk, pre, full)), True)):
      before = snap.full(gin)
      try:
        fn()
        ctx.check(False, 'nonconfigurable-binding-accepted:' + kind, 'under dynamic registration %s.nope is accepted (%s) although %s has no such parameter' % (full, label, target))
      except Exception:  # pylint: disable=broad-except
        ctx.count('oracle_evals')
      if leading:
        ctx.check(not [k for k, d in gin.config._CONFIG.items() if 'nope' in d], 'rejected-binding-changed-config', '%s: the rejected parameter is in the store (%s)' % (kind, label))
      else:
        ctx.check(snap.full(gin) == before, 'rejected-binding-changed-config', '%s: rejected binding (%s) changed the configuration' % (kind, label))
    try:
      got = gin.get_configurable(alpha.K)().meth()
    except Exception as e:  # pylint: disable=broad-except
      got = ('raised', repr(e))
    ctx.check(got[1] == 7, 'accepted-binding-not-injected', '%s: method call gave %r' % (kind, got))
  elif kind == 'stale-binding-after-stricter-reregistration':
    # bind y, then (no clear_config) the same name is registered again with y no longer configurable: y must not reach the function
    gin.external_configurable(f, name, module=module)
    bind_via(gin, api, scope, sel, 'y', 1)
    bind_via(gin, api, scope, sel, 'x', 5)
    if n % 2:
      gin.external_configurable(f, name, module=module, denylist=['y'])
      want = ('f', 5, 0)
    else:
      def g(x=0):
        log.append(('g', x))
      g.__name__ = name
      with gin.config.interactive_mode():
        gin.external_configurable(g, name, module=module)
      want = ('g', 5)
    err = None
    try:
      with gin.config_scope(scope or None):
        gin.get_configurable(module + '.' + name)()
    except Exception as e:  # pylint: disable=broad-except
      err = e
    ctx.check(err is None and log and log[-1] == want, 'stale-binding-of-now-nonconfigurable-parameter-injected',
              '%s: y was bound while configurable, the name was then registered again %s; the call %s' %
              (kind, 'with y denylisted' if n % 2 else 'for a function without y', 'raised %r' % (err,) if err else 'received %r' % (log[-1:],)))
  elif kind == 'reregister-with-denylist':
    conf = gin.external_configurable(f, name, module=module)
    bind_via(gin, api, scope, sel, 'y', 1)              # fine, and looks the configurable up through this spelling
    gin.clear_config()
    conf = gin.external_configurable(f, name, module=module, denylist=['y'])   # same object, same name: now y is denylisted
    expect_rejected('y', 'the configurable was re-registered with y denylisted')
    bind_via(gin, api, scope, sel, 'x', 5)
    with gin.config_scope(scope or None):
      gin.get_configurable(module + '.' + name)()
    ctx.check(log[-1] == ('f', 5, 0), 'accepted-binding-not-injected', '%s: call received %r' % (kind, log[-1]))
  elif kind == 'reregister-interactive':
    gin.external_configurable(f, name, module=module)
    bind_via(gin, api, scope, sel, 'y', 1)
    gin.clear_config()

    def g(x=0):
      log.append(('g', x))
    g.__name__ = name
    with gin.config.interactive_mode():
      gin.external_configurable(g, name, module=module)
    expect_rejected('y', 'the name now refers to a function without parameter y')
    bind_via(gin, api, scope, sel, 'x', 6)
    with gin.config_scope(scope or None):
      gin.get_configurable(module + '.' + name)()
    ctx.check(log[-1] == ('g', 6), 'accepted-binding-not-injected', '%s: call received %r' % (kind, log[-1]))
  elif kind == 'decorated-function':
    def passthrough(fn):
      @functools.wraps(fn)
      def wrapper(*args, **kwargs):
        return fn(*args, **kwargs)
      return wrapper
    decorated = passthrough(f)
    if n % 2:
      gin.external_configurable(decorated, name, module=module)
    else:
      gin.configurable(name, module=module)(decorated)
    expect_rejected('zzz', 'the function behind the pass-through decorator has no such parameter')
    expect_rejected('args', 'args is the decorator\'s *args, not a parameter')
    bind_via(gin, api, scope, sel, 'y', 7)
    with gin.config_scope(scope or None):
      gin.get_configurable(module + '.' + name)()
    ctx.check(log[-1] == ('f', 0, 7), 'accepted-binding-not-injected', '%s: call received %r' % (kind, log[-1]))
  else:
    gin.external_configurable(f, name, module=module, denylist=['y'])
    bind_via(gin, api, scope, sel, 'x', 1)
    before = snap.full(gin)
    pre = scope + '/' if scope else ''
    if (n // 2) % 2:
      # the hooks return tuple keys (scope, selector, parameter)
      ctx.bucket('hooks-tuple-keys')
      _S['plan'] = {(scope, sel, 'x'): 'from-first-hook', ('other', sel, 'x'): 'from-first-hook-2'}
      _S['plan2'] = {(scope, sel, ['y', 'nope'][n % 2]): 'rejected'}
    else:
      _S['plan'] = {'%s%s.x' % (pre, sel): 'from-first-hook', 'other/%s.x' % sel: 'from-first-hook-2'}
      _S['plan2'] = {'%s%s.%s' % (pre, sel, ['y', 'nope'][n % 2]): 'rejected'}
    try:
      gin.finalize()
      ctx.check(False, 'nonconfigurable-binding-accepted:' + kind, 'a hook returned a %s parameter and finalize accepted it' % ['denylisted', 'nonexistent'][n % 2])
    except ValueError:
      ctx.count('oracle_evals')
    ctx.check(snap.full(gin) == before, 'rejected-binding-changed-config',
              'finalize rejected the second hook\'s binding but the first hook\'s bindings were applied: %r' % (snap.diff(before['config'], snap.full(gin)['config']),))
    _S['plan'] = _S['plan2'] = None
  ctx.fp('special', kind, api, scope, case['spelling'])
  gin.clear_config()


def run_case(ctx, case):
  import gin
  from gin import config as gc
  if 'special' in case:
    return run_special(ctx, case)
  gin.clear_config()
  spec, cls, api, param = case['spec'], case['cls'], case['api'], case['param']
  p = probes.build(spec)
  ctx.bucket('class:' + cls)
  ctx.bucket('api:' + api)
  ctx.bucket('shape:' + spec['shape'])
  if case['scope']:
    ctx.bucket('scoped')
  if spec['varkw'] and spec.get('deny'):
    ctx.bucket('varkw-with-denylist')
  if cls.startswith('varkw-'):
    ctx.bucket('varkw-name-listed')
  text_api = api in TEXT_APIS
  lead = case.get('lead') if text_api else None
  skip_kind = case.get('skip') if text_api else None
  ctx.bucket('spelling:' + case.get('spelling', 'short'))
  if text_api:
    ctx.bucket('form:' + {'text': 'flat', 'files_and_bindings': 'flat', 'block': 'block', 'block-multi': 'block'}.get(api, case.get('form', 'flat')))
  if lead:
    ctx.bucket('lead:' + lead)
  if skip_kind:
    ctx.bucket('skip:' + skip_kind)
  if case['pre']:
    gin.parse_config('c11_keep = 1\nother/scope/c11_keep2 = [1, 2]\n')
    good = [x for x in p.configurable_params() if x != param]
    if good:
      gin.bind_parameter((case['scope'], p.selector, good[0]), 'pre-existing')
  prior = case.get('prior')
  if prior:
    ctx.bucket('prior:' + prior)
    prior_history(gin, case, p)
  before = snap.full(gin)
  value = ['c11-value', ctx.case_no]
  accept = expected_accept(case)
  ctx.count('attempts')
  exc = None
  try:
    attempt(gin, case, p, value)
  except Exception as e:  # pylint: disable=broad-except
    exc = e
  after = snap.full(gin)
  ctx.fp(spec['shape'], 'allow' if spec.get('allow') else ('deny' if spec.get('deny') else 'nolist'), cls, api, bool(case['scope']),
         spec['varkw'], spec['varargs'], case.get('spelling'), skip_kind, lead, prior)
  ctx.sample({'spec': spec, 'class': cls, 'api': api, 'param': param, 'scope': case['scope'], 'accept_expected': accept,
              'spelling': case.get('spelling'), 'skip': skip_kind, 'lead': lead, 'prior': prior}, cap=4)

  def stored_anywhere():
    return [k for k, d in gc._CONFIG.items() for v in d.values() if teq(v, value)]

  if not accept:
    ctx.bucket('verdict:rejected')
    # skip_unknown is about unknown configurables: a selector that matches no configurable (the unknown name; a method's selector without
    # its class) may be passed over silently when skip_unknown covers it - then the binding must simply not exist afterwards.  A known
    # configurable's denylisted / unlisted / nonexistent parameter raises whatever skip_unknown says.
    may_skip = cls in ('unknown-configurable', 'method-bare') and skip_value(case, spelled(case, p), p)[1]
    if not may_skip:
      if not ctx.check(exc is not None, 'nonconfigurable-binding-accepted',
                       '%s binding of %s parameter %r via %s accepted (spec %r, spelling %s, skip_unknown %s, lead %s, history in front %s)' %
                       (cls, spec['shape'], param, api, {k: spec.get(k) for k in ('allow', 'deny', 'varkw', 'varargs')}, case.get('spelling'), skip_kind, lead,
                        prior)):
        return
      if prior:
        ctx.bucket('prior-then-rejected')
        if prior == 'call-marks-required' and cls in ('unknown-no-varkw', 'varargs-name', 'bound-receiver') and not spec['varkw']:
          ctx.bucket('prior-marked-required-then-unknown-rejected')
      if skip_kind:
        ctx.bucket('skip-known-configurable-bad-parameter-raised' if cls not in ('unknown-configurable', 'method-bare') else 'skip-other-name-raised')
    if lead or exc is None:
      # what the accepted statement in front did is another property's subject (C16); the examined parameter must not have been bound
      where = stored_anywhere()
      ctx.check(not where, 'nonconfigurable-binding-accepted' if exc is None else 'rejected-binding-changed-config',
                '%s binding via %s (lead %s, skip_unknown %s) %s, and its value is in the store under %r' %
                (cls, api, lead, skip_kind, 'did not raise' if exc is None else 'raised', where))
      if lead and exc is not None:
        ctx.bucket('lead-then-rejected-not-bound')
      if exc is None:
        ctx.bucket('skip-unknown-configurable-not-stored')
        if not lead:
          ctx.check(after['config'] == before['config'], 'nonconfigurable-binding-accepted',
                    'skipped %s binding via %s changed the bindings: %r' % (cls, api, snap.diff(before['config'], after['config'])))
    else:
      ctx.check(after == before, 'rejected-binding-changed-config',
                'rejected %s binding via %s changed the configuration: %r' % (cls, api, snap.diff(before, after)))
    if cls not in ('unknown-configurable',):
      got, e, K = call_and_receive(gin, p, case, None)
      flat = dict(got or {})
      inj = flat.get(param, (flat.get('**') or {}).get(param))
      ctx.check(e is None and not teq(inj, value), 'rejected-binding-injected',
                'after the rejection a call received %r (exc %r)' % (got, e))
      ctx.bucket('rejected-then-not-injected')
    return
  ctx.bucket('verdict:accepted')
  if not ctx.check(exc is None, 'configurable-binding-rejected', '%s binding of %r via %s (spelling %s, skip_unknown %s, lead %s, history in front %s) raised %s: %s' %
                   (cls, param, api, case.get('spelling'), skip_kind, lead, prior, type(exc).__name__, str(exc)[:300])):
    return
  if prior:
    ctx.bucket('prior-then-accepted')
  if skip_kind:
    ctx.bucket('skip-known-configurable-accepted')
  if lead:
    ctx.bucket('lead-then-accepted')
  stored = gc._CONFIG.get((case['scope'], p.selector), {})
  ctx.check(teq(stored.get(param), value) and stored_anywhere() == [(case['scope'], p.selector)], 'accepted-binding-not-under-canonical-key',
            'after binding via %s the store holds %r' % (api, {k: v for k, v in gc._CONFIG.items()}))
  ctx.check(teq(gin.query_parameter((case['scope'] + '/' if case['scope'] else '') + p.key_selector + '.' + param), value),
            'query-after-accept', 'query_parameter does not return the bound value')
  got, e, K = call_and_receive(gin, p, case, param)
  if ctx.check(e is None and got is not None, 'call-after-accept-failed', 'call after accepted binding raised %r' % (e,)):
    inj = got.get(param, (got.get('**') or {}).get(param))
    ctx.check(teq(inj, value) and inj is not value, 'accepted-binding-not-injected', 'received %r, bound %r' % (got, value))
    ctx.bucket('accepted-then-injected')
    if spec['shape'] in BOUND_SHAPES:
      ctx.bucket('bound-shape-accepted-then-injected')


LEVEL_TEXT = ('Runtime monitor over the product (configurable shape x allow/deny list x parameter-name class x binding API path x scope): the '
              'accept/reject decision of the real code is compared with the stated rule, a rejection must raise and leave a full snapshot '
              '(bindings, provenance, config_str, lock, parse-context depth) identical, and a follow-up call shows that accepted values are injected '
              'and rejected ones never are.')
LEVEL_NOTE = ('Trusted: the accept rule as a 10-line predicate. The names self/cls of constructors are excluded (DESIGN X); the bound first '
              'parameter of bound methods / callable objects is examined (never bindable unless **kwargs).')
TECHNIQUE = 'runtime decision-table monitor over generated (shape x list x name class x API path) with before/after snapshots'
DESIGN_REF = 'DESIGN.md section 4, C11'
