"""C15 — skip_unknown drops exactly the statements that target unknown names."""
from vf import pkgtree, probes, snap
from vf.teq import canon

ID = 'C15'
LEVEL = 'exploration'
RULE = ('config texts mixing known and unknown targets (flat, block, scoped, module-qualified), values holding references to unknown configurables '
        'at depth 0-3, macros holding unknown references, imports of missing modules; skip_unknown in {False, True, list, tuple, set} with random '
        'subsets of the unknown names listed; static registration and dynamic registration (fresh generated package per case, parsed as first use '
        'and again after the names are registered). Oracle: (metamorphic) parse(text, setting) == parse(reduced text, setting) where the reduced text '
        'deletes exactly the statements the rule says; unknown-not-listed -> error; every placeholder raises "No configurable matching" on use and '
        'at finalize; dynamic: first-use parse == repeat parse == reduced parse, and == skip_unknown=False parse when everything resolves. '
        'distinct = (statement kinds, skip form, which unknowns listed, registration mode)')
TIERS = {
    'quick': {'workers': 8, 'cases': 1800, 'timeout': 600},
    'thorough': {'workers': 16, 'cases': 12000, 'timeout': 3000},
}
REQUIRED_BUCKETS = ['list:includes-known-name', 'mode:late-known-static', 'mode:late-known-dynamic', 'mode:static', 'mode:dynamic', 'skip:False', 'skip:True', 'skip:list', 'skip:tuple', 'skip:set', 'stmt:flat-unknown', 'stmt:block-unknown',
                    'stmt:scoped-unknown', 'stmt:module-qualified-unknown', 'stmt:known-with-unknown-ref', 'stmt:macro-with-unknown-ref', 'stmt:missing-import',
                    'ref:nested-depth2+', 'outcome:error-unlisted', 'outcome:skipped', 'outcome:all-known', 'placeholder:use-raises', 'placeholder:finalize-raises',
                    'dynamic:first-use', 'dynamic:repeat', 'dynamic:all-resolvable-equals-noskip', 'dynamic:name-not-imported', 'dynamic:attribute-missing',
                    'dynamic:missing-import', 'list:partial']
ORACLE_COUNTERS = ['oracle_evals', 'reduced_compared', 'placeholders_checked']
_S = {}
KNOWN = {'c15f': 'c15.m.c15f', 'c15.m.c15f': 'c15.m.c15f', 'm.c15g': 'c15.m.c15g', 'c15g': 'c15.m.c15g'}
UNKNOWN_T = ['c15_unk1', 'other.c15_unk2', 'c15.m.c15_unk3']
UNKNOWN_R = ['c15_unkref1', 'x.c15_unkref2']
MISSING_MODS = ['vf_missing_mod_a', 'os.vf_missing_sub', 'vf_c15_unimportable']   # the last exists, but raises a bare ImportError (a dependency of it is missing)


def setup(ctx):
  for name in ('c15f', 'c15g'):
    probes.build({'shape': 'fn', 'api': 'external', 'name': name, 'module': 'c15.m', 'pos': [], 'dflt': [['x', 0], ['y', 0], ['z', 0]], 'varargs': False,
                  'kwonly': [], 'varkw': False})
  _S['cons'] = probes.build({'shape': 'fn', 'api': 'external', 'name': 'c15cons', 'module': 'c15.m', 'pos': [], 'dflt': [['v', None], ['w', None]],
                             'varargs': False, 'kwonly': [], 'varkw': False})
  _S['tree'] = pkgtree.Tree()
  import os
  with open(os.path.join(_S['tree'].root, 'vf_c15_unimportable.py'), 'w') as fh:
    fh.write("raise ImportError('a dependency of this module is not installed')\n")


def finish(ctx):
  _S['tree'].cleanup()


def gen_value(rng, depth, allow_unknown):
  r = rng.random()
  if depth <= 0 or r < 0.5:
    k = rng.random()
    if k < 0.4:
      return ['lit', rng.choice([1, 'x', None, [1, 2], {'a': 1}])]
    if k < 0.65 or not allow_unknown:
      return ['ref', 'c15g', rng.random() < 0.5, rng.choice(['', 'sc'])]
    return ['ref', rng.choice(UNKNOWN_R), rng.random() < 0.5, rng.choice(['', 'sc', 'a/b'])]
  n = rng.choice([1, 2, 3])
  if r < 0.8:
    return ['list', [gen_value(rng, depth - 1, allow_unknown) for _ in range(n)]]
  return ['dict', [['k%d' % i, gen_value(rng, depth - 1, allow_unknown)] for i in range(n)]]


def vtext(v):
  if v[0] == 'lit':
    return repr(v[1])
  if v[0] == 'ref':
    return '@' + (v[3] + '/' if v[3] else '') + v[1] + ('()' if v[2] else '')
  if v[0] == 'list':
    return '[' + ', '.join(vtext(x) for x in v[1]) + ']'
  return '{' + ', '.join('%r: %s' % (a, vtext(b)) for a, b in v[1]) + '}'


def refs_in(v, depth=0, out=None):
  out = [] if out is None else out
  if v[0] == 'ref':
    out.append((v[1], depth))
  elif v[0] == 'list':
    for x in v[1]:
      refs_in(x, depth + 1, out)
  elif v[0] == 'dict':
    for _, x in v[1]:
      refs_in(x, depth + 1, out)
  return out


def gen_static(rng):
  skipkind = rng.choice(['False', 'True', 'list', 'tuple', 'set'])
  listed = []
  if skipkind in ('list', 'tuple', 'set'):
    pool = UNKNOWN_T + UNKNOWN_R
    listed = rng.sample(pool, rng.randrange(1, len(pool) + 1))
    if rng.random() < 0.4:
      listed += rng.sample(sorted(KNOWN) + ['c15cons'], rng.choice([1, 2]))  # listing a known name must not make it skippable
  def applies(name):
    return skipkind == 'True' or name in listed
  stmts = []
  for _ in range(rng.choice([2, 3, 5, 8])):
    r = rng.random()
    if r < 0.4:
      tgt = rng.choice(sorted(KNOWN) if rng.random() < 0.5 else UNKNOWN_T)
      allow_unk = True
      # DESIGN X: in list mode no unlisted unknown reference inside a binding that is itself skipped
      val = gen_value(rng, rng.choice([0, 1, 2, 3]), allow_unk)
      if tgt in UNKNOWN_T and skipkind in ('list', 'tuple', 'set') and any(n in UNKNOWN_R and not applies(n) for n, _ in refs_in(val)):
        val = ['lit', 0]
      if tgt in ('c15g', 'm.c15g'):
        val = ['lit', 5]  # keep the reference graph acyclic (c15g is the one referenced configurable)
      stmts.append(['bind', rng.choice(['', '', 'sc', 'a/b']), tgt, rng.choice(['x', 'y', 'z']), val])
    elif r < 0.6:
      tgt = rng.choice(sorted(KNOWN) if rng.random() < 0.4 else UNKNOWN_T)
      members = [[p, gen_value(rng, rng.choice([0, 1]), tgt in KNOWN) if tgt not in ('c15g', 'm.c15g') else ['lit', 6]]
                 for p in rng.sample(['x', 'y', 'z'], rng.choice([1, 2]))]
      stmts.append(['block', rng.choice(['', 'sc']), tgt, members])
    elif r < 0.75:
      stmts.append(['macro', rng.choice(['c15m1', 'a/c15m2']), gen_value(rng, rng.choice([0, 1, 2]), True)])
    elif r < 0.9:
      stmts.append(['import', rng.choice(MISSING_MODS + ['os', 'json'])])
    else:
      stmts.append(['bind', '', 'c15cons', rng.choice(['v', 'w']), gen_value(rng, rng.choice([1, 2, 3]), True)])
  return {'mode': 'static', 'skipkind': skipkind, 'listed': listed, 'stmts': stmts}


def render(stmts):
  lines = []
  for st in stmts:
    if st[0] == 'bind':
      lines.append('%s%s.%s = %s' % (st[1] + '/' if st[1] else '', st[2], st[3], vtext(st[4])))
    elif st[0] == 'block':
      lines.append('%s%s:' % (st[1] + '/' if st[1] else '', st[2]))
      for p, v in st[3]:
        lines.append('  %s = %s' % (p, vtext(v)))
    elif st[0] == 'macro':
      lines.append('%s = %s' % (st[1], vtext(st[2])))
    else:
      lines.append('import ' + st[1])
  return '\n'.join(lines) + '\n'


def skip_value(case):
  k = case['skipkind']
  if k == 'False':
    return False
  if k == 'True':
    return True
  return {'list': list, 'tuple': tuple, 'set': set}[k](case['listed'])


def analyse_static(case):
  """Returns (first_error_index or None, reduced statement list, kept placeholders present?)."""
  k = case['skipkind']
  listed = case['listed']
  enabled = k == 'True' or (k in ('list', 'tuple', 'set') and len(listed) > 0)
  def applies(name):
    return k == 'True' or (k != 'False' and name in listed)
  reduced = []
  for i, st in enumerate(case['stmts']):
    if st[0] == 'import':
      if st[1] in MISSING_MODS:
        if not enabled:
          return i, reduced
        continue
      reduced.append(st)
      continue
    values = [st[4]] if st[0] == 'bind' else ([st[2]] if st[0] == 'macro' else [v for _, v in st[3]])
    if st[0] == 'block':
      # the header is checked before any member value is read
      if st[2] in UNKNOWN_T and not applies(st[2]):
        return i, reduced
    for v in values:
      for name, _ in refs_in(v):
        if name in UNKNOWN_R and not applies(name):
          return i, reduced
    if st[0] in ('bind', 'block') and st[2] in UNKNOWN_T:
      if not applies(st[2]):
        return i, reduced
      continue  # deleted
    reduced.append(st)
  return None, reduced


def expected_store(stmts):
  exp = {}
  for st in stmts:
    if st[0] == 'bind':
      sel = KNOWN.get(st[2], 'c15.m.c15cons' if st[2] == 'c15cons' else None)
      exp.setdefault((st[1], sel), {})[st[3]] = vcanon(st[4])
    elif st[0] == 'block':
      for p, v in st[3]:
        exp.setdefault((st[1], KNOWN[st[2]]), {})[p] = vcanon(v)
    elif st[0] == 'macro':
      exp.setdefault((st[1], 'gin.macro'), {})['value'] = vcanon(st[2])
  return exp


def vcanon(v):
  if v[0] == 'lit':
    return canon(v[1])
  if v[0] == 'ref':
    if v[1] in UNKNOWN_R:
      return ('unk', v[1], bool(v[2]))
    return ('ref', (v[3] + '/' if v[3] else '') + 'c15.m.c15g', bool(v[2]))
  if v[0] == 'list':
    return ('list', tuple(vcanon(x) for x in v[1]))
  return ('dict', tuple((canon(a), vcanon(b)) for a, b in v[1]))


def run_static(ctx, case):
  import gin
  from gin import config as gc
  ctx.bucket('mode:static')
  ctx.bucket('skip:' + case['skipkind'])
  stmts = case['stmts']
  for st in stmts:
    if st[0] == 'bind' and st[2] in UNKNOWN_T:
      ctx.bucket('stmt:flat-unknown')
      if st[1]:
        ctx.bucket('stmt:scoped-unknown')
      if '.' in st[2]:
        ctx.bucket('stmt:module-qualified-unknown')
    if st[0] == 'block' and st[2] in UNKNOWN_T:
      ctx.bucket('stmt:block-unknown')
    if st[0] == 'import' and st[1] in MISSING_MODS:
      ctx.bucket('stmt:missing-import')
    vals = [st[4]] if st[0] == 'bind' else ([st[2]] if st[0] == 'macro' else ([v for _, v in st[3]] if st[0] == 'block' else []))
    for v in vals:
      for name, d in refs_in(v):
        if name in UNKNOWN_R:
          ctx.bucket('stmt:macro-with-unknown-ref' if st[0] == 'macro' else 'stmt:known-with-unknown-ref')
          if d >= 2:
            ctx.bucket('ref:nested-depth2+')
  if any(n in KNOWN or n == 'c15cons' for n in case['listed']):
    ctx.bucket('list:includes-known-name')
  if case['skipkind'] in ('list', 'tuple', 'set') and 0 < len([n for n in case['listed'] if n in UNKNOWN_T + UNKNOWN_R]) < len(UNKNOWN_T + UNKNOWN_R):
    ctx.bucket('list:partial')
  err_at, reduced = analyse_static(case)
  text = render(stmts)
  skip = skip_value(case)
  ctx.fp('static', tuple(s[0] + ':' + (str(s[2] in UNKNOWN_T) if s[0] in ('bind', 'block') else '') for s in stmts), case['skipkind'], tuple(sorted(case['listed'])))
  ctx.sample({'mode': 'static', 'skip_unknown': repr(skip), 'text': text, 'first_error_statement': err_at}, cap=3)
  gin.clear_config()
  exc = None
  try:
    gin.parse_config(text, skip_unknown=skip)
  except Exception as e:  # pylint: disable=broad-except
    exc = e
  if err_at is not None:
    ctx.bucket('outcome:error-unlisted')
    ctx.check(exc is not None, 'unknown-name-not-covered-by-setting-accepted',
              'statement %d (%r) targets/uses an unknown name not covered by skip_unknown=%r but parsing succeeded' % (err_at, stmts[err_at], skip))
    return
  if not ctx.check(exc is None, 'skippable-text-rejected', 'skip_unknown=%r: parse raised %s: %s\n%s' % (skip, type(exc).__name__, str(exc)[:300], text)):
    return
  got = snap.store_nonempty(gc)
  imports = sorted({s.module for s in gc._IMPORTS})
  # generator's own list of kept bindings
  exp = expected_store(reduced)
  ctx.check(got == exp, 'store-differs-from-kept-bindings', 'skip_unknown=%r: store differs from the kept bindings: %r\n%s' % (skip, snap.diff(got, exp), text))
  # reduced-text oracle
  gin.clear_config()
  gin.parse_config(render(reduced), skip_unknown=skip)
  ctx.count('reduced_compared')
  red = snap.store_nonempty(gc)
  ctx.check(got == red and imports == sorted({s.module for s in gc._IMPORTS}), 'store-differs-from-reduced-text',
            'parse(text) != parse(reduced text) under skip_unknown=%r: %r' % (skip, snap.diff(got, red)))
  ctx.bucket('outcome:skipped' if len(reduced) != len(stmts) else 'outcome:all-known')
  # placeholders raise on use and at finalize
  def holds_unk(c):
    return c[0] == 'unk' if (isinstance(c, tuple) and c and c[0] in ('unk', 'ref')) else (isinstance(c, tuple) and any(holds_unk(x) for x in c if isinstance(x, tuple)))
  has_ph = any(holds_unk(c) for d in exp.values() for c in d.values())  # last writer wins: only what is still in the store
  cons_ph = [st for st in reduced if st[0] == 'bind' and st[2] == 'c15cons' and any(n in UNKNOWN_R for n, _ in refs_in(st[4]))]
  if has_ph:
    ctx.count('placeholders_checked')
    try:
      gin.finalize()
      ctx.check(False, 'finalize-accepted-unknown-reference', 'finalize() succeeded although the config holds references to unknown configurables')
    except ValueError as e:
      ctx.bucket('placeholder:finalize-raises')
      ctx.check('No configurable matching' in str(e), 'placeholder-error-message', 'finalize error: %s' % str(e)[:200])
    ctx.check(not gin.config_is_locked(), 'rejected-finalize-locked', 'finalize rejected but config locked')
  if cons_ph:
    last = {}
    for st in reduced:
      if st[0] == 'bind' and st[2] == 'c15cons' and not st[1]:
        last[st[3]] = st[4]
    if any(n in UNKNOWN_R for v in last.values() for n, _ in refs_in(v)):
      try:
        _S['cons'].conf()
        ctx.check(False, 'placeholder-use-did-not-raise', 'consumer with a placeholder argument ran')
      except ValueError as e:
        ctx.bucket('placeholder:use-raises')
        ctx.check('No configurable matching' in str(e), 'placeholder-error-message', 'use error: %s' % str(e)[:200])
  gin.clear_config()


# ---------------------------------------------------------------------------
# dynamic registration


def gen_dynamic(rng):
  stmts = []
  imports = rng.sample(['import PK.alpha', 'from PK import beta as B', 'from PK.sub import gamma', 'import PK.sub.alpha as SA'], rng.choice([2, 3, 4]))
  if rng.random() < 0.4:
    imports.insert(rng.randrange(len(imports) + 1), 'import vf_missing_mod_dyn')
  avail = {}
  if 'import PK.alpha' in imports:
    avail.update({'PK.alpha.fa': 'x', 'PK.alpha.K': 'a', 'PK.alpha.K.meth': 'm', 'PK.alpha.K.Inner': 'i'})
  if 'from PK import beta as B' in imports:
    avail.update({'B.fb': 'x', 'B.K': 'a'})
  if 'from PK.sub import gamma' in imports:
    avail.update({'gamma.fg': 'x'})
  if 'import PK.sub.alpha as SA' in imports:
    avail.update({'SA.fa': 'x', 'SA.Deep': 'q'})
  bad = {'nothere.f': 'x', 'gamma2.fg': 'x', 'B.K.nometh': 'm', 'SA.fa.oops': 'x'}
  if 'import PK.alpha' in imports:
    bad['PK.alpha.nofn'] = 'x'
  else:
    # nothing binds the name PK (once `import PK.alpha` binds it, PK.beta is reachable whenever beta was imported by anyone)
    bad['PK.alpha.fa'] = 'x'
    bad['PK.beta.fb'] = 'x'
  if 'from PK import beta as B' not in imports:
    bad.pop('B.K.nometh')
    bad['B.fb'] = 'x'
  if 'import PK.sub.alpha as SA' not in imports:
    bad.pop('SA.fa.oops')
    bad['SA.fa'] = 'x'
  for _ in range(rng.choice([2, 3, 5, 7])):
    if rng.random() < 0.6 and avail:
      t = rng.choice(sorted(avail))
      stmts.append(['bind', rng.choice(['', 'sc']), t, avail[t], rng.randrange(100), True])
    else:
      t = rng.choice(sorted(bad))
      if t in avail:
        continue
      stmts.append(['bind', rng.choice(['', 'sc']), t, bad[t], rng.randrange(100), False])
  if rng.random() < 0.3 and 'gamma.fg' in avail:
    ref_t = rng.choice(['nothere.g', 'PK.alpha.nofn'] + ([k for k in avail if k.endswith('fb') or k.endswith('fa')]))
    stmts.append(['bindref', '', 'gamma.fg', 'ref', ref_t, ref_t in avail])
  return {'mode': 'dynamic', 'imports': imports, 'stmts': stmts, 'skip': rng.choice([True, True, False, 'list'])}


def dyn_render(case, pk, stmts):
  lines = ['from __gin__ import dynamic_registration'] + [i.replace('PK', pk) for i in case['imports']]
  for st in stmts:
    if st[0] == 'bind':
      lines.append('%s%s.%s = %d' % (st[1] + '/' if st[1] else '', st[2].replace('PK', pk), st[3], st[4]))
    else:
      lines.append('%s.%s = @%s()' % (st[2], st[3], st[4].replace('PK', pk)))
  return '\n'.join(lines) + '\n'


def run_dynamic(ctx, case):
  import gin
  from gin import config as gc
  ctx.bucket('mode:dynamic')
  pk = _S['tree'].new_package('c15')
  stmts = case['stmts']
  unknown_names = sorted({(st[2] if st[0] == 'bind' else st[4]).replace('PK', pk) for st in stmts if not st[5]})
  if case['skip'] == 'list':
    skip = list(unknown_names)
    ctx.bucket('skip:list')
  else:
    skip = case['skip']
    ctx.bucket('skip:' + str(skip))
  for st in stmts:
    if not st[5]:
      t = st[2] if st[0] == 'bind' else st[4]
      ctx.bucket('dynamic:attribute-missing' if t in ('PK.alpha.nofn', 'B.K.nometh', 'SA.fa.oops') else 'dynamic:name-not-imported')
  has_missing_import = any('vf_missing_mod_dyn' in i for i in case['imports'])
  if has_missing_import:
    ctx.bucket('dynamic:missing-import')
  all_ok = all(st[5] for st in stmts) and not has_missing_import
  text = dyn_render(case, pk, stmts)
  reduced_stmts = [st for st in stmts if st[0] == 'bind' and st[5] or st[0] == 'bindref']
  reduced_case = dict(case, imports=[i for i in case['imports'] if 'vf_missing_mod_dyn' not in i])
  reduced = dyn_render(reduced_case, pk, reduced_stmts)
  ctx.fp('dynamic', tuple(case['imports']), tuple((st[0], st[2], st[5]) for st in stmts), str(case['skip']))
  ctx.sample({'mode': 'dynamic', 'skip_unknown': repr(skip), 'text': text}, cap=3)

  def parse(t, s):
    gin.clear_config()
    try:
      gin.parse_config(t, skip_unknown=s)
      return None
    except Exception as e:  # pylint: disable=broad-except
      return e

  expect_error = (not skip) and not all_ok
  # the bindref statement holds a reference: unknown reference -> placeholder when skipping
  e1 = parse(text, skip)
  ctx.bucket('dynamic:first-use')
  if expect_error:
    ctx.bucket('outcome:error-unlisted')
    ctx.check(e1 is not None, 'unknown-name-not-covered-by-setting-accepted', 'dynamic: unknown names with skip_unknown=%r accepted\n%s' % (skip, text))
    return
  if not ctx.check(e1 is None, 'skippable-text-rejected', 'dynamic first-use parse with skip_unknown=%r raised %s: %s\n%s' % (skip, type(e1).__name__, str(e1)[:300], text)):
    return
  first = snap.store_nonempty(gc)
  # the generator's own expectation: every resolvable binding applied under the complete name of the resolved object
  kept = [st for st in stmts if st[0] == 'bind' and st[5]]
  nkept = len({(st[1], st[2], st[3]) for st in kept})
  got_n = sum(len(d) for (sc, sel), d in first.items() if not sel.endswith('gamma.fg') or True) - sum(1 for st in stmts if st[0] == 'bindref')
  ctx.check(got_n == nkept, 'dynamic-first-use-binding-of-resolvable-name-dropped',
            'dynamic registration, skip_unknown=%r: %d bindings of resolvable names in the text, %d in the store: %r\n%s' % (skip, nkept, got_n, first, text))
  e2 = parse(text, skip)
  ctx.bucket('dynamic:repeat')
  second = snap.store_nonempty(gc)
  ctx.check(e2 is None and second == first, 'dynamic-result-depends-on-earlier-parses',
            'the same text gives a different configuration once its names are registered: %r' % (snap.diff(first, second),), {'text': text})
  e3 = parse(reduced, skip)
  ctx.count('reduced_compared')
  red = snap.store_nonempty(gc)
  ctx.check(e3 is None and red == first, 'store-differs-from-reduced-text', 'dynamic: parse(text) != parse(reduced): %r\n%s\n--- reduced\n%s' % (snap.diff(first, red), text, reduced))
  if all_ok:
    e4 = parse(text, False)
    ctx.bucket('dynamic:all-resolvable-equals-noskip')
    ctx.bucket('outcome:all-known')
    ctx.check(e4 is None and snap.store_nonempty(gc) == first, 'skip-setting-changes-fully-resolvable-config',
              'every name resolves, yet skip_unknown=%r and False give different configurations: %r' % (skip, snap.diff(first, snap.store_nonempty(gc))))
  else:
    ctx.bucket('outcome:skipped')
  gin.clear_config()


def iter_cases(ctx, rng, n):
  for i in range(n):
    if i % 11 == 10:
      yield {'mode': 'late-known', 'dynamic': rng.random() < 0.5, 'skip': rng.choice([True, 'list', False]), 'again': rng.random() < 0.5}
      continue
    yield gen_static(rng) if i % 3 else gen_dynamic(rng)


def run_late_known(ctx, case):
  """Known-ness is decided statement by statement: a name that is unknown where it first appears becomes known after a later import."""
  import itertools
  import os
  import gin
  from gin import config as gc
  gin.clear_config()
  ctx.bucket('mode:late-known-dynamic' if case['dynamic'] else 'mode:late-known-static')
  n = next(_S.setdefault('late_ctr', itertools.count(1)))
  if case['dynamic']:
    pk = _S['tree'].new_package('c15l')
    head = 'from __gin__ import dynamic_registration\n'
    early, imp, late, target = 'LA.fa.x = 1', 'import %s.alpha as LA' % pk, 'LA.fa.y = 2', 'LA.fa'
    full = None
  else:
    mod = 'vfc15late%d_%s' % (n, ctx.uid)
    fn = 'late_fn%d_%s' % (n, ctx.uid)
    with open(os.path.join(_S['tree'].root, mod + '.py'), 'w') as fh:
      fh.write('import gin\n@gin.configurable\ndef %s(x=0, y=0):\n  return (x, y)\n' % fn)
    import importlib
    importlib.invalidate_caches()
    head = ''
    early, imp, late, target = '%s.x = 1' % fn, 'import ' + mod, '%s.y = 2' % fn, fn
  text = head + early + '\n' + imp + '\n' + late + '\n' + (early.replace('= 1', '= 3') + '\n' if case['again'] else '')
  skip = [target] if case['skip'] == 'list' else case['skip']
  ctx.fp('late-known', case['dynamic'], str(case['skip']), case['again'])
  try:
    gin.parse_config(text, skip_unknown=skip)
    exc = None
  except Exception as e:  # pylint: disable=broad-except
    exc = e
  if not skip:
    ctx.check(exc is not None, 'unknown-name-not-covered-by-setting-accepted', 'late-known: %r unknown at its first statement, skip_unknown=False, yet accepted\n%s' % (target, text))
    return
  if not ctx.check(exc is None, 'skippable-text-rejected', 'late-known: raised %s: %s\n%s' % (type(exc).__name__, str(exc)[:300], text)):
    return
  got = {prm: v for (sc, sel), d in gc._CONFIG.items() for prm, v in d.items()}
  want = {'y': 2, 'x': 3} if case['again'] else {'y': 2}
  ctx.count('reduced_compared')
  ctx.check(got == want, 'binding-after-import-made-name-known-not-applied',
            'late-known: the statement before the import must be skipped, those after it applied: store %r, expected %r\n%s' % (got, want, text))
  gin.clear_config()


def run_case(ctx, case):
  if case['mode'] == 'late-known':
    return run_late_known(ctx, case)
  if case['mode'] == 'static':
    run_static(ctx, case)
  else:
    run_dynamic(ctx, case)


LEVEL_TEXT = ('Runtime metamorphic monitor: for every generated text and skip_unknown setting the real parse is compared with the parse of the reduced '
              'text (statements deleted by an independent rule) and with the generator\'s own list of kept bindings; placeholders are exercised (use and '
              'finalize must raise "No configurable matching"); under dynamic registration each text is parsed as first use (fresh package), again after '
              'registration, in reduced form and, when everything resolves, with skip_unknown=False.')
LEVEL_NOTE = ('Trusted: the deletion rule in analyse_static/gen_dynamic. In list mode, unlisted unknown references inside a binding that is itself skipped '
              'are not generated (DESIGN X).')
TECHNIQUE = 'runtime metamorphic monitor (text vs reduced text, first use vs repeat parse) over skip_unknown settings'
DESIGN_REF = 'DESIGN.md section 4, C15'
