"""C15 — skip_unknown drops exactly the statements that target unknown names."""
import os

from vf import pkgtree, probes, snap
from vf.teq import canon

ID = 'C15'
LEVEL = 'exploration'
RULE = ('config texts mixing known and unknown targets (flat, block, scoped, module-qualified), values holding references to unknown configurables '
        'at depth 0-3 in every position of the value syntax (top level, list, tuple, dict value, dict key, tuple used as dict key), macros holding unknown references, imports of missing modules; skip_unknown in {False, True, list, tuple, set} with random '
        'subsets of the unknown names listed; static registration and dynamic registration (fresh generated package per case, parsed as first use '
        'and again after the names are registered). Oracle: (metamorphic) parse(text, setting) == parse(reduced text, setting) where the reduced text '
        'deletes exactly the statements the rule says; unknown-not-listed -> error; every placeholder raises "No configurable matching" on use and '
        'at finalize; dynamic: first-use parse == repeat parse == reduced parse, and == skip_unknown=False parse when everything resolves. '
        'Every text is fed through one of five entry points (parse_config, parse_config_file, an include - possibly nested -, '
        'parse_config_files_and_bindings, two successive parses onto the live configuration) and compared with the plain parse of the reduced text; '
        'empty collections as skip_unknown (nothing may be skipped), wrong-module spellings of known names, from/as imports of missing modules, '
        'blocks of unknown targets holding unknown references, %macro references to macros holding placeholders; placeholders are used through '
        'c15f / c15cons under several scopes and through macros, the error must name an unknown selector that is reachable (at finalize: and a binding '
        'holding it); dynamic registration: list/tuple/set with partial lists (unlisted -> error), placeholders checked in the store, on use and at '
        'Late-known names: the too-early statement is flat or a block, the later ones flat, with and without a scope. '
        'finalize. distinct = (statement kinds, skip form, which unknowns listed, registration mode, entry point)')
TIERS = {
    'quick': {'workers': 8, 'cases': 1800, 'timeout': 600},
    'thorough': {'workers': 16, 'cases': 12000, 'timeout': 3000},
}
REQUIRED_BUCKETS = ['list:includes-known-name', 'mode:late-known-static', 'mode:late-known-dynamic', 'mode:static', 'mode:dynamic', 'skip:False', 'skip:True', 'skip:list', 'skip:tuple', 'skip:set', 'stmt:flat-unknown', 'stmt:block-unknown',
                    'stmt:scoped-unknown', 'stmt:module-qualified-unknown', 'stmt:known-with-unknown-ref', 'stmt:macro-with-unknown-ref', 'stmt:missing-import',
                    'ref:nested-depth2+', 'outcome:error-unlisted', 'outcome:skipped', 'outcome:all-known', 'placeholder:use-raises', 'placeholder:finalize-raises',
                    'dynamic:first-use', 'dynamic:repeat', 'dynamic:all-resolvable-equals-noskip', 'dynamic:name-not-imported', 'dynamic:attribute-missing',
                    'dynamic:missing-import', 'list:partial',
                    'entry:text', 'entry:file', 'entry:include', 'entry:include-nested', 'entry:fab', 'entry:two-parses', 'entry:files-on-disk', 'entry:files-in-memory', 'entry:other-than-text-error-unlisted',
                    'entry:other-than-text-skipped', 'entry:second-parse-onto-live-placeholders', 'skip:empty-collection', 'stmt:wrong-module-spelling-target',
                    'stmt:wrong-module-spelling-ref', 'stmt:missing-import-from', 'stmt:missing-import-as', 'stmt:unknown-block-with-unknown-ref',
                    'stmt:block-under-nested-scope', 'stmt:macro-reference', 'placeholder:use-scoped', 'placeholder:use-through-macro',
                    'placeholder:use-in-c15f', 'placeholder:error-names-selector', 'placeholder:finalize-names-binding', 'finalize:same-outcome-as-reduced',
                    'dynamic:partial-list-error', 'dynamic:skip-tuple', 'dynamic:skip-set', 'dynamic:list-includes-known-name',
                    'dynamic:placeholder-in-store', 'dynamic:placeholder-use-raises', 'dynamic:placeholder-finalize-raises', 'dynamic:known-reference-kept',
                    'dynamic:entry-file', 'dynamic:entry-fab', 'late-known:finalize-passes', 'late-known:early-statement-is-a-block',
                    # references (placeholders) in every position the value syntax has: tuples, dict keys, tuples that are dict keys
                    'refpos:unknown:tuple', 'refpos:unknown:dict-key', 'refpos:unknown:tuple-in-dict-key', 'refpos:known:dict-key',
                    'placeholder:kept:tuple', 'placeholder:kept:dict-key', 'placeholder:kept:tuple-in-dict-key', 'placeholder:kept-in-dict-key-of-macro',
                    'placeholder:use-raises-only-in-dict-keys', 'placeholder:finalize-raises-only-in-dict-keys',
                    'dynamic:placeholder-in-dict-key', 'dynamic:known-reference-in-dict-key']
ORACLE_COUNTERS = ['oracle_evals', 'reduced_compared', 'placeholders_checked']
_S = {}
KNOWN = {'c15f': 'c15.m.c15f', 'c15.m.c15f': 'c15.m.c15f', 'm.c15g': 'c15.m.c15g', 'c15g': 'c15.m.c15g'}
WRONG_T = ['wrong.c15f', 'c15.wrong.c15g']   # a known name under a module path it does not have: unknown
WRONG_R = ['wrong.c15g']
UNKNOWN_T = ['c15_unk1', 'other.c15_unk2', 'c15.m.c15_unk3'] + WRONG_T
UNKNOWN_R = ['c15_unkref1', 'x.c15_unkref2'] + WRONG_R
COLL = ('list', 'tuple', 'set')
ENTRIES = ['text', 'text', 'file', 'include', 'fab', 'two-parses']
USE_SCOPES = ['', 'sc', 'a/b', 'sc/inner']   # 'sc/inner' inherits what is bound under 'sc'
FULL = {'c15f': 'c15.m.c15f', 'c15g': 'c15.m.c15g', 'c15cons': 'c15.m.c15cons'}
MISSING_MODS = ['vf_missing_mod_a', 'os.vf_missing_sub', 'vf_c15_unimportable']   # the last exists, but raises a bare ImportError (a dependency of it is missing)


def setup(ctx):
  for name in ('c15f', 'c15g'):
    _S[name] = probes.build({'shape': 'fn', 'api': 'external', 'name': name, 'module': 'c15.m', 'pos': [], 'dflt': [['x', 0], ['y', 0], ['z', 0]], 'varargs': False,
                  'kwonly': [], 'varkw': False})
  _S['cons'] = probes.build({'shape': 'fn', 'api': 'external', 'name': 'c15cons', 'module': 'c15.m', 'pos': [], 'dflt': [['v', None], ['w', None]],
                             'varargs': False, 'kwonly': [], 'varkw': False})
  _S['tree'] = pkgtree.Tree()
  _S['mem'] = {}
  import gin
  gin.config.register_file_reader(_mem_open, lambda path: path in _S['mem'])
  # gin's package-resource reader is asked first and logs an error for every path it cannot map to a package: keep stderr readable
  import logging
  logging.getLogger().addFilter(lambda r: not (r.args and isinstance(r.args, tuple) and isinstance(r.args[0], str) and r.args[0].startswith(MEM_ROOT)))
  with open(os.path.join(_S['tree'].root, 'vf_c15_unimportable.py'), 'w') as fh:
    fh.write("raise ImportError('a dependency of this module is not installed')\n")


def finish(ctx):
  _S['tree'].cleanup()


def gen_key(rng, i, allow_unknown, used):
  """Key number i of a dict literal: a plain string (the usual case), a reference, or a tuple holding references (a reference - and so a
  placeholder - may sit wherever the syntax allows a value, dict keys included).  Keys of one dict are pairwise different whatever equality
  references have: bare reference keys use pairwise different names, tuple keys start with their index.  Known references in keys are not
  evaluated (c15g returns a list, which cannot be a key)."""
  def keyref():
    if allow_unknown and rng.random() < 0.7:
      return ['ref', rng.choice(UNKNOWN_R), rng.random() < 0.5, rng.choice(['', 'sc', 'a/b'])]
    return ['ref', 'c15g', False, rng.choice(['', 'sc'])]
  r = rng.random()
  if r < 0.5:
    return 'k%d' % i
  if r < 0.75:
    key = keyref()
    if key[1] in used:
      return 'k%d' % i
    used.add(key[1])
    return key
  elems = [['lit', i]]
  for _ in range(rng.choice([1, 1, 2])):
    k = rng.random()
    elems.append(['lit', rng.choice([1, 'x', None])] if k < 0.25 else (['tuple', [keyref(), ['lit', 0]]] if k < 0.4 else keyref()))
  return ['tuple', elems]


def gen_value(rng, depth, allow_unknown, macros=()):
  r = rng.random()
  if depth <= 0 or r < 0.5:
    if macros and rng.random() < 0.2:
      return ['mref', rng.choice(macros)]   # %name of a macro the text defines
    k = rng.random()
    if k < 0.4:
      return ['lit', rng.choice([1, 'x', None, [1, 2], {'a': 1}])]
    if k < 0.65 or not allow_unknown:
      return ['ref', 'c15g', rng.random() < 0.5, rng.choice(['', 'sc'])]
    return ['ref', rng.choice(UNKNOWN_R), rng.random() < 0.5, rng.choice(['', 'sc', 'a/b'])]
  n = rng.choice([1, 2, 3])
  if r < 0.72:
    return ['list', [gen_value(rng, depth - 1, allow_unknown, macros) for _ in range(n)]]
  if r < 0.8:
    return ['tuple', [gen_value(rng, depth - 1, allow_unknown, macros) for _ in range(n)]]
  used = set()
  return ['dict', [[gen_key(rng, i, allow_unknown, used), gen_value(rng, depth - 1, allow_unknown, macros)] for i in range(n)]]


def is_tree(k):
  """Dict keys of a value tree: a plain Python literal (string), or a value tree of their own."""
  return isinstance(k, list)


def vtext(v):
  if v[0] == 'lit':
    return repr(v[1])
  if v[0] == 'ref':
    return '@' + (v[3] + '/' if v[3] else '') + v[1] + ('()' if v[2] else '')
  if v[0] == 'mref':
    return '%' + v[1]
  if v[0] == 'list':
    return '[' + ', '.join(vtext(x) for x in v[1]) + ']'
  if v[0] == 'tuple':
    return '(' + ', '.join(vtext(x) for x in v[1]) + (',' if len(v[1]) == 1 else '') + ')'
  return '{' + ', '.join('%s: %s' % (vtext(a) if is_tree(a) else repr(a), vtext(b)) for a, b in v[1]) + '}'


def children(v):
  """Sub-trees of a container node in evaluation order (a dict item: key, then value), each with its position label."""
  if v[0] in ('list', 'tuple'):
    return [(v[0], x) for x in v[1]]
  if v[0] == 'dict':
    out = []
    for a, b in v[1]:
      if is_tree(a):
        out.append(('dict-key', a))
      out.append(('dict-value', b))
    return out
  return []


def refs_in(v, depth=0, out=None):
  out = [] if out is None else out
  if v[0] == 'ref':
    out.append((v[1], depth))
  for _, x in children(v):
    refs_in(x, depth + 1, out)
  return out


def mrefs_in(v, out=None):
  out = [] if out is None else out
  if v[0] == 'mref':
    out.append(v[1])
  for _, x in children(v):
    mrefs_in(x, out)
  return out


def positions_in(v, pos='top', inkey=False, out=None):
  """(name, position, inside a dict key?) of every reference: position = what immediately holds it (top, list, tuple, dict-value, dict-key,
  tuple-in-dict-key)."""
  out = [] if out is None else out
  if v[0] == 'ref':
    out.append((v[1], pos + '-in-dict-key' if inkey and pos != 'dict-key' else pos, inkey))
  for p, x in children(v):
    positions_in(x, p, inkey or p == 'dict-key', out)
  return out


def only_in_keys(v):
  """The value holds unknown references, every one of them inside a dict key."""
  unk = [k for n, _, k in positions_in(v) if n in UNKNOWN_R]
  return bool(unk) and all(unk)


def gen_static(rng):
  skipkind = rng.choice(['False', 'True', 'list', 'tuple', 'set'])
  listed = []
  empty = False
  if skipkind in COLL:
    pool = UNKNOWN_T + UNKNOWN_R
    r = rng.random()
    if r < 0.1:
      empty = True   # an empty collection: no unknown name is covered
    elif r < 0.4:
      listed = rng.sample(pool, len(pool))
    else:
      listed = rng.sample(pool, rng.randrange(1, len(pool) + 1))
    if not empty and rng.random() < 0.4:
      listed += rng.sample(sorted(KNOWN) + ['c15cons'], rng.choice([1, 2]))  # listing a known name must not make it skippable
  # grey (not asserted): whether an EMPTY collection still skips imports of missing modules -> no such import in those texts
  mods = ['os', 'json'] if empty else MISSING_MODS + ['os', 'json']
  def applies(name):
    return skipkind == 'True' or name in listed
  def sanitise(tgt, val):
    # DESIGN X: in list mode no unlisted unknown reference inside a binding that is itself skipped
    if tgt in UNKNOWN_T and skipkind in COLL and any(n in UNKNOWN_R and not applies(n) for n, _ in refs_in(val)):
      return ['lit', 0]
    return val
  stmts = []
  macros = []
  for _ in range(rng.choice([2, 3, 5, 8])):
    r = rng.random()
    if r < 0.4:
      tgt = rng.choice(sorted(KNOWN) if rng.random() < 0.5 else UNKNOWN_T)
      val = sanitise(tgt, gen_value(rng, rng.choice([0, 1, 2, 3]), True, macros))
      if tgt in ('c15g', 'm.c15g'):
        val = ['lit', 5]  # keep the reference graph acyclic (c15g is the one referenced configurable)
      stmts.append(['bind', rng.choice(['', '', 'sc', 'a/b']), tgt, rng.choice(['x', 'y', 'z']), val])
    elif r < 0.6:
      tgt = rng.choice(sorted(KNOWN) if rng.random() < 0.4 else UNKNOWN_T)
      members = [[p, sanitise(tgt, gen_value(rng, rng.choice([0, 1]), True, macros)) if tgt not in ('c15g', 'm.c15g') else ['lit', 6]]
                 for p in rng.sample(['x', 'y', 'z'], rng.choice([1, 2]))]
      stmts.append(['block', rng.choice(['', 'sc', 'a/b']), tgt, members])
    elif r < 0.75:
      name = rng.choice(['c15m1', 'a/c15m2'])
      stmts.append(['macro', name, gen_value(rng, rng.choice([0, 1, 2]), True)])
      if name not in macros:
        macros.append(name)
    elif r < 0.9:
      stmts.append(['import', rng.choice(mods), rng.choice(['', '', 'from', 'as'])])
    else:
      stmts.append(['bind', rng.choice(['', '', '', 'sc', 'a/b']), 'c15cons', rng.choice(['v', 'w']), gen_value(rng, rng.choice([1, 2, 3]), True, macros)])
  cuts = sorted([rng.randrange(len(stmts) + 1), rng.randrange(len(stmts) + 1)])
  return {'mode': 'static', 'skipkind': skipkind, 'listed': listed, 'stmts': stmts, 'entry': rng.choice(ENTRIES), 'cuts': cuts,
          'nested': rng.random() < 0.4, 'real_files': rng.random() < 0.2}


def import_text(mod, form):
  if form == 'from':
    if '.' in mod:
      return 'from %s import %s' % tuple(mod.rsplit('.', 1))
    return 'from %s import %s' % (mod, {'os': 'path', 'json': 'decoder'}.get(mod, 'thing'))
  if form == 'as':
    return 'import %s as c15al_%s' % (mod, mod.replace('.', '_'))
  return 'import ' + mod


def render(stmts):
  lines = []
  for st in stmts:
    if st[0] == 'bind':
      lines.append('%s%s.%s = %s' % (st[1] + '/' if st[1] else '', st[2], st[3], vtext(st[4])))
    elif st[0] == 'block':
      lines.append('%s%s:' % (st[1] + '/' if st[1] else '', st[2]))
      for p, v in st[3]:
        lines.append('  %s = %s' % (p, vtext(v)))
    elif st[0] == 'macro':
      lines.append('%s = %s' % (st[1], vtext(st[2])))
    else:
      lines.append(import_text(st[1], st[2] if len(st) > 2 else ''))
  return '\n'.join(lines) + '\n' if lines else ''


def skip_value(case):
  k = case['skipkind']
  if k == 'False':
    return False
  if k == 'True':
    return True
  return {'list': list, 'tuple': tuple, 'set': set}[k](case['listed'])


MEM_ROOT = '/vf-c15-in-memory/'   # config "files" served by a registered file reader (gin.config.register_file_reader): no disk traffic


def _mem_open(path):
  import io
  return io.StringIO(_S['mem'][path])


def _write(tag, text, real=False):
  """One of a few per-worker config files (rewritten for every case): on disk, or served from memory by a registered file reader."""
  if not real:
    path = MEM_ROOT + 'c15_%s.gin' % tag
    _S.setdefault('mem', {})[path] = text
    return path
  path = os.path.join(_S['tree'].root, 'c15_%s.gin' % tag)
  with open(path, 'w') as fh:
    fh.write(text)
  return path


def drive(case, stmts, skip):
  """Feeds the statements to gin through the case's entry point (every one must behave like parse_config(whole text)); returns the exception or None."""
  import gin
  entry = case.get('entry', 'text')
  a, b = case.get('cuts', [0, 0])
  real = bool(case.get('real_files'))
  try:
    if entry == 'file':
      gin.parse_config_file(_write('a', render(stmts), real), skip_unknown=skip)
    elif entry == 'include':
      inner = stmts[a:b]
      if case.get('nested'):
        m = len(inner) // 2
        inc = render(inner[:m]) + "include '%s'\n" % _write('c', render(inner[m:]), real)
      else:
        inc = render(inner)
      gin.parse_config(render(stmts[:a]) + "include '%s'\n" % _write('b', inc, real) + render(stmts[b:]), skip_unknown=skip)
    elif entry == 'fab':
      files = [_write('a', render(stmts[:a]), real), _write('b', render(stmts[a:b]), real)]
      gin.parse_config_files_and_bindings(files, render(stmts[b:]).split('\n'), finalize_config=False, skip_unknown=skip)
    elif entry == 'two-parses':
      gin.parse_config(render(stmts[:a]), skip_unknown=skip)
      gin.parse_config(render(stmts[a:]), skip_unknown=skip)   # onto the live configuration
    else:
      gin.parse_config(render(stmts), skip_unknown=skip)
  except Exception as e:  # pylint: disable=broad-except
    return e
  return None


def analyse_static(case):
  """Returns (first_error_index or None, reduced statement list, kept placeholders present?)."""
  k = case['skipkind']
  listed = case['listed']
  enabled = k == 'True' or (k in ('list', 'tuple', 'set') and len(listed) > 0)
  def applies(name):
    return k == 'True' or (k != 'False' and name in listed)
  reduced = []
  for i, st in enumerate(case['stmts']):
    if st[0] == 'import':
      if st[1] in MISSING_MODS:
        if not enabled:
          return i, reduced
        continue
      reduced.append(st)
      continue
    values = [st[4]] if st[0] == 'bind' else ([st[2]] if st[0] == 'macro' else [v for _, v in st[3]])
    if st[0] == 'block':
      # the header is checked before any member value is read
      if st[2] in UNKNOWN_T and not applies(st[2]):
        return i, reduced
    for v in values:
      for name, _ in refs_in(v):
        if name in UNKNOWN_R and not applies(name):
          return i, reduced
    if st[0] in ('bind', 'block') and st[2] in UNKNOWN_T:
      if not applies(st[2]):
        return i, reduced
      continue  # deleted
    reduced.append(st)
  return None, reduced


def expected_store(stmts):
  exp = {}
  for st in stmts:
    if st[0] == 'bind':
      sel = KNOWN.get(st[2], 'c15.m.c15cons' if st[2] == 'c15cons' else None)
      exp.setdefault((st[1], sel), {})[st[3]] = vcanon(st[4])
    elif st[0] == 'block':
      for p, v in st[3]:
        exp.setdefault((st[1], KNOWN[st[2]]), {})[p] = vcanon(v)
    elif st[0] == 'macro':
      exp.setdefault((st[1], 'gin.macro'), {})['value'] = vcanon(st[2])
  return exp


def final_bindings(stmts):
  """Like expected_store, but keeps the generator's value trees: {(scope, complete selector): {param: tree}} (last writer wins)."""
  fin = {}
  for st in stmts:
    if st[0] == 'bind':
      fin.setdefault((st[1], KNOWN.get(st[2], FULL['c15cons'])), {})[st[3]] = st[4]
    elif st[0] == 'block':
      for p, v in st[3]:
        fin.setdefault((st[1], KNOWN[st[2]]), {})[p] = v
    elif st[0] == 'macro':
      fin.setdefault((st[1], 'gin.macro'), {})['value'] = st[2]
  return fin


def merged(fin, scope, sel):
  """What a call of `sel` under `scope` receives: outer scopes first, the most specific scope wins."""
  out = {}
  parts = scope.split('/') if scope else []
  for i in range(len(parts) + 1):
    out.update(fin.get(('/'.join(parts[:i]), sel), {}))
  return out


def reach(fin, v, out, depth=0, skip_keys=False):
  """Unknown names whose placeholder is met when the value tree `v` is evaluated (through %macros and evaluated references; dict keys are
  evaluated like values, unless skip_keys)."""
  if depth > 8:
    return out
  if v[0] == 'ref':
    if v[1] in UNKNOWN_R:
      out.append(v[1])
    elif v[2]:
      for x in merged(fin, v[3], FULL['c15g']).values():
        reach(fin, x, out, depth + 1, skip_keys)
  elif v[0] == 'mref':
    mv = fin.get((v[1], 'gin.macro'), {}).get('value')
    if mv is not None:
      reach(fin, mv, out, depth + 1, skip_keys)
  else:
    for p, x in children(v):
      if not (skip_keys and p == 'dict-key'):
        reach(fin, x, out, depth, skip_keys)
  return out


def binding_in(msg, scope, sel, param):
  """Does the message name the binding scope/selector.param (the selector in any of its spellings)?"""
  parts = sel.split('.')
  for i in range(len(parts)):
    key = '.'.join(parts[i:]) + '.' + param
    if ((scope + '/' + key) if scope else key) in msg:
      return True
  return False


def vcanon(v):
  if v[0] == 'lit':
    return canon(v[1])
  if v[0] == 'ref':
    if v[1] in UNKNOWN_R:
      return ('unk', v[1], bool(v[2]))
    return ('ref', (v[3] + '/' if v[3] else '') + 'c15.m.c15g', bool(v[2]))
  if v[0] == 'mref':
    return ('ref', v[1] + '/gin.macro', True)
  if v[0] in ('list', 'tuple'):
    return (v[0], tuple(vcanon(x) for x in v[1]))
  return ('dict', tuple((vcanon(a) if is_tree(a) else canon(a), vcanon(b)) for a, b in v[1]))


def check_placeholders(ctx, fin, text):
  """On the live configuration: finalize and every use that meets a placeholder raise 'No configurable matching', naming an unknown selector
  that is really there (finalize: and a binding holding it).  Returns whether finalize() raised."""
  import gin
  holders = []   # what the finalize hook can report: bindings whose stored value holds a placeholder
  for (scope, sel), d in fin.items():
    for prm, v in d.items():
      names = [n for n, _ in refs_in(v) if n in UNKNOWN_R]
      if names:
        holders.append((scope, sel, prm, names))
  fin_exc = None
  try:
    gin.finalize()
  except Exception as e:  # pylint: disable=broad-except
    fin_exc = e
  if holders:
    ctx.count('placeholders_checked')
    if ctx.check(fin_exc is not None, 'finalize-accepted-unknown-reference', 'finalize() succeeded although the config holds references to unknown configurables\n' + text):
      ctx.bucket('placeholder:finalize-raises')
      if all(only_in_keys(fin[(h[0], h[1])][h[2]]) for h in holders):
        ctx.bucket('placeholder:finalize-raises-only-in-dict-keys')   # nothing but placeholders in key positions for the hook to find
      msg = str(fin_exc)
      ctx.check(isinstance(fin_exc, ValueError) and 'No configurable matching' in msg, 'placeholder-error-message', 'finalize error: %s: %s' % (type(fin_exc).__name__, msg[:200]))
      if ctx.check(any(n in msg for h in holders for n in h[3]), 'placeholder-error-names-other-selector',
                   'finalize error names none of the unknown selectors held by the configuration %r: %s\n%s' % (sorted({n for h in holders for n in h[3]}), msg[:300], text)):
        ctx.bucket('placeholder:error-names-selector')
        if ctx.check(any(binding_in(msg, h[0], h[1], h[2]) for h in holders if any(n in msg for n in h[3])), 'finalize-error-names-other-binding',
                     'finalize error does not name a binding that holds the reported reference (candidates %r): %s\n%s' % ([h[:3] for h in holders], msg[:300], text)):
          ctx.bucket('placeholder:finalize-names-binding')
    ctx.check(not gin.config_is_locked(), 'rejected-finalize-locked', 'finalize rejected but config locked')
  for name in ('c15f', 'c15cons'):
    for sc in USE_SCOPES:
      vals = merged(fin, sc, FULL[name])
      names = []
      for v in vals.values():
        reach(fin, v, names)
      if not names:
        continue
      exc = None
      try:
        with gin.config_scope(sc or None):
          _S[name if name != 'c15cons' else 'cons'].conf()
      except Exception as e:  # pylint: disable=broad-except
        exc = e
      if not ctx.check(exc is not None, 'placeholder-use-did-not-raise',
                       '%s called under scope %r ran although its arguments hold placeholders for %r\n%s' % (name, sc, sorted(set(names)), text)):
        continue
      ctx.bucket('placeholder:use-raises')
      if not [n for v in vals.values() for n in reach(fin, v, [], skip_keys=True)]:
        ctx.bucket('placeholder:use-raises-only-in-dict-keys')   # every placeholder the evaluation meets is (part of) a dict key
      if sc:
        ctx.bucket('placeholder:use-scoped')
      if name == 'c15f':
        ctx.bucket('placeholder:use-in-c15f')
      if any(mrefs_in(v) for v in vals.values()) and not any(n in UNKNOWN_R for v in vals.values() for n, _ in refs_in(v)):
        ctx.bucket('placeholder:use-through-macro')
      msg = str(exc)
      ctx.check(isinstance(exc, ValueError) and 'No configurable matching' in msg, 'placeholder-error-message', 'use error: %s: %s' % (type(exc).__name__, msg[:200]))
      if ctx.check(any(n in msg for n in names), 'placeholder-error-names-other-selector',
                   'use of %s under scope %r: the error names none of the unknown selectors its arguments hold %r: %s\n%s' % (name, sc, sorted(set(names)), msg[:300], text)):
        ctx.bucket('placeholder:error-names-selector')
  return fin_exc is not None


def run_static(ctx, case):
  import gin
  from gin import config as gc
  ctx.bucket('mode:static')
  ctx.bucket('skip:' + case['skipkind'])
  stmts = case['stmts']
  entry = case.get('entry', 'text')
  ctx.bucket('entry:' + entry)
  if entry == 'include' and case.get('nested'):
    ctx.bucket('entry:include-nested')
  if entry in ('file', 'include', 'fab'):
    ctx.bucket('entry:files-on-disk' if case.get('real_files') else 'entry:files-in-memory')
  if case['skipkind'] in COLL and not case['listed']:
    ctx.bucket('skip:empty-collection')
  for st in stmts:
    if st[0] == 'bind' and st[2] in UNKNOWN_T:
      ctx.bucket('stmt:flat-unknown')
      if st[1]:
        ctx.bucket('stmt:scoped-unknown')
      if '.' in st[2]:
        ctx.bucket('stmt:module-qualified-unknown')
    if st[0] in ('bind', 'block') and st[2] in WRONG_T:
      ctx.bucket('stmt:wrong-module-spelling-target')
    if st[0] == 'block' and st[2] in UNKNOWN_T:
      ctx.bucket('stmt:block-unknown')
      if any(n in UNKNOWN_R for _, v in st[3] for n, _ in refs_in(v)):
        ctx.bucket('stmt:unknown-block-with-unknown-ref')
    if st[0] == 'block' and '/' in st[1]:
      ctx.bucket('stmt:block-under-nested-scope')
    if st[0] == 'import' and st[1] in MISSING_MODS:
      ctx.bucket('stmt:missing-import')
      if len(st) > 2 and st[2]:
        ctx.bucket('stmt:missing-import-' + st[2])
    vals = [st[4]] if st[0] == 'bind' else ([st[2]] if st[0] == 'macro' else ([v for _, v in st[3]] if st[0] == 'block' else []))
    for v in vals:
      if mrefs_in(v):
        ctx.bucket('stmt:macro-reference')
      for name, d in refs_in(v):
        if name in UNKNOWN_R:
          ctx.bucket('stmt:macro-with-unknown-ref' if st[0] == 'macro' else 'stmt:known-with-unknown-ref')
          if name in WRONG_R:
            ctx.bucket('stmt:wrong-module-spelling-ref')
          if d >= 2:
            ctx.bucket('ref:nested-depth2+')
      for name, pos, _ in positions_in(v):
        ctx.bucket('refpos:%s:%s' % ('unknown' if name in UNKNOWN_R else 'known', pos))
  if any(n in KNOWN or n == 'c15cons' for n in case['listed']):
    ctx.bucket('list:includes-known-name')
  if case['skipkind'] in ('list', 'tuple', 'set') and 0 < len([n for n in case['listed'] if n in UNKNOWN_T + UNKNOWN_R]) < len(UNKNOWN_T + UNKNOWN_R):
    ctx.bucket('list:partial')
  err_at, reduced = analyse_static(case)
  text = render(stmts)
  skip = skip_value(case)
  ctx.fp('static', tuple(s[0] + ':' + (str(s[2] in UNKNOWN_T) if s[0] in ('bind', 'block') else '') for s in stmts), case['skipkind'], tuple(sorted(case['listed'])), entry)
  ctx.sample({'mode': 'static', 'skip_unknown': repr(skip), 'entry': entry, 'text': text, 'first_error_statement': err_at}, cap=3)
  gin.clear_config()
  exc = drive(case, stmts, skip)
  where = 'entry %s, cuts %r, skip_unknown=%r' % (entry, case.get('cuts'), skip)
  if err_at is not None:
    ctx.bucket('outcome:error-unlisted')
    if entry != 'text':
      ctx.bucket('entry:other-than-text-error-unlisted')
    ctx.check(exc is not None, 'unknown-name-not-covered-by-setting-accepted',
              'statement %d (%r) targets/uses an unknown name not covered by the setting but parsing succeeded (%s)\n%s' % (err_at, stmts[err_at], where, text))
    gin.clear_config()
    return
  if not ctx.check(exc is None, 'skippable-text-rejected', '%s: parse raised %s: %s\n%s' % (where, type(exc).__name__, str(exc)[:300], text)):
    gin.clear_config()
    return
  got = snap.store_nonempty(gc)
  imports = sorted({s.module for s in gc._IMPORTS})
  # generator's own list of kept bindings
  exp = expected_store(reduced)
  if ctx.check(got == exp, 'store-differs-from-kept-bindings', '%s: store differs from the kept bindings: %r\n%s' % (where, snap.diff(got, exp), text)):
    for st in reduced:
      for v in ([st[4]] if st[0] == 'bind' else ([st[2]] if st[0] == 'macro' else ([x for _, x in st[3]] if st[0] == 'block' else []))):
        for name, pos, inkey in positions_in(v):
          if name in UNKNOWN_R:
            ctx.bucket('placeholder:kept:' + pos)
            if inkey and st[0] == 'macro':
              ctx.bucket('placeholder:kept-in-dict-key-of-macro')
  # placeholders raise on use and at finalize (on the configuration the entry point produced)
  fin = final_bindings(reduced)
  if entry == 'two-parses' and any(n in UNKNOWN_R for d in final_bindings([st for st in stmts[:case['cuts'][0]] if st in reduced]).values()
                                   for v in d.values() for n, _ in refs_in(v)):
    ctx.bucket('entry:second-parse-onto-live-placeholders')
  fin_raised = check_placeholders(ctx, fin, text)
  # reduced-text oracle (always the plain parse_config of one text)
  gin.clear_config()
  gin.parse_config(render(reduced), skip_unknown=skip)
  ctx.count('reduced_compared')
  red = snap.store_nonempty(gc)
  ctx.check(got == red and imports == sorted({s.module for s in gc._IMPORTS}), 'store-differs-from-reduced-text',
            'parse(text) != parse(reduced text) (%s): %r\n%s' % (where, snap.diff(got, red), text))
  red_raised = False
  try:
    gin.finalize()
  except Exception:  # pylint: disable=broad-except
    red_raised = True
  ctx.bucket('finalize:same-outcome-as-reduced')
  ctx.check(fin_raised == red_raised, 'finalize-outcome-differs-from-reduced-text',
            'finalize() %s on the parsed text but %s on the reduced text (%s)\n%s' % ('raised' if fin_raised else 'passed', 'raised' if red_raised else 'passed', where, text))
  ctx.bucket('outcome:skipped' if len(reduced) != len(stmts) else 'outcome:all-known')
  if entry != 'text' and len(reduced) != len(stmts):
    ctx.bucket('entry:other-than-text-skipped')
  gin.clear_config()
  probes.RECORDER.clear()


# ---------------------------------------------------------------------------
# dynamic registration


def gen_dynamic(rng):
  stmts = []
  imports = rng.sample(['import PK.alpha', 'from PK import beta as B', 'from PK.sub import gamma', 'import PK.sub.alpha as SA'], rng.choice([2, 3, 4]))
  if rng.random() < 0.4:
    imports.insert(rng.randrange(len(imports) + 1), 'import vf_missing_mod_dyn')
  avail = {}
  if 'import PK.alpha' in imports:
    avail.update({'PK.alpha.fa': 'x', 'PK.alpha.K': 'a', 'PK.alpha.K.meth': 'm', 'PK.alpha.K.Inner': 'i'})
  if 'from PK import beta as B' in imports:
    avail.update({'B.fb': 'x', 'B.K': 'a'})
  if 'from PK.sub import gamma' in imports:
    avail.update({'gamma.fg': 'x'})
  if 'import PK.sub.alpha as SA' in imports:
    avail.update({'SA.fa': 'x', 'SA.Deep': 'q'})
  bad = {'nothere.f': 'x', 'gamma2.fg': 'x', 'B.K.nometh': 'm', 'SA.fa.oops': 'x'}
  if 'import PK.alpha' in imports:
    bad['PK.alpha.nofn'] = 'x'
  else:
    # nothing binds the name PK (once `import PK.alpha` binds it, PK.beta is reachable whenever beta was imported by anyone)
    bad['PK.alpha.fa'] = 'x'
    bad['PK.beta.fb'] = 'x'
  if 'from PK import beta as B' not in imports:
    bad.pop('B.K.nometh')
    bad['B.fb'] = 'x'
  if 'import PK.sub.alpha as SA' not in imports:
    bad.pop('SA.fa.oops')
    bad['SA.fa'] = 'x'
  for _ in range(rng.choice([2, 3, 5, 7])):
    if rng.random() < 0.6 and avail:
      t = rng.choice(sorted(avail))
      stmts.append(['bind', rng.choice(['', 'sc']), t, avail[t], rng.randrange(100), True])
    else:
      t = rng.choice(sorted(bad))
      if t in avail:
        continue
      stmts.append(['bind', rng.choice(['', 'sc']), t, bad[t], rng.randrange(100), False])
  if rng.random() < 0.5 and 'gamma.fg' in avail:
    ref_t = rng.choice(['nothere.g', 'PK.alpha.nofn'] + ([k for k in avail if k.endswith('fb') or k.endswith('fa')]))
    stmts.append(['bindref', rng.choice(['', '', 'sc']), 'gamma.fg', 'ref', ref_t, ref_t in avail, rng.choice(['call', 'call', 'plain', 'list', 'dict', 'tuple', 'dictkey', 'tuplekey'])])
  return {'mode': 'dynamic', 'imports': imports, 'stmts': stmts, 'skip': rng.choice([True, True, False, 'list', 'list', 'tuple', 'set']),
          'full': rng.random() < 0.6, 'mask': [rng.random() < 0.7 for _ in range(8)], 'list_known': rng.random() < 0.3,
          'entry': rng.choice(['text', 'text', 'file', 'fab']), 'real_files': rng.random() < 0.2}


REF_SHAPES = {'call': '@%s()', 'plain': '@%s', 'list': '[1, @%s()]', 'dict': "{'k': @%s}", 'tuple': '(1, @%s)', 'dictkey': '{@%s: 1}',
              'tuplekey': "{(1, @%s()): 'v'}"}


def ref_canon(shape, c):
  """Canonical stored form of the bindref value, given the canonical form `c(evaluate)` of the reference itself."""
  if shape == 'call':
    return c(True)
  if shape == 'plain':
    return c(False)
  if shape == 'list':
    return ('list', (canon(1), c(True)))
  if shape == 'tuple':
    return ('tuple', (canon(1), c(False)))
  if shape == 'dictkey':
    return ('dict', ((c(False), canon(1)),))
  if shape == 'tuplekey':
    return ('dict', ((('tuple', (canon(1), c(True))), canon('v')),))
  return ('dict', ((canon('k'), c(False)),))


def anon_refs(c):
  """The canonical value with the selector of every real reference blanked (how dynamic registration names a configurable is not C15's business)."""
  if isinstance(c, tuple) and len(c) == 3 and c[0] == 'ref':
    return ('ref', '*', c[2])
  if isinstance(c, tuple):
    return tuple(anon_refs(x) for x in c)
  return c


def dyn_render(case, pk, stmts):
  lines = ['from __gin__ import dynamic_registration'] + [i.replace('PK', pk) for i in case['imports']]
  for st in stmts:
    if st[0] == 'bind':
      lines.append('%s%s.%s = %d' % (st[1] + '/' if st[1] else '', st[2].replace('PK', pk), st[3], st[4]))
    else:
      lines.append('%s%s.%s = %s' % (st[1] + '/' if st[1] else '', st[2], st[3], REF_SHAPES[st[6]] % st[4].replace('PK', pk)))
  return '\n'.join(lines) + '\n'


def run_dynamic(ctx, case):
  import importlib
  import gin
  from gin import config as gc
  ctx.bucket('mode:dynamic')
  pk = _S['tree'].new_package('c15')
  stmts = case['stmts']
  unknown_names = sorted({(st[2] if st[0] == 'bind' else st[4]).replace('PK', pk) for st in stmts if not st[5]})
  has_missing_import = any('vf_missing_mod_dyn' in i for i in case['imports'])
  uncovered = []
  if case['skip'] in COLL:
    listed = list(unknown_names) if case['full'] else [n for n, m in zip(unknown_names, case['mask']) if m]
    known_names = sorted({(st[2] if st[0] == 'bind' else st[4]).replace('PK', pk) for st in stmts if st[5]})
    if case['list_known'] and known_names and listed:
      listed.append(known_names[0])   # listing a known name must not make it skippable
      ctx.bucket('dynamic:list-includes-known-name')
    if not listed and has_missing_import:
      listed = ['vf.c15.name_not_in_the_text']   # grey (not asserted): whether an EMPTY collection still skips imports of missing modules
    uncovered = [n for n in unknown_names if n not in listed]
    skip = {'list': list, 'tuple': tuple, 'set': set}[case['skip']](listed)
    ctx.bucket('skip:' + case['skip'])
    ctx.bucket('dynamic:skip-' + case['skip'])
    if not listed:
      ctx.bucket('skip:empty-collection')
    elif uncovered:
      ctx.bucket('list:partial')
  else:
    skip = case['skip']
    ctx.bucket('skip:' + str(skip))
  for st in stmts:
    if not st[5]:
      t = st[2] if st[0] == 'bind' else st[4]
      ctx.bucket('dynamic:attribute-missing' if t in ('PK.alpha.nofn', 'B.K.nometh', 'SA.fa.oops') else 'dynamic:name-not-imported')
  if has_missing_import:
    ctx.bucket('dynamic:missing-import')
  all_ok = all(st[5] for st in stmts) and not has_missing_import
  text = dyn_render(case, pk, stmts)
  reduced_stmts = [st for st in stmts if st[0] == 'bind' and st[5] or st[0] == 'bindref']
  reduced_case = dict(case, imports=[i for i in case['imports'] if 'vf_missing_mod_dyn' not in i])
  reduced = dyn_render(reduced_case, pk, reduced_stmts)
  entry = case.get('entry', 'text')
  ctx.fp('dynamic', tuple(case['imports']), tuple((st[0], st[2], st[5]) for st in stmts), str(case['skip']), bool(uncovered), entry)
  ctx.sample({'mode': 'dynamic', 'skip_unknown': repr(skip), 'entry': entry, 'text': text}, cap=3)

  def parse(t, s, how='text'):
    gin.clear_config()
    try:
      if how == 'file':
        gin.parse_config_file(_write('d', t, bool(case.get('real_files'))), skip_unknown=s)
      elif how == 'fab':
        gin.parse_config_files_and_bindings([_write('d', t, bool(case.get('real_files')))], None, finalize_config=False, skip_unknown=s)
      else:
        gin.parse_config(t, skip_unknown=s)
      return None
    except Exception as e:  # pylint: disable=broad-except
      return e

  # an unknown name (as a target or inside a value) not covered by the setting is an error; so is a missing import when nothing is skipped
  expect_error = (skip is False and not all_ok) or bool(uncovered)
  # the bindref statement holds a reference: unknown reference -> placeholder when skipping
  e1 = parse(text, skip, entry)
  ctx.bucket('dynamic:first-use')
  if entry != 'text':
    ctx.bucket('dynamic:entry-' + entry)
  if expect_error:
    ctx.bucket('outcome:error-unlisted')
    if uncovered:
      ctx.bucket('dynamic:partial-list-error')
    ctx.check(e1 is not None, 'unknown-name-not-covered-by-setting-accepted',
              'dynamic (entry %s): unknown names %r not covered by skip_unknown=%r, yet accepted\n%s' % (entry, uncovered or unknown_names, skip, text))
    gin.clear_config()
    return
  if not ctx.check(e1 is None, 'skippable-text-rejected', 'dynamic first-use parse (entry %s) with skip_unknown=%r raised %s: %s\n%s' % (entry, skip, type(e1).__name__, str(e1)[:300], text)):
    return
  first = snap.store_nonempty(gc)
  # the generator's own expectation: every resolvable binding applied under the complete name of the resolved object
  kept = [st for st in stmts if st[0] == 'bind' and st[5]]
  nkept = len({(st[1], st[2], st[3]) for st in kept})
  got_n = sum(len(d) for (sc, sel), d in first.items() if not sel.endswith('gamma.fg') or True) - sum(1 for st in stmts if st[0] == 'bindref')
  ctx.check(got_n == nkept, 'dynamic-first-use-binding-of-resolvable-name-dropped',
            'dynamic registration, skip_unknown=%r: %d bindings of resolvable names in the text, %d in the store: %r\n%s' % (skip, nkept, got_n, first, text))
  # the binding holding a reference: a placeholder for an unknown name (kept in the store, raising on use and at finalize), a real reference otherwise
  for st in stmts:
    if st[0] != 'bindref':
      continue
    written = st[4].replace('PK', pk)
    stored = first.get((st[1], pk + '.sub.gamma.fg'), {}).get('ref')
    if st[5]:
      want = ref_canon(st[6], lambda ev: ('ref', '*', ev))
      ctx.bucket('dynamic:known-reference-kept')
      if st[6] in ('dictkey', 'tuplekey'):
        ctx.bucket('dynamic:known-reference-in-dict-key')
      ctx.check(anon_refs(stored) == want, 'dynamic-known-reference-not-kept-as-reference',
                'dynamic, skip_unknown=%r: the binding of gamma.fg.ref holds %r, expected the reference %r\n%s' % (skip, stored, want, text))
      continue
    want = ref_canon(st[6], lambda ev: ('unk', written, ev))
    ctx.count('placeholders_checked')
    ctx.bucket('dynamic:placeholder-in-store')
    if st[6] in ('dictkey', 'tuplekey'):
      ctx.bucket('dynamic:placeholder-in-dict-key')
    ctx.check(stored == want, 'dynamic-placeholder-not-kept',
              'dynamic, skip_unknown=%r: the binding of gamma.fg.ref holds %r, expected the placeholder %r\n%s' % (skip, stored, want, text))
    fg = importlib.import_module(pk + '.sub.gamma').fg
    exc = None
    try:
      with gin.config_scope(st[1] or None):
        gin.get_configurable(fg)()
    except Exception as e:  # pylint: disable=broad-except
      exc = e
    if ctx.check(exc is not None, 'placeholder-use-did-not-raise', 'dynamic: gamma.fg ran under scope %r although its argument holds a placeholder for %r\n%s' % (st[1], written, text)):
      ctx.bucket('dynamic:placeholder-use-raises')
      ctx.check(isinstance(exc, ValueError) and 'No configurable matching' in str(exc), 'placeholder-error-message', 'dynamic use error: %s: %s' % (type(exc).__name__, str(exc)[:200]))
      ctx.check(written in str(exc), 'placeholder-error-names-other-selector', 'dynamic use: the error does not name %r: %s\n%s' % (written, str(exc)[:300], text))
    exc = None
    try:
      gin.finalize()
    except Exception as e:  # pylint: disable=broad-except
      exc = e
    if ctx.check(exc is not None, 'finalize-accepted-unknown-reference', 'dynamic: finalize() succeeded although gamma.fg.ref holds a placeholder for %r\n%s' % (written, text)):
      ctx.bucket('dynamic:placeholder-finalize-raises')
      ctx.check(isinstance(exc, ValueError) and 'No configurable matching' in str(exc), 'placeholder-error-message', 'dynamic finalize error: %s: %s' % (type(exc).__name__, str(exc)[:200]))
      if ctx.check(written in str(exc), 'placeholder-error-names-other-selector', 'dynamic finalize: the error does not name %r: %s\n%s' % (written, str(exc)[:300], text)):
        ctx.check(binding_in(str(exc), st[1], pk + '.sub.gamma.fg', 'ref'), 'finalize-error-names-other-binding',
                  'dynamic finalize: the error does not name the binding %s%s.ref: %s\n%s' % (st[1] + '/' if st[1] else '', 'gamma.fg', str(exc)[:300], text))
    ctx.check(not gin.config_is_locked(), 'rejected-finalize-locked', 'finalize rejected but config locked')
  e2 = parse(text, skip)
  ctx.bucket('dynamic:repeat')
  second = snap.store_nonempty(gc)
  ctx.check(e2 is None and second == first, 'dynamic-result-depends-on-earlier-parses',
            'the same text gives a different configuration once its names are registered: %r' % (snap.diff(first, second),), {'text': text})
  e3 = parse(reduced, skip)
  ctx.count('reduced_compared')
  red = snap.store_nonempty(gc)
  ctx.check(e3 is None and red == first, 'store-differs-from-reduced-text', 'dynamic: parse(text) != parse(reduced): %r\n%s\n--- reduced\n%s' % (snap.diff(first, red), text, reduced))
  if all_ok:
    e4 = parse(text, False)
    ctx.bucket('dynamic:all-resolvable-equals-noskip')
    ctx.bucket('outcome:all-known')
    ctx.check(e4 is None and snap.store_nonempty(gc) == first, 'skip-setting-changes-fully-resolvable-config',
              'every name resolves, yet skip_unknown=%r and False give different configurations: %r' % (skip, snap.diff(first, snap.store_nonempty(gc))))
  else:
    ctx.bucket('outcome:skipped')
  gin.clear_config()


def iter_cases(ctx, rng, n):
  for i in range(n):
    if i % 11 == 10:
      yield {'mode': 'late-known', 'dynamic': rng.random() < 0.5, 'skip': rng.choice([True, 'list', False]), 'again': rng.random() < 0.5,
             'early_block': rng.random() < 0.5, 'scope': rng.choice(['', '', 'sc'])}
      continue
    yield gen_static(rng) if i % 3 else gen_dynamic(rng)


def run_late_known(ctx, case):
  """Known-ness is decided statement by statement: a name that is unknown where it first appears becomes known after a later import."""
  import itertools
  import os
  import gin
  from gin import config as gc
  gin.clear_config()
  ctx.bucket('mode:late-known-dynamic' if case['dynamic'] else 'mode:late-known-static')
  n = next(_S.setdefault('late_ctr', itertools.count(1)))
  if case['dynamic']:
    pk = _S['tree'].new_package('c15l')
    head = 'from __gin__ import dynamic_registration\n'
    early, imp, late, target = 'LA.fa.x = 1', 'import %s.alpha as LA' % pk, 'LA.fa.y = 2', 'LA.fa'
    full = None
  else:
    mod = 'vfc15late%d_%s' % (n, ctx.uid)
    fn = 'late_fn%d_%s' % (n, ctx.uid)
    with open(os.path.join(_S['tree'].root, mod + '.py'), 'w') as fh:
      fh.write('import gin\n@gin.configurable\ndef %s(x=0, y=0):\n  return (x, y)\n' % fn)
    import importlib
    importlib.invalidate_caches()
    head = ''
    early, imp, late, target = '%s.x = 1' % fn, 'import ' + mod, '%s.y = 2' % fn, fn
  pre = case.get('scope', '') + '/' if case.get('scope') else ''
  early, late = pre + early, pre + late
  again = early.replace('= 1', '= 3') + '\n' if case['again'] else ''
  if case.get('early_block'):
    # the statement that comes too early is written as a block (`name:` + indented member): the flat statements after the import follow it directly
    ctx.bucket('late-known:early-statement-is-a-block')
    early = '%s:\n  x = 1' % early[:-len('.x = 1')]
  text = head + early + '\n' + imp + '\n' + late + '\n' + again
  skip = [target] if case['skip'] == 'list' else case['skip']
  ctx.fp('late-known', case['dynamic'], str(case['skip']), case['again'])
  try:
    gin.parse_config(text, skip_unknown=skip)
    exc = None
  except Exception as e:  # pylint: disable=broad-except
    exc = e
  if not skip:
    ctx.check(exc is not None, 'unknown-name-not-covered-by-setting-accepted', 'late-known: %r unknown at its first statement, skip_unknown=False, yet accepted\n%s' % (target, text))
    return
  if not ctx.check(exc is None, 'skippable-text-rejected', 'late-known: raised %s: %s\n%s' % (type(exc).__name__, str(exc)[:300], text)):
    return
  got = {prm: v for (sc, sel), d in gc._CONFIG.items() for prm, v in d.items()}
  want = {'y': 2, 'x': 3} if case['again'] else {'y': 2}
  ctx.count('reduced_compared')
  ctx.check(got == want, 'binding-after-import-made-name-known-not-applied',
            'late-known: the statement before the import must be skipped, those after it applied: store %r, expected %r\n%s' % (got, want, text))
  # the skipped statement left nothing behind: the configuration holds bindings of known configurables only, finalize() has nothing to report
  try:
    gin.finalize()
    exc = None
  except Exception as e:  # pylint: disable=broad-except
    exc = e
  ctx.bucket('late-known:finalize-passes')
  ctx.check(exc is None, 'finalize-rejected-config-without-placeholders', 'late-known: finalize() raised %s: %s\n%s' % (type(exc).__name__, str(exc)[:300], text))
  gin.clear_config()


def run_case(ctx, case):
  if case['mode'] == 'late-known':
    return run_late_known(ctx, case)
  if case['mode'] == 'static':
    run_static(ctx, case)
  else:
    run_dynamic(ctx, case)


LEVEL_TEXT = ('Runtime metamorphic monitor: for every generated text and skip_unknown setting the real parse is compared with the parse of the reduced '
              'text (statements deleted by an independent rule) and with the generator\'s own list of kept bindings; placeholders are exercised (use and '
              'finalize must raise "No configurable matching"); under dynamic registration each text is parsed as first use (fresh package), again after '
              'registration, in reduced form and, when everything resolves, with skip_unknown=False. The text reaches gin through parse_config, '
              'parse_config_file, include statements (nested), parse_config_files_and_bindings or two successive parses; placeholders are used through '
              'every consumer and scope that an independent evaluation model says meets one (also through %macros), and the errors must name an unknown '
              'selector that is really there (at finalize: with a binding holding it); dynamic registration also with partial lists/tuples/sets '
              '(unlisted -> error) and with the placeholder checked in the store, on use and at finalize. References sit in every position of the value '
              'syntax, including dict keys and tuples used as dict keys (model: children()/positions_in()).')
LEVEL_NOTE = ('Trusted: the deletion rule in analyse_static/gen_dynamic and the evaluation model merged()/reach(). In list mode, unlisted unknown references '
              'inside a binding that is itself skipped are not generated (DESIGN X). Not asserted: whether an EMPTY collection still skips imports of '
              'missing modules; whether a placeholder keeps its scope; the selector under which dynamic registration stores a known reference.')
TECHNIQUE = 'runtime metamorphic monitor (text vs reduced text, first use vs repeat parse) over skip_unknown settings'
DESIGN_REF = 'DESIGN.md section 4, C15'
