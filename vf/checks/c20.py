"""C20 — clear_config returns the configuration to its pristine state."""
import itertools

from vf import probes, snap

ID = 'C20'
LEVEL = 'exploration'
RULE = ('random histories over {parse ok (bindings, macros, imports, references), parse failing midway (syntax / semantic), bind_parameter, probe calls in '
        'scopes (operative record), finalize ok / rejected, unlock_config block, singleton use, gin.constant incl. overlapping names defined in '
        'interactive mode, constants_from_enum} followed by clear_config() or clear_config(clear_constants=True), possibly several rounds; oracle: the call '
        'does not raise and every observable equals the pristine baseline recorded in the same worker right after registration: config_str, '
        'operative_config_str, lock flag, every previously bound key unqueryable, probes receive only defaults, singletons reconstructed, no recorded '
        'imports, constants identical (same names, same objects) or exactly {gin.REQUIRED}, configurables still resolve. '
        'distinct = (operation-kind sequence, clear flavour)')
TIERS = {
    'quick': {'workers': 8, 'cases': 2800, 'timeout': 600},
    'thorough': {'workers': 16, 'cases': 20000, 'timeout': 3000},
}
OPS = ['parse', 'parse-fails', 'bind', 'call', 'finalize', 'finalize-rejected', 'unlock', 'singleton', 'singleton-ctor-fails', 'constant',
       'constant-interactive-overlap', 'enum', 'import', 'call-then-bind-then-call']
# further workloads for the property's online monitor (vf/online.py): the repository's tests and other checks' generated cases
ONLINE = {'which': ['clear'], 'foreign': ['C01', 'C04', 'C05', 'C06', 'C07', 'C10', 'C11', 'C12', 'C13', 'C17'], 'n': {'quick': 30, 'thorough': 400}}
REQUIRED_BUCKETS = ['op:' + o for o in OPS] + ['clear:keep-constants', 'clear:clear-constants', 'state:locked-at-clear', 'state:operative-nonempty-at-clear',
                                                'state:imports-at-clear', 'state:singletons-at-clear', 'state:overlapping-constants-at-clear', 'rounds:2+', 'state:abbreviation-looked-up-before-clear', 'state:failed-singleton-constructor-before-clear']
ORACLE_COUNTERS = ['oracle_evals', 'clears_checked']
_S = {}
_n = itertools.count(1)
SINGLETON_CONFIG = ('shared/gin.singleton.constructor = @c20ctor\ndeep/er/gin.singleton.constructor = @c20ctor\n'
                    'c20use.s = [@shared/gin.singleton(), @deep/er/gin.singleton()]\n')


def setup(ctx):
  import gin
  from gin import config as gc
  _S['f'] = probes.build({'shape': 'fn', 'api': 'configurable', 'name': 'c20f', 'module': 'c20', 'pos': [], 'dflt': [['x', 0], ['y', 'd']], 'varargs': False,
                          'kwonly': [], 'varkw': False})
  _S['g'] = probes.build({'shape': 'init', 'api': 'external', 'name': 'c20g', 'module': 'c20', 'pos': [], 'dflt': [['a', 1]], 'varargs': False, 'kwonly': [],
                          'varkw': False})

  @gin.configurable('c20ctor', module='c20')
  def ctor():
    return object()

  @gin.configurable('c20badctor', module='c20')
  def badctor(must_be_bound):       # fails unless a binding exists
    return object()

  @gin.configurable('c20use', module='c20')
  def use(s=None):
    return s

  _S['use'] = use
  gin.clear_config(clear_constants=True)
  _S['pristine'] = observe(gin, gc)


def observe(gin, gc):
  return {'config_str': gin.config_str(), 'operative': gin.operative_config_str(), 'locked': gin.config_is_locked(), 'store': snap.store_nonempty(gc),
          'imports': sorted(s.module for s in gc._IMPORTS), 'singletons': len(gc._SINGLETONS), 'provenance': {k: v for k, v in gc._CONFIG_PROVENANCE.items() if v}}


def iter_cases(ctx, rng, n):
  for i in range(n):
    rounds = []
    for _ in range(rng.choice([1, 1, 2, 3])):
      ops = [rng.choice(OPS) for _ in range(rng.randrange(1, 9))]
      rounds.append({'ops': ops, 'clear_constants': rng.random() < 0.4})
    yield {'rounds': rounds}


def constants_view(gc):
  return {k: v for k, v in gc._CONSTANTS.items()}


def run_case(ctx, case):
  import enum
  import gin
  from gin import config as gc
  f, g, use = _S['f'], _S['g'], _S['use']
  if len(case['rounds']) >= 2:
    ctx.bucket('rounds:2+')
  shape = []
  for rnd in case['rounds']:
    bound_keys = []
    short_names = []
    used_scopes = set()
    failed_singleton = False
    pre_singleton = None
    overlapping = False
    for op in rnd['ops']:
      ctx.bucket('op:' + op)
      shape.append(op)
      k = next(_n)
      try:
        if op == 'parse':
          gin.parse_config("c20f.x = %d\nsc/c20f.y = [1, @c20g()]\nc20m = 'macro'\nc20g.a = %%c20m\n" % k)
          bound_keys += ['c20f.x', 'sc/c20f.y', 'c20g.a']
        elif op == 'parse-fails':
          try:
            gin.parse_config("c20f.y = 'before-fault'\n" + ("c20f.x = [1, 2\n" if k % 2 else "c20f.nope = 1\n"))
          except Exception:  # pylint: disable=broad-except
            pass
          bound_keys += ['c20f.y']
        elif op == 'bind':
          gin.bind_parameter('a/b/c20f.x', object() if k % 3 == 0 else k)
          bound_keys += ['a/b/c20f.x']
        elif op == 'call':
          used_scopes.add(['sc', 'a/b', ''][k % 3])
          with gin.config_scope(['sc', 'a/b', ''][k % 3] or None):
            try:
              f.conf()
              g.conf()
            except TypeError:
              pass  # a history may leave a reference to an unbound macro in place: that call fails, which is part of the history
        elif op == 'finalize':
          try:
            gin.finalize()
          except ValueError:
            pass
        elif op == 'finalize-rejected':
          with gin.unlock_config():
            gin.parse_config('c20f.y = %c20_never_bound_macro')
          bound_keys += ['c20f.y']
          try:
            gin.finalize()
          except (ValueError, RuntimeError):
            pass
        elif op == 'unlock':
          with gin.unlock_config():
            gin.bind_parameter('c20f.x', -k)
          bound_keys += ['c20f.x']
        elif op == 'singleton':
          with gin.unlock_config():
            gin.parse_config(SINGLETON_CONFIG)
          pre_singleton = use()
          bound_keys += ['c20use.s']
        elif op == 'singleton-ctor-fails':
          with gin.unlock_config():
            gin.parse_config('shared/gin.singleton.constructor = @c20badctor\ndeep/er/gin.singleton.constructor = @c20badctor\n'
                             'c20use.s = [@shared/gin.singleton(), @deep/er/gin.singleton()]\n')
          try:
            use()
          except TypeError:
            pass
          failed_singleton = True
          bound_keys += ['c20use.s']
        elif op == 'call-then-bind-then-call':
          sc = ['sc', 'a/b', 'x/y/z'][k % 3]
          with gin.config_scope(sc):
            try:
              f.conf()
              g.conf()
            except TypeError:
              pass
          with gin.unlock_config():
            gin.bind_parameter('%s/c20f.x' % sc, k)
            gin.bind_parameter('c20g.a', -k)
          with gin.config_scope(sc):
            try:
              f.conf()
              g.conf()
              gin.get_bindings('c20.c20f')
            except TypeError:
              pass
          bound_keys += ['%s/c20f.x' % sc, 'c20g.a']
          used_scopes.add(sc)
        elif op == 'constant':
          gin.constant('c20.k%d.CONST%d' % (k, k), ('const', k))
          # look it up through abbreviations, as config files do
          ctx.check(gin.query_parameter('CONST%d' % k) == ('const', k) and gin.query_parameter('k%d.CONST%d' % (k, k)) == ('const', k), 'constant-lookup', 'lookup by suffix failed')
          with gin.unlock_config():
            gin.parse_config('c20f.y = %%CONST%d' % k)
          bound_keys += ['c20f.y']
          short_names.append('CONST%d' % k)
        elif op == 'constant-interactive-overlap':
          with gin.config.interactive_mode():
            gin.constant('c20.i%d.OVER%d' % (k, k), ('outer', k))
            gin.constant('OVER%d' % k, ('inner', k))
          overlapping = True
        elif op == 'enum':
          E = enum.Enum('E%d' % k, 'RED GREEN')
          gin.config.constants_from_enum(E, module='c20.enums')
        elif op == 'import':
          with gin.unlock_config():
            gin.parse_config('import os.path\nfrom json import decoder as dec%d\n' % k)
      except RuntimeError:
        pass  # mutation attempted while locked: part of the history
    # ---- state at the moment of the clear
    if gin.config_is_locked():
      ctx.bucket('state:locked-at-clear')
    if gc._OPERATIVE_CONFIG:
      ctx.bucket('state:operative-nonempty-at-clear')
    if gc._IMPORTS:
      ctx.bucket('state:imports-at-clear')
    if gc._SINGLETONS:
      ctx.bucket('state:singletons-at-clear')
    if overlapping:
      ctx.bucket('state:overlapping-constants-at-clear')
    consts_before = constants_view(gc)
    cc = rnd['clear_constants']
    ctx.bucket('clear:clear-constants' if cc else 'clear:keep-constants')
    ctx.count('clears_checked')
    try:
      gin.clear_config(clear_constants=True) if cc else gin.clear_config()
      raised = None
    except Exception as e:  # pylint: disable=broad-except
      raised = e
    key_suffix = ':overlapping-constants' if (overlapping or has_overlap(consts_before)) and not cc else ''
    ctx.check(raised is None, 'clear-config-raised' + key_suffix, 'clear_config(clear_constants=%s) raised %s: %s' % (cc, type(raised).__name__, str(raised)[:200]))
    now = observe(gin, gc)
    pristine = _S['pristine']
    d = {k: (now[k], pristine[k]) for k in pristine if now[k] != pristine[k]}
    ctx.check(not d, 'state-left-after-clear' + (key_suffix if raised is not None else ''),
              'after clear_config(clear_constants=%s) these observables differ from the pristine baseline (now, pristine): %r' % (cc, {k: repr(v)[:300] for k, v in d.items()}))
    consts_after = constants_view(gc)
    if cc:
      ctx.check(set(consts_after) == {'gin.REQUIRED'} and consts_after['gin.REQUIRED'] is gin.REQUIRED, 'constants-after-clear',
                'clear_constants=True left constants %r' % sorted(consts_after))
    else:
      ctx.check(set(consts_after) == set(consts_before) and all(consts_after[k] is consts_before[k] for k in consts_before), 'constants-after-clear',
                'clear_config() changed the constants: before %r after %r' % (sorted(consts_before), sorted(consts_after)))
    if raised is None:
      for key in set(bound_keys):
        try:
          gin.query_parameter(key)
          ctx.check(False, 'binding-survived-clear', 'query_parameter(%r) still answers after clear_config' % key)
        except ValueError:
          ctx.count('oracle_evals')
      for sc in sorted(used_scopes | {''}):
        mark = probes.RECORDER.mark()
        with gin.config_scope(sc or None):
          f.conf()
          g.conf()
          gb = gin.get_bindings('c20.c20f')
        recs = probes.RECORDER.since(mark)
        ctx.check([r.received for r in recs] == [{'x': 0, 'y': 'd'}, {'a': 1}] and gb == {}, 'probe-received-non-default-after-clear',
                  'after clear_config, under scope %r probes received %r, get_bindings %r' % (sc, [r.received for r in recs], gb))
      # what those calls recorded is what they record in a pristine process: the signature defaults
      op_text = gin.operative_config_str()
      vals = sorted(set(l.split(' = ', 1)[1] for l in op_text.splitlines() if ' = ' in l and not l.startswith('#')))
      ctx.check(vals == sorted(["'d'", '0', '1']), 'operative-record-after-clear-shows-old-values',
                'after clear_config a plain call records values other than the signature defaults: %r\n%s' % (vals, op_text[:500]))
      if failed_singleton:
        ctx.bucket('state:failed-singleton-constructor-before-clear')
        gin.clear_config(clear_constants=cc)
        gin.parse_config(SINGLETON_CONFIG)
        try:
          ok = all(o is not None for o in use())
        except Exception as e:  # pylint: disable=broad-except
          ok = False
          ctx.check(False, 'singleton-unusable-after-clear', 'a singleton whose constructor failed before clear_config cannot be constructed afterwards: %r' % (e,))
      if pre_singleton is not None:
        gin.parse_config(SINGLETON_CONFIG)
        again = use()
        ctx.check(not any(a is b for a in again for b in pre_singleton), 'singleton-survived-clear', 'a singleton constructed before clear_config was delivered again')
      ctx.check(gin.get_configurable('c20.c20f') is not None and gin.get_configurable(g.original) is not None, 'configurable-lost', 'registered configurables no longer resolve')
      if cc:
        # the cleared constants are really gone: their abbreviations are free again (as macro names and for new constants)
        for sn in short_names:
          ctx.bucket('state:abbreviation-looked-up-before-clear')
          try:
            gin.constant(sn, 'redefined')
            ok = gin.query_parameter(sn) == 'redefined'
          except Exception as e:  # pylint: disable=broad-except
            ok = False
          ctx.check(ok, 'cleared-constant-still-answers', 'after clear_config(clear_constants=True) the abbreviation %s is still taken by the cleared constant' % sn)
          try:
            gin.parse_config('c20f.y = %%c20x.%s' % sn)   # an unrelated name with that suffix is a plain macro now
            ctx.check(False, 'cleared-constant-still-answers', 'c20x.%s resolved' % sn) if False else None
          except Exception as e:  # pylint: disable=broad-except
            ctx.check(False, 'cleared-constant-still-answers', 'parsing %%c20x.%s after the clear raised %r' % (sn, e))
      # leave the round clean (the probe calls above recorded operative entries)
      gin.clear_config(clear_constants=cc)
    else:
      # resynchronise so that one defect is reported once per round
      gc._CONSTANTS.clear()
      gc._CONSTANTS['gin.REQUIRED'] = gin.REQUIRED
      gin.clear_config(clear_constants=True)
  ctx.fp(tuple(shape), tuple(r['clear_constants'] for r in case['rounds']))
  ctx.sample({'rounds': case['rounds']}, cap=3)
  gin.clear_config(clear_constants=True)


def has_overlap(consts):
  names = list(consts)
  return any(a != b and a.endswith('.' + b) for a in names for b in names)


LEVEL_TEXT = ('Runtime monitor comparing, after every clear_config at the end of a generated history (failed parses, locked configs, operative '
              'records, imports, singletons, overlapping interactive-mode constants, several rounds), the full set of observables with the pristine '
              'baseline recorded in the same worker right after registration, plus constant identity and fresh-singleton checks.')
LEVEL_NOTE = 'Trusted: the observation function (public API + private stores for a stronger snapshot). A fresh process is approximated by the worker\'s own post-registration baseline.'
TECHNIQUE = 'runtime history monitor: observables after clear_config vs pristine baseline'
DESIGN_REF = 'DESIGN.md section 4, C20'
