"""C20 — clear_config returns the configuration to its pristine state."""
import atexit
import itertools
import json
import os
import shutil
import subprocess
import tempfile

from vf import core, probes, snap

ID = 'C20'
LEVEL = 'exploration'
RULE = ('random histories over {parse ok (bindings, macros, imports, references), parse failing midway (syntax / semantic / failing import), parse_config_file '
        '(with include), parse_config_files_and_bindings(finalize_config=True), bind_parameter (also of a macro, of an unknown configurable, under lock), '
        'probe calls in scopes (operative record), a configurable raising mid-call, finalize ok / rejected / with a hook registered mid-history, '
        'unlock_config block, singleton use (reference and singleton_value), gin.constant incl. duplicates and overlapping names defined in interactive mode '
        '(exact-match and ambiguous overlaps, either order), constants with special values or names (the gin.REQUIRED object under another name - bound '
        'and overridden or left in place -, falsy values, last component REQUIRED, gin.* namespace), constants_from_enum, configurables registered mid-history (external_configurable / register / '
        'configurable / dynamic-registration parse)} followed by clear_config() or clear_config(clear_constants=True), possibly several rounds; oracle: a '
        'small model of the round (store, lock, macros, constants) predicts finalize accepted / rejected (unbound macro, binding left on a constant that is gin.REQUIRED), the bindings in effect and the lock flag before '
        'the clear; the clear does not raise and every observable equals the pristine baseline recorded in the same worker right after registration: '
        'config_str, operative_config_str, lock flag, every previously bound key unqueryable, probes receive only defaults, singletons reconstructed, no '
        'recorded imports, constants identical (same names, same objects; every abbreviation of every surviving constant resolves / is ambiguous exactly as '
        'the suffix model says, through query_parameter and through a parsed %NAME delivered to a call) or exactly {gin.REQUIRED} (every abbreviation free '
        'again), configurables registered before and during the history still resolve and can be bound; fixed programs of operations run right after the '
        'clear (parse, bind, finalize, calls, queries, config_str, operative_config_str) give step by step what they give in a fresh interpreter with the '
        'same registrations. distinct = (operation-kind sequence, clear flavour)')
TIERS = {
    'quick': {'workers': 8, 'cases': 2500, 'timeout': 600},      # 2800 before the histories grew (audit extension): same budget
    'thorough': {'workers': 16, 'cases': 20000, 'timeout': 3000},
}
OPS = ['parse', 'parse-fails', 'bind', 'call', 'finalize', 'finalize-rejected', 'unlock', 'singleton', 'singleton-ctor-fails', 'constant',
       'constant-interactive-overlap', 'enum', 'import', 'call-then-bind-then-call',
       # added after the audit of the check
       'parse-macro-ref-unbound', 'parse-file', 'files-and-bindings-finalize', 'bind-macro', 'singleton-direct', 'finalize-hook', 'bind-unknown',
       'import-fails', 'call-raises', 'constant-duplicate', 'constant-overlap-ambiguous', 'register-mid-history', 'dynamic-registration',
       # constants whose VALUE or NAME is special: the gin.REQUIRED object itself under another name (a project-level alias of the marker), falsy
       # values, a name whose last component is REQUIRED, a name in the gin.* namespace: "only gin.REQUIRED remains" is about the one NAME
       'constant-special-value']
# further workloads for the property's online monitor (vf/online.py): the repository's tests and other checks' generated cases
ONLINE = {'which': ['clear'], 'foreign': ['C01', 'C04', 'C05', 'C06', 'C07', 'C10', 'C11', 'C12', 'C13', 'C17'], 'n': {'quick': 30, 'thorough': 400}}
REQUIRED_BUCKETS = ['op:' + o for o in OPS] + ['clear:keep-constants', 'clear:clear-constants', 'state:locked-at-clear', 'state:operative-nonempty-at-clear',
                                                'state:imports-at-clear', 'state:singletons-at-clear', 'state:overlapping-constants-at-clear', 'rounds:2+', 'state:abbreviation-looked-up-before-clear', 'state:failed-singleton-constructor-before-clear',
                                                'model:finalize-accepted', 'model:finalize-rejected-unbound-macro', 'model:finalize-rejected-unbound-macro-in-later-round',
                                                'model:finalize-rejected-already-locked', 'model:bindings-checked-before-clear-in-later-round', 'model:deliveries-checked-before-clear',
                                                'model:mutation-under-lock',
                                                'lookup:resolved-after-keep-clear', 'lookup:ambiguous-after-keep-clear', 'lookup:overlap-exact-after-keep-clear',
                                                'lookup:delivered-to-call-after-keep-clear', 'lookup:enum-after-keep-clear',
                                                'cleared:enum-name-free', 'cleared:overlap-name-free', 'cleared:every-abbreviation-unanswered',
                                                'registered:mid-history-checked-after-clear', 'registered:dynamic-checked-after-clear',
                                                'state:sentinel-valued-constant-at-clear:clear-constants', 'state:sentinel-valued-constant-at-clear:keep-constants',
                                                'state:falsy-constant-at-clear:clear-constants', 'state:falsy-constant-at-clear:keep-constants',
                                                'state:constant-named-like-sentinel-at-clear:clear-constants', 'state:constant-in-gin-namespace-at-clear:clear-constants',
                                                'model:finalize-rejected-required-constant', 'model:finalize-accepted-required-constant-overridden',
                                                'cleared:special-name-free', 'cleared:sentinel-alias-name-free', 'lookup:sentinel-alias-after-keep-clear',
                                                'lookup:sentinel-alias-delivered-to-call-after-keep-clear', 'lookup:falsy-constant-after-keep-clear',
                                                'singleton:direct-checked-after-clear', 'hook:registered-mid-history',
                                                'fresh:compared'] + ['fresh:program-%d' % i for i in range(8)]
ORACLE_COUNTERS = ['oracle_evals', 'clears_checked']
_S = {}
_n = itertools.count(1)
SINGLETON_CONFIG = ('shared/gin.singleton.constructor = @c20ctor\ndeep/er/gin.singleton.constructor = @c20ctor\n'
                    'c20use.s = [@shared/gin.singleton(), @deep/er/gin.singleton()]\n')
FULL_PARSE = "c20f.x = %d\nsc/c20f.y = [1, @c20g()]\nc20m = 'macro'\nc20g.a = %%c20m\n"
PROBE_SCOPES = ['', 'sc', 'a/b', 'x/y/z', 'file', 'hk']
DYNAMIC_TARGETS = [('decoder', 'JSONDecoder', 'strict', False, True), ('encoder', 'JSONEncoder', 'sort_keys', True, False)]
MARK = '@@C20FRESH@@'
SENTINEL = '<the gin.REQUIRED object>'
# values of the 'constant-special-value' constants (chosen by the operation counter); SENTINEL stands for gin.REQUIRED itself
SPECIAL_CONSTANT_VALUES = [SENTINEL, None, False, SENTINEL, 0, '', ()]
# their names: ordinary / last component spelled like the sentinel's / in the sentinel's namespace
SPECIAL_CONSTANT_NAMES = [('c20.v{k}.SPECIAL{k}', 'SPECIAL{k}', 'plain'), ('c20.v{k}.REQUIRED', 'v{k}.REQUIRED', 'named-like-sentinel'),
                          ('gin.v{k}.SPECIAL{k}', 'SPECIAL{k}', 'in-gin-namespace')]

# Programs of operations run right after a clear_config and, once per worker, in a fresh interpreter with the same registrations (no history, no
# clear_config). They use no constants (constants may legitimately survive the clear) and no finalize hook, and nothing registered mid-history.
EPILOGUES = [
    # 0: a macro bound (and validated by finalize) before the clear is unbound afterwards
    [('parse', 'c20g.a = %c20m\n'), ('finalize',), ('locked',), ('config_str',), ('call', ''), ('operative',)],
    # 1: a full configuration, finalized, mutation under lock
    [('parse', FULL_PARSE % 7), ('finalize',), ('locked',), ('bind', 'c20f.x', 9), ('config_str',), ('call', 'sc'), ('call', ''), ('operative',),
     ('query', 'c20f.x'), ('query', 'sc/c20f.y'), ('bindings', 'c20.c20f')],
    # 2: Python-side bindings in nested scopes
    [('bind', 'a/b/c20f.x', 5), ('bind', 'a/c20f.y', 'mid'), ('call', 'a/b'), ('call', 'a'), ('call', 'x/y/z'), ('operative',), ('config_str',),
     ('query', 'a/b/c20f.x'), ('query', 'c20f.x')],
    # 3: singletons
    [('parse', SINGLETON_CONFIG), ('singletons',), ('config_str',), ('operative',), ('finalize',), ('locked',), ('singletons',)],
    # 4: imports, finalize, unlock
    [('parse', 'import os.path\nfrom json import decoder as dec\nc20f.x = 3\n'), ('config_str',), ('call', ''), ('operative',), ('finalize',),
     ('unlock-bind', 'c20f.x', 4), ('call', ''), ('operative',), ('locked',)],
    # 5: finalize of the empty configuration
    [('finalize',), ('locked',), ('bind', 'c20f.x', 1), ('parse', 'c20f.x = 2\n'), ('config_str',), ('call', ''), ('operative',)],
    # 6: a call on an unbound macro, rejected finalize, then repaired
    [('parse', 'c20f.y = %c20_never_bound_macro\n'), ('call', ''), ('operative',), ('config_str',), ('finalize',), ('locked',),
     ('parse', 'c20_never_bound_macro = 3\n'), ('finalize',), ('locked',), ('call', ''), ('operative',)],
    # 7: nothing bound; a macro bound from Python
    [('query', 'c20f.x'), ('bindings', 'c20.c20f'), ('call', 'sc'), ('operative',), ('config_str',), ('bind', '%c20m', 12), ('query', '%c20m'),
     ('parse', 'c20g.a = %c20m\n'), ('call', ''), ('config_str',), ('finalize',), ('locked',)],
]


def register_all():
  """The registrations of a worker; a fresh interpreter used for comparison performs exactly these."""
  import gin
  _S['f'] = probes.build({'shape': 'fn', 'api': 'configurable', 'name': 'c20f', 'module': 'c20', 'pos': [], 'dflt': [['x', 0], ['y', 'd']], 'varargs': False,
                          'kwonly': [], 'varkw': False})
  _S['g'] = probes.build({'shape': 'init', 'api': 'external', 'name': 'c20g', 'module': 'c20', 'pos': [], 'dflt': [['a', 1]], 'varargs': False, 'kwonly': [],
                          'varkw': False})

  @gin.configurable('c20ctor', module='c20')
  def ctor():
    return object()

  @gin.configurable('c20badctor', module='c20')
  def badctor(must_be_bound):       # fails unless a binding exists
    return object()

  @gin.configurable('c20use', module='c20')
  def use(s=None):
    return s

  @gin.configurable('c20boom', module='c20')
  def boom(x=0):
    raise KeyError('c20boom %r' % (x,))

  _S['use'] = use
  _S['ctor'] = ctor
  _S['boom'] = boom


def setup(ctx):
  import gin
  from gin import config as gc
  register_all()
  gin.clear_config(clear_constants=True)
  _S['pristine'] = observe(gin, gc)
  # config files for the file-based entry points
  d = tempfile.mkdtemp(prefix='c20-')
  atexit.register(shutil.rmtree, d, True)
  _S['file_a'] = os.path.join(d, 'a.gin')
  _S['file_inc'] = os.path.join(d, 'inc.gin')
  with open(_S['file_a'], 'w') as fh:
    fh.write("c20f.x = 11\nfile/c20f.y = 'from-file'\n")
  with open(_S['file_inc'], 'w') as fh:
    fh.write("include '%s'\nc20g.a = 12\n" % _S['file_a'])
  # what the programs give in a fresh interpreter: started now, collected at first use
  code = 'import sys; sys.path[:0] = [%r, %r]; from vf.checks import c20; c20.fresh_main()' % (core.repo_root(), core.VERIF)
  _S['fresh_proc'] = subprocess.Popen([core.PY, '-c', code], stdout=subprocess.PIPE, stderr=subprocess.PIPE, text=True,
                                      env=dict(os.environ, PYTHONHASHSEED='0', PYTHONDONTWRITEBYTECODE='1'))
  _S['fresh'] = None


# ---------------------------------------------------------------------------
# programs run after the clear and in a fresh interpreter


def plain(v):
  if v is None or isinstance(v, (bool, int, float, str)):
    return v
  if isinstance(v, (list, tuple)):
    return [type(v).__name__] + [plain(x) for x in v]
  if isinstance(v, dict):
    return ['dict'] + sorted([[plain(k), plain(x)] for k, x in v.items()], key=repr)
  return 'T:' + type(v).__name__


def run_epilogue(prog):
  import gin
  f, g, use = _S['f'], _S['g'], _S['use']
  names = {f.pid: 'c20f', g.pid: 'c20g'}
  out = []
  for step in prog:
    kind = step[0]
    try:
      r = None
      if kind == 'parse':
        gin.parse_config(step[1])
      elif kind == 'bind':
        gin.bind_parameter(step[1], step[2])
      elif kind == 'unlock-bind':
        with gin.unlock_config():
          gin.bind_parameter(step[1], step[2])
      elif kind == 'finalize':
        gin.finalize()
      elif kind == 'locked':
        r = gin.config_is_locked()
      elif kind == 'config_str':
        r = gin.config_str()
      elif kind == 'operative':
        r = gin.operative_config_str()
      elif kind == 'query':
        r = plain(gin.query_parameter(step[1]))
      elif kind == 'bindings':
        r = plain(gin.get_bindings(step[1]))
      elif kind == 'singletons':
        a, b = use(), use()
        r = [a[0] is b[0], a[1] is b[1], a[0] is a[1]]
      elif kind == 'call':
        r = []
        for p in (f, g):
          mark = probes.RECORDER.mark()
          try:
            with gin.config_scope(step[1] or None):
              p.conf()
            oc = 'ok'
          except Exception as e:  # pylint: disable=broad-except
            oc = 'raise ' + type(e).__name__
          r.append([oc, [[names.get(x.pid, x.pid), plain(x.received)] for x in probes.RECORDER.since(mark)]])
      else:
        raise AssertionError(kind)
      out.append(['ok', r])
    except AssertionError:
      raise
    except Exception as e:  # pylint: disable=broad-except
      out.append(['raise', type(e).__name__])
  return out


def fresh_main():
  """Entry of the fresh interpreter: registrations only, then every program in a forked child of this never-configured process."""
  import sys
  import gin
  register_all()
  res = []
  for prog in EPILOGUES:
    rd, wr = os.pipe()
    pid = os.fork()
    if pid == 0:
      os.close(rd)
      try:
        data = json.dumps(run_epilogue(prog))
      except BaseException as e:  # pylint: disable=broad-except
        data = json.dumps({'error': repr(e)})
      with os.fdopen(wr, 'w') as fh:
        fh.write(data)
      os._exit(0)
    os.close(wr)
    with os.fdopen(rd) as fh:
      data = fh.read()
    os.waitpid(pid, 0)
    res.append(json.loads(data))
  sys.stdout.write(MARK + json.dumps({'gin': os.path.realpath(gin.__file__), 'programs': res}) + '\n')


def fresh_expected():
  if _S['fresh'] is None:
    p = _S['fresh_proc']
    try:
      out, err = p.communicate(timeout=180)
    except subprocess.TimeoutExpired:
      p.kill()
      raise core.Inconclusive('C20: fresh interpreter timed out')
    line = [l for l in out.splitlines() if l.startswith(MARK)]
    if not line:
      raise core.Inconclusive('C20: fresh interpreter failed: %s' % err[-800:])
    res = json.loads(line[0][len(MARK):])
    if not res['gin'].startswith(core.repo_root() + os.sep) or any(isinstance(x, dict) for x in res['programs']):
      raise core.Inconclusive('C20: fresh interpreter unusable: %r' % (res,))
    _S['fresh'] = res['programs']
  return _S['fresh']


def compare_with_fresh(ctx, idx, cc):
  exp = fresh_expected()[idx]
  got = json.loads(json.dumps(run_epilogue(EPILOGUES[idx])))
  ctx.bucket('fresh:compared')
  ctx.bucket('fresh:program-%d' % idx)
  for i, (step, e, g) in enumerate(zip(EPILOGUES[idx], exp, got)):
    if not ctx.check(e == g, 'after-clear-differs-from-fresh-process:' + step[0],
                     'after clear_config(clear_constants=%s), step %d %r of program %d gives %s, in a fresh interpreter with the same registrations %s'
                     % (cc, i, step, idx, core.short(g, 700), core.short(e, 700))):
      break


# ---------------------------------------------------------------------------
# the model of one round


class Model:

  def __init__(self, consts, sentinel=None):
    self.store = {}       # binding key as written -> ('lit', v) | ('obj',) | ('ref',) | ('macro', name) | ('const', full name)
    self.locked = False
    self.consts = consts  # full name -> value (survives rounds unless cleared)
    self.sentinel = sentinel    # the gin.REQUIRED object

  def required_constant(self):
    """A binding still refers to a constant that IS the gin.REQUIRED object (under whatever name): finalize rejects it as never overridden."""
    return any(d[0] == 'const' and self.consts.get(d[1], 0) is self.sentinel for d in self.store.values())

  def unbound_macro(self):
    return any(d[0] == 'macro' and ('%' + d[1]) not in self.store for d in self.store.values())

  def effective(self, scope, sel_arg):
    parts = scope.split('/') if scope else []
    val = None
    for i in range(len(parts) + 1):
      key = '/'.join(parts[:i] + [sel_arg])
      if key in self.store:
        val = self.store[key]
    return val


def suffixes(name):
  parts = name.split('.')
  return ['.'.join(parts[i:]) for i in range(len(parts) - 1, -1, -1)]


def const_matches(names, partial):
  """Independent model of partial constant names: an exact full name wins, otherwise every name ending in '.partial'."""
  if partial in names:
    return [partial]
  return [n for n in names if n.endswith('.' + partial)]


def observe(gin, gc):
  return {'config_str': gin.config_str(), 'operative': gin.operative_config_str(), 'locked': gin.config_is_locked(), 'store': snap.store_nonempty(gc),
          'imports': sorted(s.module for s in gc._IMPORTS), 'singletons': len(gc._SINGLETONS), 'provenance': {k: v for k, v in gc._CONFIG_PROVENANCE.items() if v}}


def iter_cases(ctx, rng, n):
  for i in range(n):
    rounds = []
    for _ in range(rng.choice([1, 1, 2, 3])):
      ops = [rng.choice(OPS) for _ in range(rng.randrange(1, 9))]
      rounds.append({'ops': ops, 'clear_constants': rng.random() < 0.4, 'probe': rng.random() < 0.5,
                     'epilogue': rng.randrange(len(EPILOGUES)) if rng.random() < 0.2 else None})
    yield {'rounds': rounds}


def constants_view(gc):
  return {k: v for k, v in gc._CONSTANTS.items()}


def _finalize_hook(config):
  # returns bindings only while a history asks for it: whether hooks survive clear_config is not pinned down, so at any other time
  # (in particular after the clear) this hook is indistinguishable from no hook
  if _S.get('hook_active'):
    return {'hk/c20f.y': 'hooked'}
  return None


def run_case(ctx, case):
  import enum
  import json.decoder
  import json.encoder
  import gin
  from gin import config as gc
  f, g, use = _S['f'], _S['g'], _S['use']
  if len(case['rounds']) >= 2:
    ctx.bucket('rounds:2+')
  shape = []
  consts = {'gin.REQUIRED': gin.REQUIRED}
  registered = []     # (object handed to get_configurable, selector, arg) registered during this case's histories
  dynamic = set()
  for rno, rnd in enumerate(case['rounds']):
    M = Model(consts, gin.REQUIRED)
    bound_keys = []
    short_names = []
    used_scopes = set()
    failed_singleton = False
    pre_singleton = None
    direct_singleton = None
    overlapping = False

    def mutate(fn, updates, unlock=False):
      """A binding-type mutation: takes effect unless the configuration is locked (then RuntimeError and, by what is observed, nothing)."""
      if unlock:
        with gin.unlock_config():
          fn()
      elif M.locked:
        ctx.bucket('model:mutation-under-lock')
        try:
          fn()
        except RuntimeError:
          return False
      else:
        fn()
      M.store.update(updates)
      bound_keys.extend(updates)      # macros ('%name') included: they are bindings too
      return True

    def finalize_like(fn, updates_before=None):
      """fn ends in gin.finalize(): accepted iff unlocked and no binding refers to an unbound macro (as in a fresh process)."""
      was_locked = M.locked
      try:
        fn()
        rejected = None
      except Exception as e:  # pylint: disable=broad-except
        # the class is not the statement's business (with imports of a dynamic-registration parse on record, the rejection of an unbound
        # macro surfaces as the failure to render the message: the probes live in no importable module)
        rejected = e
      if updates_before and not was_locked:
        M.store.update(updates_before)
        bound_keys.extend(updates_before)
      expect_rejected = was_locked or M.unbound_macro() or M.required_constant()
      if was_locked:
        ctx.bucket('model:finalize-rejected-already-locked')
      elif M.required_constant():
        ctx.bucket('model:finalize-rejected-required-constant')
      elif expect_rejected:
        ctx.bucket('model:finalize-rejected-unbound-macro')
        if rno:
          ctx.bucket('model:finalize-rejected-unbound-macro-in-later-round')
      else:
        ctx.bucket('model:finalize-accepted')
        if M.store.get('c20f.y') == ('lit', 'required-overridden'):
          ctx.bucket('model:finalize-accepted-required-constant-overridden')
      ctx.check((rejected is not None) == expect_rejected, 'finalize-outcome-differs-from-fresh-process',
                'round %d: finalize %s although the configuration is %s, %s binding refers to an unbound macro and %s binding is a constant holding '
                'gin.REQUIRED (bindings %r)'
                % (rno + 1, 'rejected with %r' % (rejected,) if rejected is not None else 'accepted', 'locked' if was_locked else 'unlocked',
                   'a' if M.unbound_macro() else 'no', 'a' if M.required_constant() else 'no', sorted(M.store)))
      if rejected is None:
        M.locked = True
      return rejected is None

    for op in rnd['ops']:
      ctx.bucket('op:' + op)
      shape.append(op)
      k = next(_n)
      try:
        if op == 'parse':
          mutate(lambda: gin.parse_config(FULL_PARSE % k),
                 {'c20f.x': ('lit', k), 'sc/c20f.y': ('ref',), '%c20m': ('lit', 'macro'), 'c20g.a': ('macro', 'c20m')})
        elif op == 'parse-macro-ref-unbound':
          # refers to a macro that only an earlier 'parse' / 'bind-macro' of the same round binds
          mutate(lambda: gin.parse_config('c20g.a = %c20m\n'), {'c20g.a': ('macro', 'c20m')})
        elif op == 'parse-fails':
          try:
            gin.parse_config("c20f.y = 'before-fault'\n" + ("c20f.x = [1, 2\n" if k % 2 else "c20f.nope = 1\n"))
          except Exception:  # pylint: disable=broad-except
            pass
          bound_keys += ['c20f.y']
          # whether the statement before the fault took effect is another property's business: follow what happened
          try:
            if gin.query_parameter('c20f.y') == 'before-fault' and not M.locked:
              M.store['c20f.y'] = ('lit', 'before-fault')
          except ValueError:
            pass
        elif op == 'import-fails':
          try:
            with gin.unlock_config():
              gin.parse_config('import c20_no_such_module_%d\nc20f.x = 1\n' % k)
            M.store['c20f.x'] = ('lit', 1)      # not raised (never on the unchanged tree): then the binding was read
          except Exception:  # pylint: disable=broad-except
            pass
          bound_keys += ['c20f.x']
        elif op == 'parse-file':
          if k % 2:
            mutate(lambda: gin.parse_config_file(_S['file_inc']), {'c20f.x': ('lit', 11), 'file/c20f.y': ('lit', 'from-file'), 'c20g.a': ('lit', 12)})
          else:
            mutate(lambda: gin.parse_config_file(_S['file_a']), {'c20f.x': ('lit', 11), 'file/c20f.y': ('lit', 'from-file')})
        elif op == 'files-and-bindings-finalize':
          finalize_like(lambda: gin.parse_config_files_and_bindings([_S['file_a']], ['a/c20g.a = %d' % k], finalize_config=True),
                        {'c20f.x': ('lit', 11), 'file/c20f.y': ('lit', 'from-file'), 'a/c20g.a': ('lit', k)})
        elif op == 'bind':
          v = object() if k % 3 == 0 else k
          mutate(lambda: gin.bind_parameter('a/b/c20f.x', v), {'a/b/c20f.x': ('obj',) if k % 3 == 0 else ('lit', k)})
        elif op == 'bind-macro':
          mutate(lambda: gin.bind_parameter('%c20m', k), {'%c20m': ('lit', k)})
        elif op == 'bind-unknown':
          try:
            gin.bind_parameter('c20_no_such_configurable.x', k)
          except Exception:  # pylint: disable=broad-except
            pass      # a failed operation is part of the history
        elif op == 'call':
          used_scopes.add(['sc', 'a/b', ''][k % 3])
          with gin.config_scope(['sc', 'a/b', ''][k % 3] or None):
            try:
              f.conf()
              g.conf()
            except TypeError:
              pass  # a history may leave a reference to an unbound macro in place: that call fails, which is part of the history
        elif op == 'call-raises':
          sc = ['sc', 'a/b', ''][k % 3]
          used_scopes.add(sc)
          with gin.config_scope(sc or None):
            try:
              _S['boom']()
            except Exception:  # pylint: disable=broad-except
              pass
        elif op == 'finalize':
          finalize_like(gin.finalize)
        elif op == 'finalize-hook':
          if not _S.get('hook_registered'):
            gc.register_finalize_hook(_finalize_hook)     # mid-history, once per process
            _S['hook_registered'] = True
            ctx.bucket('hook:registered-mid-history')
          _S['hook_active'] = True
          try:
            if finalize_like(gin.finalize):
              M.store['hk/c20f.y'] = ('lit', 'hooked')
              bound_keys.append('hk/c20f.y')
          finally:
            _S['hook_active'] = False
        elif op == 'finalize-rejected':
          mutate(lambda: gin.parse_config('c20f.y = %c20_never_bound_macro'), {'c20f.y': ('macro', 'c20_never_bound_macro')}, unlock=True)
          finalize_like(gin.finalize)
        elif op == 'unlock':
          mutate(lambda: gin.bind_parameter('c20f.x', -k), {'c20f.x': ('lit', -k)}, unlock=True)
        elif op == 'singleton':
          mutate(lambda: gin.parse_config(SINGLETON_CONFIG), {'c20use.s': ('ref',), 'shared/gin.singleton.constructor': ('ref',),
                                                              'deep/er/gin.singleton.constructor': ('ref',)}, unlock=True)
          pre_singleton = use()
        elif op == 'singleton-direct':
          direct_singleton = gc.singleton_value('c20direct', _S['ctor'])
        elif op == 'singleton-ctor-fails':
          mutate(lambda: gin.parse_config('shared/gin.singleton.constructor = @c20badctor\ndeep/er/gin.singleton.constructor = @c20badctor\n'
                                          'c20use.s = [@shared/gin.singleton(), @deep/er/gin.singleton()]\n'),
                 {'c20use.s': ('ref',), 'shared/gin.singleton.constructor': ('ref',), 'deep/er/gin.singleton.constructor': ('ref',)}, unlock=True)
          try:
            use()
          except TypeError:
            pass
          failed_singleton = True
        elif op == 'call-then-bind-then-call':
          sc = ['sc', 'a/b', 'x/y/z'][k % 3]
          with gin.config_scope(sc):
            try:
              f.conf()
              g.conf()
            except TypeError:
              pass

          def two():
            gin.bind_parameter('%s/c20f.x' % sc, k)
            gin.bind_parameter('c20g.a', -k)
          mutate(two, {'%s/c20f.x' % sc: ('lit', k), 'c20g.a': ('lit', -k)}, unlock=True)
          with gin.config_scope(sc):
            try:
              f.conf()
              g.conf()
              gin.get_bindings('c20.c20f')
            except TypeError:
              pass
          used_scopes.add(sc)
        elif op == 'constant':
          full, value = 'c20.k%d.CONST%d' % (k, k), ('const', k)
          gin.constant(full, value)
          consts[full] = value
          # look it up through abbreviations, as config files do
          ctx.check(gin.query_parameter('CONST%d' % k) == ('const', k) and gin.query_parameter('k%d.CONST%d' % (k, k)) == ('const', k), 'constant-lookup', 'lookup by suffix failed')
          mutate(lambda: gin.parse_config('c20f.y = %%CONST%d' % k), {'c20f.y': ('const', full)}, unlock=True)
          short_names.append(('CONST%d' % k, 'plain'))
        elif op == 'constant-duplicate':
          full, value, again = 'c20.d%d.DUP%d' % (k, k), ('dup', k), ('dup-again', k)
          gin.constant(full, value)
          consts[full] = value
          try:
            gin.constant(full if k % 2 else 'DUP%d' % k, again)     # the same name / a name the existing one answers to
            consts[full if k % 2 else 'DUP%d' % k] = again      # accepted (not on the unchanged tree): then it is a constant
          except Exception:  # pylint: disable=broad-except
            pass
        elif op == 'constant-interactive-overlap':
          outer, inner = ('outer', k), ('inner', k)
          with gin.config.interactive_mode():
            gin.constant('c20.i%d.OVER%d' % (k, k), outer)
            consts['c20.i%d.OVER%d' % (k, k)] = outer
            gin.constant('OVER%d' % k, inner)
            consts['OVER%d' % k] = inner
          overlapping = True
          short_names.append(('OVER%d' % k, 'overlap'))
        elif op == 'constant-overlap-ambiguous':
          # pkg.sched.RATE and sched.RATE, either order: %RATE is ambiguous, %sched.RATE is the shorter one
          pair = [('c20.p%d.sched%d.RATE%d' % (k, k, k), ('outer-rate', k)), ('sched%d.RATE%d' % (k, k), ('inner-rate', k))]
          with gin.config.interactive_mode():
            for name, value in (pair if k % 2 else pair[::-1]):
              gin.constant(name, value)
              consts[name] = value
          overlapping = True
          short_names.append(('sched%d.RATE%d' % (k, k), 'overlap'))
        elif op == 'constant-special-value':
          value = SPECIAL_CONSTANT_VALUES[k % len(SPECIAL_CONSTANT_VALUES)]
          value = gin.REQUIRED if value is SENTINEL else value
          fmt_full, fmt_short, _ = SPECIAL_CONSTANT_NAMES[(k // len(SPECIAL_CONSTANT_VALUES)) % len(SPECIAL_CONSTANT_NAMES)]
          full, short = fmt_full.format(k=k), fmt_short.format(k=k)
          gin.constant(full, value)
          consts[full] = value
          ctx.check(all(gin.query_parameter(p) is value for p in suffixes(full) if const_matches(list(consts), p) == [full]), 'constant-lookup',
                    'lookup of the constant %s = %r by suffix failed' % (full, value))
          if value is gin.REQUIRED and (k // 3) % 2:
            # the marker's ordinary use: bound through its alias, then overridden
            mutate(lambda: gin.parse_config("c20f.y = %%%s\nc20f.y = 'required-overridden'\n" % short), {'c20f.y': ('lit', 'required-overridden')}, unlock=True)
          else:
            # left in place: delivered as it is; if it is the marker, a later finalize of this round rejects it
            mutate(lambda: gin.parse_config('c20f.y = %%%s\n' % short), {'c20f.y': ('const', full)}, unlock=True)
          if value is gin.REQUIRED and (k // 6) % 2:
            finalize_like(gin.finalize)     # rejected while the alias is in place, accepted (if nothing else stands in the way) once overridden
          short_names.append((short, 'special-sentinel' if value is gin.REQUIRED else 'special'))
        elif op == 'enum':
          E = enum.Enum('E%d' % k, 'RED GREEN')
          gin.config.constants_from_enum(E, module='c20.enums')
          consts['c20.enums.E%d.RED' % k] = E.RED
          consts['c20.enums.E%d.GREEN' % k] = E.GREEN
          short_names.append(('E%d.RED' % k, 'enum'))
        elif op == 'import':
          with gin.unlock_config():
            gin.parse_config('import os.path\nfrom json import decoder as dec%d\n' % k)
        elif op == 'register-mid-history':
          def fn(v='dflt'):
            return ('c20r', v)
          fn.__name__ = fn.__qualname__ = 'c20r%d' % k
          if k % 3 == 0:
            gin.external_configurable(fn, 'c20r%d' % k, module='c20.dyn')
            obj = fn
          elif k % 3 == 1:
            gin.register('c20r%d' % k, module='c20.dyn')(fn)
            obj = fn
          else:
            obj = gin.configurable('c20r%d' % k, module='c20.dyn')(fn)
          registered.append((obj, 'c20.dyn.c20r%d' % k, 'c20r%d.v' % k))
          mutate(lambda: gin.bind_parameter('c20r%d.v' % k, k), {'c20r%d.v' % k: ('lit', k)}, unlock=True)
        elif op == 'dynamic-registration':
          mod, cls, arg, val, _ = DYNAMIC_TARGETS[k % len(DYNAMIC_TARGETS)]
          mutate(lambda: gin.parse_config('from __gin__ import dynamic_registration\nfrom json import %s\n%s.%s.%s = %r\n' % (mod, mod, cls, arg, val)),
                 {'json.%s.%s.%s' % (mod, cls, arg): ('lit', val)}, unlock=True)
          dynamic.add(k % len(DYNAMIC_TARGETS))
      except RuntimeError:
        pass  # mutation attempted while locked: part of the history
    # ---- before the clear: this round's operations took effect as they do in a fresh process (the round started from a cleared configuration)
    ctx.check(gin.config_is_locked() == M.locked, 'lock-state-differs-from-fresh-process',
              'round %d: config_is_locked() is %s, the history leaves it %s' % (rno + 1, gin.config_is_locked(), M.locked))
    for key, d in M.store.items():
      try:
        got = gin.query_parameter(key)
        ok = (got == d[1] and type(got) is type(d[1])) if d[0] == 'lit' else (type(got) is object) if d[0] == 'obj' else True
        msg = 'answers %r, bound was %r' % (got, d)
      except Exception as e:  # pylint: disable=broad-except
        ok, msg = False, 'raises %r' % (e,)
      ctx.check(ok, 'binding-made-after-clear-not-in-effect', 'round %d: query_parameter(%r) %s' % (rno + 1, key, msg))
    if rno and M.store:
      ctx.bucket('model:bindings-checked-before-clear-in-later-round')
    if rnd.get('probe'):
      # the unscoped call and two of the scopes this round bound something in (the post-clear calls reuse them)
      scoped = sorted(set(key.rsplit('/', 1)[0] for key in M.store if '/' in key and key.rsplit('/', 1)[0] in PROBE_SCOPES))
      for sc in [''] + scoped[len(rnd['ops']) % 2:][:2]:
        ex, ey = M.effective(sc, 'c20f.x'), M.effective(sc, 'c20f.y')
        if ey is not None and ey[0] in ('ref', 'macro'):
          continue
        used_scopes.add(sc)
        mark = probes.RECORDER.mark()
        with gin.config_scope(sc or None):
          f.conf()
        recv = probes.RECORDER.since(mark)[-1].received
        okx = (recv['x'] == 0) if ex is None else (type(recv['x']) is object) if ex[0] == 'obj' else (recv['x'] == ex[1])
        wanty = 'd' if ey is None else ey[1] if ey[0] == 'lit' else consts.get(ey[1])
        ctx.bucket('model:deliveries-checked-before-clear')
        oky = (recv['y'] is wanty) if ey is not None and ey[0] == 'const' else (recv['y'] == wanty)
        ctx.check(okx and oky, 'binding-made-after-clear-not-delivered',
                  'round %d: under scope %r c20f received %r; the bindings in effect are x: %r, y: %r' % (rno + 1, sc, recv, ex, ey))
    # ---- state at the moment of the clear
    if gin.config_is_locked():
      ctx.bucket('state:locked-at-clear')
    if gc._OPERATIVE_CONFIG:
      ctx.bucket('state:operative-nonempty-at-clear')
    if gc._IMPORTS:
      ctx.bucket('state:imports-at-clear')
    if gc._SINGLETONS:
      ctx.bucket('state:singletons-at-clear')
    if overlapping:
      ctx.bucket('state:overlapping-constants-at-clear')
    consts_before = constants_view(gc)
    cc = rnd['clear_constants']
    ctx.bucket('clear:clear-constants' if cc else 'clear:keep-constants')
    for name, value in consts.items():
      for what in special_constant(gin, name, value):
        ctx.bucket('state:%s-at-clear:%s' % (what, 'clear-constants' if cc else 'keep-constants'))
    ctx.count('clears_checked')
    try:
      gin.clear_config(clear_constants=True) if cc else gin.clear_config()
      raised = None
    except Exception as e:  # pylint: disable=broad-except
      raised = e
    key_suffix = ':overlapping-constants' if (overlapping or has_overlap(consts_before)) and not cc else ''
    ctx.check(raised is None, 'clear-config-raised' + key_suffix, 'clear_config(clear_constants=%s) raised %s: %s' % (cc, type(raised).__name__, str(raised)[:200]))
    now = observe(gin, gc)
    pristine = _S['pristine']
    d = {k: (now[k], pristine[k]) for k in pristine if now[k] != pristine[k]}
    ctx.check(not d, 'state-left-after-clear' + (key_suffix if raised is not None else ''),
              'after clear_config(clear_constants=%s) these observables differ from the pristine baseline (now, pristine): %r' % (cc, {k: repr(v)[:300] for k, v in d.items()}))
    consts_after = constants_view(gc)
    if cc:
      ctx.check(set(consts_after) == {'gin.REQUIRED'} and consts_after['gin.REQUIRED'] is gin.REQUIRED, 'constants-after-clear',
                'clear_constants=True left constants %r' % sorted(consts_after))
    else:
      ctx.check(set(consts_after) == set(consts_before) and all(consts_after[k] is consts_before[k] for k in consts_before), 'constants-after-clear',
                'clear_config() changed the constants: before %r after %r' % (sorted(consts_before), sorted(consts_after)))
    if raised is None:
      lookups = check_constant_queries(ctx, gin, consts, cc)
      if rnd.get('epilogue') is not None:
        # what the API does from here on is what it does in a fresh interpreter with the same registrations
        compare_with_fresh(ctx, rnd['epilogue'], cc)
        gin.clear_config(clear_constants=cc)
        now = observe(gin, gc)
        d = {k: (now[k], pristine[k]) for k in pristine if now[k] != pristine[k]}
        ctx.check(not d, 'state-left-after-clear', 'after a second clear_config(clear_constants=%s) (history + program %d) these observables differ from '
                  'the pristine baseline (now, pristine): %r' % (cc, rnd['epilogue'], {k: repr(v)[:300] for k, v in d.items()}))
      for key in set(bound_keys):
        try:
          gin.query_parameter(key)
          ctx.check(False, 'binding-survived-clear', 'query_parameter(%r) still answers after clear_config' % key)
        except ValueError:
          ctx.count('oracle_evals')
      for sc in sorted(used_scopes | {''}):
        mark = probes.RECORDER.mark()
        with gin.config_scope(sc or None):
          f.conf()
          g.conf()
          gb = gin.get_bindings('c20.c20f')
        recs = probes.RECORDER.since(mark)
        ctx.check([r.received for r in recs] == [{'x': 0, 'y': 'd'}, {'a': 1}] and gb == {}, 'probe-received-non-default-after-clear',
                  'after clear_config, under scope %r probes received %r, get_bindings %r' % (sc, [r.received for r in recs], gb))
      # what those calls recorded is what they record in a pristine process: the signature defaults
      op_text = gin.operative_config_str()
      vals = sorted(set(l.split(' = ', 1)[1] for l in op_text.splitlines() if ' = ' in l and not l.startswith('#')))
      ctx.check(vals == sorted(["'d'", '0', '1']), 'operative-record-after-clear-shows-old-values',
                'after clear_config a plain call records values other than the signature defaults: %r\n%s' % (vals, op_text[:500]))
      if failed_singleton:
        ctx.bucket('state:failed-singleton-constructor-before-clear')
        gin.clear_config(clear_constants=cc)
        gin.parse_config(SINGLETON_CONFIG)
        try:
          ok = all(o is not None for o in use())
        except Exception as e:  # pylint: disable=broad-except
          ok = False
          ctx.check(False, 'singleton-unusable-after-clear', 'a singleton whose constructor failed before clear_config cannot be constructed afterwards: %r' % (e,))
      if pre_singleton is not None:
        gin.parse_config(SINGLETON_CONFIG)
        again = use()
        ctx.check(not any(a is b for a in again for b in pre_singleton), 'singleton-survived-clear', 'a singleton constructed before clear_config was delivered again')
      if direct_singleton is not None:
        ctx.bucket('singleton:direct-checked-after-clear')
        try:
          left = gc.singleton_value('c20direct')
        except ValueError:
          left = None
        ctx.check(left is None, 'singleton-survived-clear', 'singleton_value(key) still answers after clear_config for a key constructed before it')
        ctx.check(gc.singleton_value('c20direct', _S['ctor']) is not direct_singleton, 'singleton-survived-clear',
                  'singleton_value(key, constructor) returned the object constructed before clear_config')
      ctx.check(gin.get_configurable('c20.c20f') is not None and gin.get_configurable(g.original) is not None, 'configurable-lost', 'registered configurables no longer resolve')
      # configurables registered during the histories of this case (before this or an earlier clear) remain, and remain configurable
      for obj, selector, key in registered:
        ctx.bucket('registered:mid-history-checked-after-clear')
        try:
          w = gin.get_configurable(obj)
          first = w()
          gin.bind_parameter(key, 'rebound')
          ok = first == ('c20r', 'dflt') and gin.get_configurable(selector)() == ('c20r', 'rebound')
          msg = 'delivers %r without bindings' % (first,)
        except Exception as e:  # pylint: disable=broad-except
          ok, msg = False, 'raises %r' % (e,)
        ctx.check(ok, 'configurable-lost:registered-mid-history', 'after clear_config the configurable %s registered during the history %s' % (selector, msg))
      for i in sorted(dynamic):
        mod, cls, arg, val, dflt = DYNAMIC_TARGETS[i]
        ctx.bucket('registered:dynamic-checked-after-clear')
        target = getattr(getattr(json, mod), cls)
        try:
          w = gin.get_configurable(target)
          first = getattr(w(), arg)
          gin.parse_config('json.%s.%s.%s = %r\n' % (mod, cls, arg, val))      # no dynamic registration here: the name is in the registry
          ok = first == dflt and getattr(w(), arg) == val
          msg = 'gives %s=%r without bindings' % (arg, first)
        except Exception as e:  # pylint: disable=broad-except
          ok, msg = False, 'raises %r' % (e,)
        ctx.check(ok, 'configurable-lost:registered-by-dynamic-registration',
                  'after clear_config json.%s.%s, registered by a dynamic-registration parse during the history, %s' % (mod, cls, msg))
      if cc:
        # the cleared constants are really gone: their abbreviations are free again (as macro names and for new constants)
        for sn, kind in short_names:
          ctx.bucket('state:abbreviation-looked-up-before-clear')
          if kind == 'enum':
            ctx.bucket('cleared:enum-name-free')
          elif kind == 'overlap':
            ctx.bucket('cleared:overlap-name-free')
          elif kind.startswith('special'):
            ctx.bucket('cleared:special-name-free')
            if kind == 'special-sentinel':
              ctx.bucket('cleared:sentinel-alias-name-free')
          try:
            gin.constant(sn, 'redefined')
            ok = gin.query_parameter(sn) == 'redefined'
          except Exception as e:  # pylint: disable=broad-except
            ok = False
          ctx.check(ok, 'cleared-constant-still-answers', 'after clear_config(clear_constants=True) the abbreviation %s is still taken by the cleared constant' % sn)
          try:
            gin.parse_config('c20f.y = %%c20x.%s' % sn)   # an unrelated name with that suffix is a plain macro now
            ctx.check(False, 'cleared-constant-still-answers', 'c20x.%s resolved' % sn) if False else None
          except Exception as e:  # pylint: disable=broad-except
            ctx.check(False, 'cleared-constant-still-answers', 'parsing %%c20x.%s after the clear raised %r' % (sn, e))
        for name in list(consts):
          if name != 'gin.REQUIRED':
            del consts[name]
      else:
        # the surviving constants reach a call through %NAME under every abbreviation the suffix model resolves; ambiguous ones are rejected
        gin.clear_config()
        step = max(1, len(lookups) // 4)
        sample = lookups[len(rnd['ops']) % step::step][:5]
        # and always some of the constants with special values or names, the marker's aliases first
        special = [l for l in lookups if len(l[1]) == 1 and l not in sample and special_constant(gin, l[1][0], consts[l[1][0]])]
        special.sort(key=lambda l: consts[l[1][0]] is not gin.REQUIRED)
        for partial, matches in sample + special[:2]:
          if matches == ['gin.REQUIRED']:
            continue
          if len(matches) == 1 and consts[matches[0]] is gin.REQUIRED:
            ctx.bucket('lookup:sentinel-alias-delivered-to-call-after-keep-clear')
          try:
            gin.parse_config('c20f.y = %%%s\n' % partial)
            recv = None
            mark = probes.RECORDER.mark()
            f.conf()
            recv = probes.RECORDER.since(mark)[-1].received['y']
            ok = len(matches) == 1 and recv is consts[matches[0]]
            msg = 'delivers %r' % (recv,)
          except Exception as e:  # pylint: disable=broad-except
            ok, msg = len(matches) > 1, 'raises %r' % (e,)
          ctx.bucket('lookup:delivered-to-call-after-keep-clear')
          ctx.check(ok, 'constant-lookup-after-clear', 'after clear_config() a binding to %%%s %s; constants matching that name: %r' % (partial, msg, matches))
      # leave the round clean (the probe calls above recorded operative entries)
      gin.clear_config(clear_constants=cc)
    else:
      # resynchronise so that one defect is reported once per round
      gc._CONSTANTS.clear()
      gc._CONSTANTS['gin.REQUIRED'] = gin.REQUIRED
      gin.clear_config(clear_constants=True)
      for name in list(consts):
        if name != 'gin.REQUIRED':
          del consts[name]
  ctx.fp(tuple(shape), tuple(r['clear_constants'] for r in case['rounds']))
  ctx.sample({'rounds': case['rounds']}, cap=3)
  gin.clear_config(clear_constants=True)


def check_constant_queries(ctx, gin, consts, cc):
  """Right after the clear: every abbreviation of every constant defined by the histories answers as the suffix model says (constants kept) or not at
  all (constants cleared). Returns the (abbreviation, matching full names) pairs."""
  names = list(consts)
  lookups = []
  seen = set()
  for name in names:
    for partial in suffixes(name):
      if partial in seen:
        continue
      seen.add(partial)
      matches = const_matches(names, partial)
      lookups.append((partial, matches))
      if cc and name == 'gin.REQUIRED':
        continue
      try:
        got = gin.query_parameter(partial)
        answered = True
      except Exception as e:  # pylint: disable=broad-except
        got, answered = e, False
      if cc:
        ctx.bucket('cleared:every-abbreviation-unanswered')
        ctx.check(not answered, 'cleared-constant-still-answers',
                  'after clear_config(clear_constants=True) query_parameter(%r) still answers %r (constant %s defined before the clear)' % (partial, got, name))
      elif len(matches) == 1:
        ctx.bucket('lookup:resolved-after-keep-clear')
        if any(n != partial and n.endswith('.' + partial) for n in names):
          ctx.bucket('lookup:overlap-exact-after-keep-clear')
        if '.enums.' in matches[0]:
          ctx.bucket('lookup:enum-after-keep-clear')
        what = special_constant(gin, matches[0], consts[matches[0]])
        if 'sentinel-valued-constant' in what:
          ctx.bucket('lookup:sentinel-alias-after-keep-clear')
        if 'falsy-constant' in what:
          ctx.bucket('lookup:falsy-constant-after-keep-clear')
        ctx.check(answered and got is consts[matches[0]], 'constant-lookup-after-clear',
                  'after clear_config() query_parameter(%r) gives %r; the constant %s defined before the clear is %r' % (partial, got, matches[0], consts[matches[0]]))
      else:
        ctx.bucket('lookup:ambiguous-after-keep-clear')
        ctx.check(not answered, 'constant-lookup-after-clear',
                  'after clear_config() query_parameter(%r) answers %r although the constants %r all match it (ambiguous before the clear)' % (partial, got, matches))
  return lookups


def special_constant(gin, name, value):
  """In which ways a constant of the history could be mistaken for (or with) the gin.REQUIRED entry."""
  if name == 'gin.REQUIRED':
    return []
  what = []
  if value is gin.REQUIRED:
    what.append('sentinel-valued-constant')
  elif isinstance(value, (type(None), bool, int, float, str, tuple)) and not value:
    what.append('falsy-constant')
  if name.endswith('.REQUIRED'):
    what.append('constant-named-like-sentinel')
  if name.startswith('gin.'):
    what.append('constant-in-gin-namespace')
  return what


def has_overlap(consts):
  names = list(consts)
  return any(a != b and a.endswith('.' + b) for a in names for b in names)


LEVEL_TEXT = ('Runtime monitor comparing, after every clear_config at the end of a generated history (failed parses and imports, file-based entry points, '
              'locked configs, operative records, imports, singletons, finalize hooks, overlapping interactive-mode constants, configurables registered '
              'mid-history, several rounds), the full set of observables with the pristine baseline recorded in the same worker right after registration, '
              'plus constant identity and lookup through every abbreviation, fresh-singleton checks, and fixed programs of API operations run right after '
              'the clear whose step-by-step outcomes are compared with a fresh interpreter holding the same registrations; a small model of each round '
              'decides finalize accepted / rejected, the lock flag and the bindings in effect before the next clear.')
LEVEL_NOTE = ('Trusted: the observation function (public API + private stores for a stronger snapshot), the round model and the suffix model of constant '
              'names. The fresh process is a real interpreter (forked per program, never configured) for eight fixed programs; for everything else it is '
              'approximated by the worker\'s own post-registration baseline.')
TECHNIQUE = 'runtime history monitor: observables after clear_config vs pristine baseline, round model, fresh-interpreter comparison of post-clear programs'
DESIGN_REF = 'DESIGN.md section 4, C20'
