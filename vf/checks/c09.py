"""C09 — config scopes nest, are restored on every exit path, and are private to a thread."""
import contextvars
import functools
import itertools
import random
import threading

from vf import core, models, probes, sched

ID = 'C09'
LEVEL = 'exploration'
RULE = ('(seq) random trees of nested config_scope entries (identifier, a/b, list, None, \'\', invalid names/types) to depth 6 whose '
        'bodies call probes (directly, through scoped get_configurable, through scoped references) and return or raise at a chosen '
        'depth (Exception and BaseException subclasses), caught at a chosen outer level; a scope-stack model is compared at every step '
        'and after every exit; thorough adds all chains of depth<=3 over a 9-kind entry alphabet x {return, raise caught at every level}. '
        '(threads) 2-4 threads each running its own program under the cooperative scheduler (random/PCT/single-preemption) and '
        'free-running; a child thread started inside a scope must start at []. (extensions, sequential) bodies raising builtin '
        'ValueError/TypeError/IndexError; dotted scope components; threads started by the running thread inside nested blocks; '
        'clear_config/parse_config/bind/query/config_str/unlock_config inside blocks; lists returned by current_scope() mutated; '
        'generators suspended inside a block and left by close()/throw()/exhaustion; scoped classes (get_configurable, reference) and their '
        'registered methods called later under another scope. (extensions, threads) before every multi-thread run bindings holding '
        'scoped references (evaluated, not evaluated, class) are parsed afresh and the threads make the first uses of those shared '
        'reference objects, at the start or the end of their programs; every other multi-thread run executes each thread inside its own '
        'copy of the main thread\'s context (contextvars.copy_context().run); sequential programs start a thread (plain or in a copied '
        'context) that sits inside its own list scope while the starter enters and leaves blocks, both sides observing. '
        'Invalid entries include lists holding non-strings. '
        'distinct = program shapes / schedule traces')
TIERS = {
    'quick': {'workers': 8, 'cases': 400, 'timeout': 900, 'thread_cases': 6, 'random_runs': 20, 'pct_runs': 9, 'preempt_samples': 40,
              'free_runs': 5, 'exhaustive': False},
    'thorough': {'workers': 16, 'cases': 8000, 'timeout': 3400, 'thread_cases': 1, 'random_runs': 90, 'pct_runs': 45,
                 'preempt_samples': 0, 'free_runs': 25, 'exhaustive': True},
}
# further workloads for the property's online monitor (vf/online.py): the repository's tests and other checks' generated cases
ONLINE = {'which': ['scope'], 'foreign': ['C01', 'C04', 'C05', 'C07', 'C10', 'C12', 'C13', 'C17', 'C20'], 'n': {'quick': 40, 'thorough': 600}}
REQUIRED_BUCKETS = ['entry:invalid-list-of-non-strings', 'entry:ident', 'entry:slash', 'entry:list', 'entry:none', 'entry:empty', 'entry:invalid-name', 'entry:invalid-type',
                    'entry:invalid-list', 'exit:return', 'exit:raise-Exception', 'exit:raise-BaseException', 'depth:4+',
                    'call:direct', 'call:scoped-get', 'call:scoped-get-with-suffix-of-active-scope', 'call:scoped-ref', 'call:probe-raises-in-scoped', 'call:probe-raises-BaseException-in-scoped', 'entry:deferred', 'entry:decorator', 'threads:shared-scoped-callable', 'threads:scheduled',
                    'threads:free', 'threads:child-in-scope', 'threads:scoped-binding-seen', 'policy:random', 'policy:pct', 'policy:preempt',
                    # extensions (audit gaps 1-7)
                    'threads:child-of-running-thread-in-scope', 'threads:child-of-running-thread-in-nested-blocks',
                    'api:clear-config-in-block', 'api:misc-in-block', 'observe:returned-scope-list-mutated',
                    'exit:raise-ValueError', 'exit:raise-TypeError', 'exit:raise-IndexError', 'call:probe-raises-ValueError-in-scoped',
                    'entry:dotted', 'entry:invalid-dotted', 'gen:close', 'gen:throw', 'gen:exhaust', 'gen:suspended-in-nested-block',
                    'call:scoped-class', 'call:scoped-class-method-under-other-scope', 'call:unscoped-class-method',
                    'call:scoped-method-raises',
                    # extensions (seeded round 2): first uses of shared reference objects, threads in copied contexts
                    'threads:first-use-of-shared-reference', 'threads:first-use:ref-call', 'threads:first-use:ref-fn',
                    'threads:first-use:ref-class', 'threads:in-copied-context', 'threads:free-in-copied-context',
                    'threads:overlapping-child', 'threads:overlapping-child-in-copied-context']
ORACLE_COUNTERS = ['oracle_evals', 'scope_checks', 'thread_scope_checks']
ASSUMPTIONS = ['interleaving granularity = LINE events inside gin/*.py']

_S = {}
KINDS = ['a', 'b', 'a/b', 'b/c/a', ['x'], ['x', 'y'], [], None, '', 'a b', 'a//b', '/a', 'a/', 5, ['x y'], ['ok', ''], ('t',), 1.5,
         # dotted components are valid module-like names; malformed dots are not
         'exp.v1', 'a.b/c', ['m.n', 'x'], 'a..b', ['.a'],
         # lists holding something that is no string
         ['a', 3], [None], ['x', ['y']], [b'a']]
# call kinds of the first version / of the extension wave; SEQ_ONLY kinds start threads, change the global configuration or build
# classes (many LINE events): thread programs run them as a plain direct call
OLD_CALLS = ['direct', 'scoped-get', 'scoped-ref', 'scoped-raise', 'scoped-get-raise', 'scoped-raise-base', 'scoped-get-raise-base',
             'deferred-entry', 'decorator-entry']
NEW_CALLS = ['child-thread', 'child-thread', 'child-overlap', 'api-clear', 'api-misc', 'scoped-raise-value', 'scoped-get-raise-value', 'gen-close', 'gen-throw',
             'gen-exhaust', 'scoped-class', 'scoped-class', 'unscoped-class', 'scoped-method-raises']
SEQ_ONLY = {'child-thread', 'child-overlap', 'api-clear', 'api-misc', 'scoped-class', 'unscoped-class', 'scoped-method-raises'}
NEW_ONLY = {'child-thread', 'child-overlap', 'api-clear', 'api-misc', 'gen-close', 'gen-throw', 'gen-exhaust', 'scoped-class', 'unscoped-class',
            'scoped-method-raises'}      # dispatched to Runner.call_<first word>


class Boom(Exception):
  pass


class BaseBoom(BaseException):
  pass


BODY_EXC = {'Boom': Boom, 'BaseBoom': BaseBoom, 'KeyboardInterrupt': KeyboardInterrupt, 'ValueError': ValueError, 'TypeError': TypeError,
            'IndexError': IndexError}
BODY_EXC_CLASSES = tuple(BODY_EXC.values())


def body_exc(kind, text):
  """An exception raised by the harness itself (block body / probe), told apart from gin's own by a mark on the instance."""
  e = BODY_EXC[kind](text)
  e.c9_body = True
  return e


def is_body_exc(e):
  return isinstance(e, BODY_EXC_CLASSES) and getattr(e, 'c9_body', False)


def setup(ctx):
  import gin
  p = probes.build({'shape': 'fn', 'api': 'configurable', 'name': 'c9f', 'module': 'c9', 'pos': [], 'dflt': [['v', 'dflt'], ['boom', None]],
                    'varargs': False, 'kwonly': [], 'varkw': False})
  _S['p'] = p

  @gin.configurable('c9raiser', module='c9')
  def raiser(kind='Boom'):
    probes.RECORDER.rec('raiser', {})
    raise body_exc(kind, 'from probe')

  @gin.configurable('c9raiserbase', module='c9')
  def raiserbase():
    probes.RECORDER.rec('raiser', {})
    raise BaseBoom('from probe (not an Exception)')

  @gin.configurable('c9nest', module='c9')
  def nest(depth=1):
    # a configurable that itself opens a named scope and calls a probe inside it
    outer = gin.current_scope()
    with gin.config_scope('inner'):
      inner = gin.current_scope()
      _S['p'].conf()
    return (outer, inner, gin.current_scope())

  _S['nest'] = nest

  @gin.configurable('c9cons', module='c9')
  def cons(x=None):
    return x

  _S['raiser'] = raiser
  _S['cons'] = cons

  @gin.register('c9cls', module='c9')
  class C9Cls:
    """registered class with a registered method (scoped class references decorate the method with the scope as well)"""

    def __init__(self, v='dflt'):
      probes.RECORDER.rec('c9cls', {'v': v})

    @gin.register
    def meth(self, v='dflt', boom=None):
      probes.RECORDER.rec('c9meth', {'v': v})
      if boom:
        raise body_exc(boom, 'from method')
      return gin.current_scope()

  _S['rawcls'] = C9Cls
  # taken at the root scope (an unscoped get_configurable captures the scope active when it is called: not this property's business)
  _S['ucls'] = gin.get_configurable('c9.c9cls')


CONFIG = """
c9f.v = 'root'
a/c9f.v = 'a'
a/b/c9f.v = 'a/b'
b/c9f.v = 'b'
x/c9f.v = 'x'
x/y/c9f.v = 'x/y'
t0/c9f.v = 't0'
t1/c9f.v = 't1'
t2/c9f.v = 't2'
t3/c9f.v = 't3'
viaref/c9cons.x = @r1/r2/c9f()
viaraise/c9cons.x = @r1/c9raiser()
viaraisebase/c9cons.x = @r1/c9raiserbase()
vianest/c9cons.x = @n1/n2/c9nest()
r1v/c9raiser.kind = 'ValueError'
viaraisevalue/c9cons.x = @r1v/c9raiser()
viacls/c9cons.x = @k1/k2/c9cls()
c9cls.v = 'cls-root'
k1/c9cls.v = 'cls-k1'
a/b/c9cls.v = 'cls-a/b'
x/c9cls.v = 'cls-x'
c9cls.meth.v = 'meth-root'
a/c9cls.meth.v = 'meth-a'
k1/k2/c9cls.meth.v = 'meth-k1/k2'
b/c9cls.meth.v = 'meth-b'
"""
BOUND = {'': 'root', 'a': 'a', 'a/b': 'a/b', 'b': 'b', 'x': 'x', 'x/y': 'x/y', 't0': 't0', 't1': 't1', 't2': 't2', 't3': 't3'}
CLS_BOUND = {'': 'cls-root', 'k1': 'cls-k1', 'a/b': 'cls-a/b', 'x': 'cls-x'}
METH_BOUND = {'': 'meth-root', 'a': 'meth-a', 'k1/k2': 'meth-k1/k2', 'b': 'meth-b'}
# Bindings whose values are scoped references, parsed again right before every multi-thread run: the reference objects are new, so
# the threads of the run make the FIRST uses of objects they share (whatever a reference prepares lazily is prepared under contention)
FRESH_CONFIG = """
viafresh/c9cons.x = @w1/w2/c9nest()
viafreshfn/c9cons.x = @w1/c9f
viafreshcls/c9cons.x = @k1/k2/c9cls()
w1/c9f.v = 'w1'
"""
FRESH_BOUND = {'': 'root', 'w1': 'w1'}
FRESH_KINDS = ['ref-call', 'ref-fn', 'ref-class']


def load_fresh():
  import gin
  gin.parse_config(FRESH_CONFIG)


def in_copied_contexts(fns):
  """Each callable runs inside its own copy of the calling thread's context, taken at the root scope (what asyncio.to_thread and
  executors that propagate context variables do).  The thread that runs the copy is still a thread of its own: its scope is private."""
  return [functools.partial(contextvars.copy_context().run, fn) for fn in fns]


def expected_v(scope, table=None):
  table = BOUND if table is None else table
  v = 'dflt'
  for i in range(len(scope) + 1):
    v = table.get('/'.join(scope[:i]), v)
  return v


def entry_bucket(arg):
  if isinstance(arg, list):
    return 'entry:list' if models.ScopeModel.valid(arg) else 'entry:invalid-list'
  if arg is None:
    return 'entry:none'
  if arg == '':
    return 'entry:empty'
  if isinstance(arg, str):
    if not models.ScopeModel.valid(arg):
      return 'entry:invalid-name'
    return 'entry:slash' if '/' in arg else 'entry:ident'
  return 'entry:invalid-type'


def gen_node(rng, depth, maxdepth):
  """node = {'arg':..., 'body': [items], 'exit': 'return' | ['raise', kind]}; items: node | ['call', how] | ['check']"""
  arg = rng.choice(KINDS) if rng.random() < 0.8 else rng.choice(['t%d' % rng.randrange(4), 'a', ['a', 'b']])
  if isinstance(arg, tuple):
    arg = {'tuple': list(arg)}
  body = []
  for _ in range(rng.choice([0, 1, 1, 2, 3])):
    k = rng.random()
    if k < 0.5 and depth < maxdepth:
      body.append(gen_node(rng, depth + 1, maxdepth))
    elif k < 0.85:
      body.append(['call', rng.choice(OLD_CALLS if rng.random() < 0.55 else NEW_CALLS)])
    else:
      body.append(['check'])
  ex = 'return'
  if rng.random() < 0.25:
    ex = ['raise', rng.choice(['Boom', 'Boom', 'BaseBoom', 'KeyboardInterrupt', 'ValueError', 'ValueError', 'TypeError', 'IndexError'])]
  return {'arg': arg, 'body': body, 'exit': ex, 'catch': rng.random() < 0.5}


def real_arg(arg):
  if isinstance(arg, dict) and 'tuple' in arg:
    return tuple(arg['tuple'])
  return arg


class Runner:
  """Executes a program tree against gin and the scope model in lock step (one instance per thread)."""

  def __init__(self, ctx, label, counter='scope_checks', sequential=False):
    import gin
    self.gin, self.ctx, self.label, self.counter = gin, ctx, label, counter
    self.sequential = sequential     # True: the only running thread (may start threads / change the global configuration)
    self.m = models.ScopeModel()
    self.maxdepth = 0
    self.shape = []
    self.fail = None

  def check_scope(self, where):
    gin = self.gin
    self.ctx.count(self.counter)
    cur = gin.current_scope()
    if cur != self.m.cur or gin.current_scope_str() != '/'.join(self.m.cur):
      self.ctx.check(False, 'scope-differs-from-model', '%s: at %s current_scope()=%r / %r, model %r (stack %r)' %
                     (self.label, where, cur, gin.current_scope_str(), self.m.cur, self.m.stack))
      return False
    self.ctx.count('oracle_evals')
    if not self.sequential:
      return True       # (under the scheduler every extra gin line is a scheduling point: the next step is left to sequential runs)
    # the list handed out is the caller's: changing it is not a scope entry or exit, so the active scope stays what it was
    cur.append('c9mutated')
    if cur[:-1]:
      del cur[0]
    again = gin.current_scope()
    self.ctx.bucket('observe:returned-scope-list-mutated')
    if again != self.m.cur:
      self.ctx.check(False, 'returned-scope-list-is-live', '%s: at %s appending to / deleting from the list returned by current_scope() '
                     'changed the active scope to %r (model %r)' % (self.label, where, again, self.m.cur))
      return False
    return True

  def call(self, how):
    gin, ctx = self.gin, self.ctx
    p = _S['p']
    mark = probes.RECORDER.mark()
    me = threading.current_thread().name
    if how in SEQ_ONLY and not self.sequential:
      how = 'direct'
    if how in NEW_ONLY:
      return getattr(self, 'call_' + how.split('-')[0])(how)
    if how == 'direct':
      ctx.bucket('call:direct')
      p.conf()
      exp_scope = self.m.cur
    elif how == 'scoped-get':
      ctx.bucket('call:scoped-get')
      cur = self.m.cur
      if len(cur) >= 2 and len(cur) % 2 == 0:
        # the explicit scope of the callable is a proper suffix of the active scope: it still REPLACES the active scope
        exp_scope = cur[len(cur) // 2:]
        ctx.bucket('call:scoped-get-with-suffix-of-active-scope')
      else:
        exp_scope = ['x', 'y']
      gin.get_configurable('/'.join(exp_scope) + '/c9f')()
    elif how == 'scoped-ref':
      ctx.bucket('call:scoped-ref')
      with gin.config_scope(['viaref']):
        _S['cons']()
      exp_scope = ['r1', 'r2']
    elif how in ('scoped-raise', 'scoped-get-raise', 'scoped-raise-base', 'scoped-get-raise-base', 'scoped-raise-value', 'scoped-get-raise-value'):
      base = how.endswith('-base')
      value = how.endswith('-value')     # a builtin ValueError: the class gin itself raises for an invalid scope name
      ctx.bucket('call:probe-raises-ValueError-in-scoped' if value else
                 'call:probe-raises-BaseException-in-scoped' if base else 'call:probe-raises-in-scoped')
      try:
        if how.startswith('scoped-raise'):
          with gin.config_scope(['viaraisevalue' if value else 'viaraisebase' if base else 'viaraise']):
            _S['cons']()
        else:
          gin.get_configurable('q1/q2/c9raiser')(kind='ValueError' if value else 'KeyboardInterrupt' if base else 'Boom')
        ctx.check(False, 'probe-exception-swallowed', '%s: raising probe did not propagate' % self.label)
      except (Boom, BaseBoom, KeyboardInterrupt):
        pass
      except ValueError:
        if not value:
          raise
      self.check_scope('after %s scoped call left by %s' % (how, 'a ValueError' if value else 'a BaseException' if base else 'an Exception'))
      return
    elif how == 'deferred-entry':
      # the context manager object is created under one scope and entered under another: the scope active at *entry* counts
      ctx.bucket('entry:deferred')
      cm = gin.config_scope('late')
      with gin.config_scope('between'):
        self.m.enter('between')
        with cm as sc:
          self.m.enter('late')
          ctx.check(sc == self.m.cur, 'yielded-scope-differs', '%s: deferred config_scope yielded %r model %r' % (self.label, sc, self.m.cur))
          self.check_scope('inside a context manager created earlier under another scope')
          self.m.exit()
        self.m.exit()
      self.check_scope('after deferred entry')
      return
    elif how == 'decorator-entry':
      ctx.bucket('entry:decorator')
      res = {}

      @gin.config_scope('deco')
      def decorated():
        res['scope'] = gin.current_scope()
      with gin.config_scope('around'):
        decorated()
        decorated()
      ctx.check(res['scope'] == self.m.cur + ['around', 'deco'], 'scope-differs-from-model',
                '%s: function decorated with config_scope saw %r, model %r' % (self.label, res['scope'], self.m.cur + ['around', 'deco']))
      self.check_scope('after decorated call')
      return
    recs = [r for r in probes.RECORDER.since(mark, p.pid) if r.thread == me]
    if not ctx.check(len(recs) == 1, 'probe-run-count', '%s: %s call ran the probe %d times' % (self.label, how, len(recs))):
      return
    r = recs[0]
    ctx.check(list(r.scope) == exp_scope, 'scope-seen-by-probe', '%s: %s call: probe saw scope %r expected %r' % (self.label, how, r.scope, exp_scope))
    ctx.check(r.received['v'] == expected_v(exp_scope), 'scoped-binding-seen-by-probe',
              '%s: %s call under %r received v=%r expected %r' % (self.label, how, exp_scope, r.received['v'], expected_v(exp_scope)))
    self.check_scope('after %s call' % how)

  # ---- extension wave: one method per family of new call kinds (NEW_ONLY maps the kind's first word to call_<word>) -------------

  def call_child(self, how):
    """A thread started by the running thread while it is inside (nested) blocks starts at the root scope, sees the root bindings,
    nests on its own, and leaves the starter's scope alone."""
    gin, ctx = self.gin, self.ctx
    if how == 'child-overlap':
      return self._child_overlapping()
    res = {}
    started_in = self.m.cur
    nblocks = len(self.m.stack) - 1

    def kid():
      try:
        res['scope'] = gin.current_scope()
        res['str'] = gin.current_scope_str()
        rr = Runner(ctx, self.label + '/thread started inside %r' % ('/'.join(started_in),), counter='thread_scope_checks')
        rr.check_scope('start of a thread started inside blocks')
        rr.call('direct')
        rr.run_program([{'arg': 'a', 'body': [['call', 'direct'], {'arg': 'b', 'body': [['call', 'direct']], 'exit': 'return'}, ['check']],
                         'exit': 'return'}])
        res['done'] = True
      except BaseException as e:   # noqa: reported by the starter below
        res['err'] = repr(e)

    t = threading.Thread(target=kid)
    t.start()
    t.join(60)
    if t.is_alive():
      raise core.Inconclusive('child thread of a sequential case did not finish')
    if started_in:
      ctx.bucket('threads:child-of-running-thread-in-scope')
      if nblocks >= 2:
        ctx.bucket('threads:child-of-running-thread-in-nested-blocks')
    ctx.check(res.get('scope') == [] and res.get('str') == '', 'new-thread-not-at-root-scope',
              '%s: a thread started while its starter was inside %d block(s), active scope %r, began with scope %r / %r' %
              (self.label, nblocks, started_in, res.get('scope'), res.get('str')))
    ctx.check(res.get('done') and 'err' not in res, 'new-thread-failed', '%s: thread started inside scope %r failed: %s' %
              (self.label, started_in, res.get('err')))
    self.check_scope('after a thread started here ran and ended')

  def _child_overlapping(self):
    """A thread started here (plainly, or running inside a copy of this thread's context as asyncio.to_thread does) stays inside a
    list scope of its own while this thread enters and leaves further blocks; each side observes between the other's steps.  Neither
    may see anything of the other.  The scope a copied-context thread STARTS with is not asserted (the statement does not say whether
    a copied context carries the starter's scope): its first block is a list entry, which replaces whatever was active, and on leaving
    that block the scope it started with must be back."""
    gin, ctx = self.gin, self.ctx
    started_in = self.m.cur
    sel = len(self.shape) + len(self.m.stack)
    via_copy = sel % 2 == 0
    leave_first = (sel // 2) % 2 == 0      # the starter leaves its extra block before / after the thread looks again
    own = [['c1'], ['c1', 'c2'], ['t1', 'a'], []][(sel // 4) % 4]
    step = ['step', 's1/s2', ['x', 'y'], None][(sel // 3) % 4]
    inside, go_on = threading.Event(), threading.Event()
    res = {}
    label = '%s/thread (%s) overlapping its starter inside %r' % (self.label, 'copied context' if via_copy else 'plain', '/'.join(started_in))

    def kid():
      try:
        res['start'] = gin.current_scope()
        rr = Runner(ctx, label, counter='thread_scope_checks')
        with gin.config_scope(own):
          rr.m.enter(own)
          rr.check_scope('inside its own list scope')
          rr.call('direct')
          inside.set()
          if not go_on.wait(60):
            res['timeout'] = True
            return
          rr.check_scope('inside its own list scope after the starter entered%s a block' % (' and left' if leave_first else ''))
          rr.call('direct')
          with gin.config_scope('b'):
            rr.m.enter('b')
            rr.check_scope('inside a named block nested in its own list scope')
            rr.call('direct')
            rr.call('scoped-get')
            rr.m.exit()
          rr.check_scope('after leaving the nested named block')
          rr.m.exit()
        res['end'] = gin.current_scope()
        res['done'] = True
      except BaseException as e:   # noqa: reported by the starter below
        res['err'] = repr(e)
      finally:
        inside.set()

    target = functools.partial(contextvars.copy_context().run, kid) if via_copy else kid
    t = threading.Thread(target=target)
    t.start()
    try:
      if not inside.wait(60):
        raise core.Inconclusive('overlapping child thread did not get inside its scope')
      ctx.bucket('threads:overlapping-child-in-copied-context' if via_copy else 'threads:overlapping-child')
      self.check_scope('while a thread started here is inside config_scope(%r)' % (own,))
      self.call('direct')
      with gin.config_scope(step):
        self.m.enter(step)
        self.check_scope('inside a further block %r while a thread started here is inside config_scope(%r)' % (step, own))
        self.call('direct')
        if not leave_first:
          go_on.set()
          t.join(60)
          self.check_scope('inside a further block %r after the thread started here left its block and ended' % (step,))
        self.m.exit()
      self.check_scope('after leaving a further block %r while a thread started here is inside config_scope(%r)' % (step, own))
    finally:
      go_on.set()
      t.join(60)
    if t.is_alive() or res.get('timeout'):
      raise core.Inconclusive('overlapping child thread of a sequential case did not finish')
    if not via_copy:
      ctx.check(res.get('start') == [], 'new-thread-not-at-root-scope', '%s: began with scope %r' % (label, res.get('start')))
    ctx.check(res.get('done') and 'err' not in res, 'new-thread-failed', '%s: failed: %s' % (label, res.get('err')))
    if res.get('done'):
      ctx.check(res['end'] == res['start'], 'scope-not-restored-in-thread', '%s: began with scope %r, entered and left config_scope(%r), '
                'then saw %r' % (label, res['start'], own, res['end']))
    self.check_scope('after an overlapping thread started here ended')
    self.call('direct')

  def call_api(self, how):
    """Calls that are not scope entries or exits leave the scope stack alone, whatever else they reset."""
    gin, ctx = self.gin, self.ctx
    if how == 'api-clear':
      ctx.bucket('api:clear-config-in-block')
      gin.clear_config()
      self.check_scope('after clear_config() inside the block')
      load_config()
      self.check_scope('after parse_config() inside the block')
    else:
      ctx.bucket('api:misc-in-block')
      gin.bind_parameter('zz/c9f.boom', None)
      self.check_scope('after bind_parameter() inside the block')
      gin.query_parameter('a/c9f.v')
      gin.parse_config("zq/c9f.boom = None\nzq/c9cons.x = @zq/c9f")
      self.check_scope('after parse_config() inside the block')
      with gin.unlock_config():
        self.check_scope('inside unlock_config() inside the block')
      gin.config_str()
      gin.operative_config_str()
      gin.get_bindings('c9f')
      self.check_scope('after query_parameter / config_str / operative_config_str / get_bindings inside the block')
    self.call('direct')

  def call_gen(self, how):
    """A generator suspended inside a config_scope block keeps the block open in the thread that runs it; close(), throw() and
    running it to the end leave the block, and then the previous scope is back."""
    gin, ctx = self.gin, self.ctx
    depth = len(self.m.stack)
    arg = ['gen', ['g1', 'g2'], 'g3/g4', None][depth % 4]
    nested = depth % 2 == 1

    def g():
      with gin.config_scope(arg) as sc:
        if nested:
          with gin.config_scope('deeper'):
            yield gin.current_scope()
        else:
          yield sc
        yield gin.current_scope()
      yield gin.current_scope()

    it = g()
    first = next(it)
    self.m.enter(arg)
    if nested:
      self.m.enter('deeper')
      ctx.bucket('gen:suspended-in-nested-block')
    ctx.check(first == self.m.cur, 'yielded-scope-differs', '%s: generator suspended inside config_scope(%r) saw %r, model %r' %
              (self.label, arg, first, self.m.cur))
    self.check_scope('while a generator is suspended inside config_scope(%r)' % (arg,))
    self.call('direct')
    if how == 'gen-close':
      ctx.bucket('gen:close')
      it.close()
    elif how == 'gen-throw':
      ctx.bucket('gen:throw')
      kind = ['Boom', 'ValueError', 'BaseBoom'][depth % 3]
      try:
        it.throw(body_exc(kind, 'thrown into the generator'))
        ctx.check(False, 'probe-exception-swallowed', '%s: exception thrown into a generator inside config_scope did not propagate' % self.label)
      except BODY_EXC_CLASSES as e:
        if not is_body_exc(e):
          raise
    else:
      ctx.bucket('gen:exhaust')
      if nested:
        second = next(it)     # left the inner block only
        self.m.exit()
        ctx.check(second == self.m.cur, 'scope-differs-from-model', '%s: generator that left its inner block saw %r, model %r' %
                  (self.label, second, self.m.cur))
        self.check_scope('generator left its inner block and is suspended in the outer one')
        nested = False
      else:
        next(it)
      third = next(it)        # now outside every block of the generator
      self.m.exit()
      ctx.check(third == self.m.cur, 'scope-differs-from-model', '%s: generator that left its block saw %r, model %r' %
                (self.label, third, self.m.cur))
      self.check_scope('generator ran out of its block')
      it.close()
      self.check_scope('after closing a generator that had left its block')
      return
    if nested:
      self.m.exit()
    self.m.exit()
    self.check_scope('after a generator suspended inside config_scope(%r) was left by %s' % (arg, how[4:] + '()'))

  def _one_rec(self, mark, pid, what):
    me = threading.current_thread().name
    recs = [r for r in probes.RECORDER.since(mark, pid) if r.thread == me]
    if not self.ctx.check(len(recs) == 1, 'probe-run-count', '%s: %s ran %d times' % (self.label, what, len(recs))):
      return None
    return recs[0]

  def _scoped_instance(self):
    """An instance built through the scoped class k1/k2/c9cls (by get_configurable or by a reference): built under exactly that scope."""
    gin, ctx = self.gin, self.ctx
    mark = probes.RECORDER.mark()
    via = ['get_configurable', 'reference'][len(self.m.stack) % 2]
    if via == 'reference':
      with gin.config_scope(['viacls']):
        inst = _S['cons']()
    else:
      inst = gin.get_configurable('k1/k2/c9cls')()
    ctx.bucket('call:scoped-class')
    r = self._one_rec(mark, 'c9cls', 'constructor of scoped class (%s)' % via)
    if r is not None:
      ctx.check(list(r.scope) == ['k1', 'k2'], 'scope-seen-by-probe', '%s: constructor of k1/k2/c9cls (%s) under %r saw scope %r' %
                (self.label, via, self.m.cur, r.scope))
      ctx.check(r.received['v'] == expected_v(['k1', 'k2'], CLS_BOUND), 'scoped-binding-seen-by-probe',
                '%s: constructor of k1/k2/c9cls (%s) received v=%r' % (self.label, via, r.received['v']))
    ctx.check(isinstance(inst, _S['rawcls']), 'scoped-class-instance', '%s: k1/k2/c9cls (%s) built %r' % (self.label, via, type(inst)))
    self.check_scope('after building an instance of a scoped class (%s)' % via)
    return inst

  def _method(self, inst, exp_scope, what, **kw):
    ctx = self.ctx
    mark = probes.RECORDER.mark()
    got = inst.meth(**kw)
    r = self._one_rec(mark, 'c9meth', what)
    if r is not None:
      ctx.check(list(r.scope) == exp_scope and got == exp_scope, 'scope-seen-by-method', '%s: %s saw scope %r / %r expected %r' %
                (self.label, what, r.scope, got, exp_scope))
      ctx.check(r.received['v'] == expected_v(exp_scope, METH_BOUND), 'scoped-binding-seen-by-method',
                '%s: %s under %r received v=%r expected %r' % (self.label, what, exp_scope, r.received['v'], expected_v(exp_scope, METH_BOUND)))
    self.check_scope('after %s' % what)

  def call_scoped(self, how):
    gin, ctx = self.gin, self.ctx
    inst = self._scoped_instance()
    if not isinstance(inst, _S['rawcls']):
      return
    if how == 'scoped-class':
      # registered methods of an instance of a scoped class enter that scope (a list: it replaces) whenever they are called
      ctx.bucket('call:scoped-class-method-under-other-scope')
      self._method(inst, ['k1', 'k2'], 'registered method of an instance of k1/k2/c9cls')
      with gin.config_scope('b'):
        self.m.enter('b')
        self._method(inst, ['k1', 'k2'], 'registered method of an instance of k1/k2/c9cls, called inside a further block')
        self.m.exit()
      self.check_scope('after the block around a method call')
    else:
      ctx.bucket('call:scoped-method-raises')
      kind = ['ValueError', 'Boom', 'BaseBoom'][len(self.m.stack) % 3]
      try:
        inst.meth(boom=kind)
        ctx.check(False, 'probe-exception-swallowed', '%s: raising method did not propagate' % self.label)
      except BODY_EXC_CLASSES as e:
        if not isinstance(e, BODY_EXC[kind]):
          raise
      self.check_scope('after a registered method of an instance of a scoped class raised %s' % kind)

  def call_unscoped(self, how):
    """The class as registered (no scope of its own): constructor and registered methods see the scope active at each call."""
    gin, ctx = self.gin, self.ctx
    ctx.bucket('call:unscoped-class-method')
    mark = probes.RECORDER.mark()
    inst = _S['ucls']()
    r = self._one_rec(mark, 'c9cls', 'constructor of the unscoped class')
    if r is not None:
      ctx.check(list(r.scope) == self.m.cur, 'scope-seen-by-probe', '%s: constructor of c9cls under %r saw scope %r' %
                (self.label, self.m.cur, r.scope))
      ctx.check(r.received['v'] == expected_v(self.m.cur, CLS_BOUND), 'scoped-binding-seen-by-probe',
                '%s: constructor of c9cls under %r received v=%r' % (self.label, self.m.cur, r.received['v']))
    self._method(inst, self.m.cur, 'registered method of an unscoped instance')
    with gin.config_scope('b'):
      self.m.enter('b')
      self._method(inst, self.m.cur, 'registered method of an unscoped instance built outside this block')
      self.m.exit()
    with gin.config_scope(['k1']):
      self.m.enter(['k1'])
      self._method(inst, ['k1'], 'registered method of an unscoped instance called under a list scope')
      self.m.exit()
    self.check_scope('after method calls under further blocks')

  def run_node(self, node, depth=1):
    gin, ctx = self.gin, self.ctx
    arg = real_arg(node['arg'])
    ctx.bucket(entry_bucket(arg))
    self.maxdepth = max(self.maxdepth, depth)
    valid = self.m.valid(arg)
    if isinstance(arg, (str, list)) and any(isinstance(c, str) and '.' in c for c in (arg.split('/') if isinstance(arg, str) else arg)):
      ctx.bucket('entry:dotted' if valid else 'entry:invalid-dotted')
    before = self.m.cur
    before_stack = [list(s) for s in self.m.stack]
    self.shape.append((entry_bucket(arg), depth))
    try:
      try:
        with gin.config_scope(arg) as sc:
          if not valid:
            ctx.check(False, 'invalid-scope-accepted', '%s: config_scope(%r) accepted' % (self.label, arg))
          self.m.enter(arg)
          try:
            ctx.check(sc == self.m.cur, 'yielded-scope-differs', '%s: config_scope(%r) yielded %r model %r' % (self.label, arg, sc, self.m.cur))
            self.check_scope('inside %r' % (arg,))
            for item in node['body']:
              if isinstance(item, dict):
                self.run_node(item, depth + 1)
              elif item[0] == 'call':
                self.call(item[1])
              else:
                self.check_scope('check in %r' % (arg,))
            if node['exit'] != 'return':
              kind = node['exit'][1]
              ctx.bucket('exit:raise-' + ('Exception' if kind == 'Boom' else 'BaseException' if kind in ('BaseBoom', 'KeyboardInterrupt') else kind))
              raise body_exc(kind, 'body')
            ctx.bucket('exit:return')
          finally:
            self.m.exit()
      except (ValueError, TypeError) as e:
        if is_body_exc(e):
          raise                       # raised by a block body (here or deeper): handled below like every other body exception
        if isinstance(e, TypeError) and (valid or not (isinstance(arg, list) and not all(isinstance(c, str) for c in arg))):
          raise
        if valid:
          # the model was not entered: the exception came out of __enter__
          ctx.check(False, 'valid-scope-rejected', '%s: config_scope(%r) raised %r' % (self.label, arg, e))
        elif isinstance(e, TypeError):
          ctx.bucket('entry:invalid-list-of-non-strings')     # (the class of the rejection is not pinned down: a list element that is no string)
        elif 'name_or_scope' not in str(e):
          raise
        ctx.count('oracle_evals')
      # whatever happened, on leaving the block the previous scope is restored exactly
      self.check_scope('after leaving %r' % (arg,))
    except BODY_EXC_CLASSES as e:
      if not is_body_exc(e):
        raise
      self.m.stack = before_stack
      self.check_scope('after %s left %r' % (type(e).__name__, arg))
      if not node.get('catch') and depth > 1:
        raise
    active_stack = getattr(gin.config._SCOPE_MANAGER, 'active_scopes', None)
    if active_stack is not None:
      ctx.check(len(active_stack) == len(self.m.stack), 'scope-stack-depth',
                '%s: scope stack depth %d, model %d after %r' % (self.label, len(active_stack), len(self.m.stack), arg))

  def run_program(self, prog):
    for node in prog:
      self.run_node(node)
    self.check_scope('end of program')
    if self.maxdepth >= 4:
      self.ctx.bucket('depth:4+')


def gen_seq_case(rng):
  return {'kind': 'seq', 'prog': [gen_node(rng, 1, rng.choice([2, 3, 4, 6])) for _ in range(rng.choice([1, 2, 3]))]}


def gen_thread_case(rng):
  nt = rng.choice([2, 3, 4])
  progs = []
  for t in range(nt):
    prog = []
    for _ in range(rng.choice([1, 2])):
      n = gen_node(rng, 1, 3)
      n['arg'] = rng.choice(['t%d' % t, 't%d' % t, 'a', ['x', 'y'], 't%d/a' % t])
      prog.append(n)
    progs.append(prog)
  case = {'kind': 'threads', 'progs': progs, 'seed': rng.randrange(1 << 30), 'child': rng.random() < 0.5}
  # first uses of freshly parsed shared references: the same kinds in every thread, each thread at the start or the end of its program
  frng = random.Random(case['seed'] ^ 0x5eed)
  kinds = frng.sample(FRESH_KINDS, frng.choice([1, 1, 2]))
  case['fresh'] = [[frng.choice(['start', 'start', 'end']), kinds] for _ in range(nt)]
  return case


def iter_cases(ctx, rng, n):
  tc = ctx.params['thread_cases']
  for i in range(n):
    yield gen_seq_case(rng)
  for i in range(tc):
    yield gen_thread_case(rng)


def load_config():
  import gin
  gin.parse_config(CONFIG)


def run_seq(ctx, case):
  import gin
  gin.clear_config()
  gin.parse_config(CONFIG)
  r = Runner(ctx, 'seq', sequential=True)
  r.run_program(case['prog'])
  ctx.fp('seq', tuple(r.shape))
  ctx.sample({'kind': 'seq', 'prog': case['prog']}, cap=2)


def use_fresh(ctx, r, label, kind):
  """Use a scoped reference of FRESH_CONFIG (for a real thread of a run: possibly the first use ever of that object, possibly at the
  same time as another thread's).  A scoped reference runs its configurable under exactly the reference's scope, with that scope's
  bindings, in whichever thread and at whatever moment it is used."""
  import gin
  me = threading.current_thread().name
  ctx.bucket('threads:first-use-of-shared-reference')
  ctx.bucket('threads:first-use:' + kind)
  ctx.count('thread_scope_checks')
  mark = probes.RECORDER.mark()
  if kind == 'ref-call':
    with gin.config_scope(['viafresh']):
      got = _S['cons']()
    ctx.check(got == (['w1', 'w2'], ['w1', 'w2', 'inner'], ['w1', 'w2']), 'shared-reference-ran-outside-its-scope',
              '%s: evaluated reference @w1/w2/c9nest() (new since the last parse, shared with other threads) ran under '
              '(outer, inner, after) = %r' % (label, got))
    pid, exp_scope, table, what = _S['p'].pid, ['w1', 'w2', 'inner'], FRESH_BOUND, 'probe called inside @w1/w2/c9nest()'
  elif kind == 'ref-fn':
    with gin.config_scope(['viafreshfn']):
      f = _S['cons']()
    with gin.config_scope('t0'):
      f()
    pid, exp_scope, table, what = _S['p'].pid, ['w1'], FRESH_BOUND, 'the callable of reference @w1/c9f called under t0'
  else:
    with gin.config_scope(['viafreshcls']):
      inst = _S['cons']()
    ctx.check(isinstance(inst, _S['rawcls']), 'scoped-class-instance', '%s: reference @k1/k2/c9cls() built %r' % (label, type(inst)))
    pid, exp_scope, table, what = 'c9cls', ['k1', 'k2'], CLS_BOUND, 'constructor called by reference @k1/k2/c9cls()'
  recs = [x for x in probes.RECORDER.since(mark, pid) if x.thread == me]
  if ctx.check(len(recs) == 1, 'probe-run-count', '%s: %s ran %d times' % (label, what, len(recs))):
    ctx.check(list(recs[0].scope) == exp_scope, 'shared-reference-ran-outside-its-scope', '%s: %s (reference new since the last parse, '
              'shared with other threads) saw scope %r expected %r' % (label, what, recs[0].scope, exp_scope))
    ctx.check(recs[0].received['v'] == expected_v(exp_scope, table), 'shared-reference-got-other-scopes-bindings',
              '%s: %s received v=%r expected %r' % (label, what, recs[0].received['v'], expected_v(exp_scope, table)))
  r.check_scope('after using a fresh shared reference (%s)' % kind)


def thread_fn(ctx, prog, label, child, fresh=None):
  import gin
  fresh_at, fresh_kinds = fresh or ('start', [])

  def fn():
    r = Runner(ctx, label, counter='thread_scope_checks')
    r.check_scope('thread start')
    if fresh_at == 'start':
      for kind in fresh_kinds:
        use_fresh(ctx, r, label, kind)
    r.run_program(prog)
    if fresh_at != 'start':
      for kind in fresh_kinds:
        use_fresh(ctx, r, label, kind)
    # scoped callables shared by all threads: one reference object and one get_configurable() result
    shared = _S.get('shared_fn')
    for k in range(2):
      with gin.config_scope(['vianest']):
        got = _S['cons']()
      ctx.count('thread_scope_checks')
      ctx.check(got == (['n1', 'n2'], ['n1', 'n2', 'inner'], ['n1', 'n2']), 'shared-scoped-reference-saw-other-scope',
                '%s: a scoped reference shared with other threads ran under (outer, inner, after) = %r' % (label, got))
      if shared is not None:
        with gin.config_scope('t0'):
          got = shared()
        ctx.count('thread_scope_checks')
        ctx.check(got == (['h1', 'h2'], ['h1', 'h2', 'inner'], ['h1', 'h2']), 'shared-scoped-callable-saw-other-scope',
                  '%s: a scoped configurable shared with other threads ran under (outer, inner, after) = %r' % (label, got))
      r.check_scope('after shared scoped calls')
    if child:
      res = {}

      def kid():
        res['scope'] = gin.current_scope()
        rr = Runner(ctx, label + '/child', counter='thread_scope_checks')
        rr.run_program(prog[:1])
        res['done'] = True

      with gin.config_scope('t0/a'):
        t = threading.Thread(target=kid)
        t.start()
        t.join(30)
        r.m.enter('t0/a')
        r.check_scope('after child thread')
        r.m.exit()
      ctx.bucket('threads:child-in-scope')
      ctx.check(res.get('scope') == [] and res.get('done'), 'new-thread-not-at-root-scope',
                '%s: a thread started inside scope t0/a began with scope %r' % (label, res.get('scope')))
    return True
  return fn


def run_threads(ctx, case):
  import gin
  from gin import config as gc
  gin.clear_config()
  gin.parse_config(CONFIG)
  if 'sched' not in _S:
    s = sched.Scheduler(core.repo_root())
    s.install()
    _S['sched'] = s
    ctx.note('instrumented_code_objects', len(s.codes))
  s = _S['sched']
  rng = random.Random(case['seed'])
  nt = len(case['progs'])
  fresh = case.get('fresh') or [None] * nt
  load_fresh()
  # warm-up, sequentially
  for i in range(nt):
    thread_fn(ctx, case['progs'][i], 'warm%d' % i, False, fresh[i])()
  undo = s.swap_locks(gc)
  _S['shared_fn'] = gin.get_configurable('h1/h2/c9nest')
  ctx.bucket('threads:shared-scoped-callable')

  nruns = [0]

  def one(policy, label):
    nruns[0] += 1
    copied = nruns[0] % 2 == 0
    if copied:
      label += ' (threads in copied contexts)'
    load_fresh()      # new reference objects: this run's threads make their first uses
    fns = [thread_fn(ctx, case['progs'][i], '%s t%d' % (label, i), False, fresh[i]) for i in range(nt)]
    if copied:
      # the main thread is at the root scope and has used scopes and configurables (warm-up) before its context is copied
      fns = in_copied_contexts(fns)
      ctx.bucket('threads:in-copied-context')
    res = s.run(fns, policy, timeout=120.0)
    if res['timed_out'] or res['aborted']:
      raise core.Inconclusive('scheduler run timed out / aborted (%s)' % label)
    ctx.bucket('threads:scheduled')
    ctx.bucket('threads:scoped-binding-seen')
    ctx.fp(case['seed'], res['trace_hash'])
    ctx.count('schedules_run')
    for i, e in enumerate(res['errors']):
      if e is not None:
        ctx.check(False, 'thread-exception:' + e[0], '%s: thread %d failed: %s %s' % (label, i, e[0], str(e[1])[:300]),
                  {'trace_tail': res['trace'][-10:]})
    return res

  try:
    for r in range(ctx.params['random_runs']):
      ctx.bucket('policy:random')
      one(sched.Policy('random', random.Random(rng.randrange(1 << 30)), p=[0.02, 0.1, 0.3][r % 3]), 'random#%d' % r)
    base = one(sched.Policy('preempt', preempt=(0, -1, 0)), 'unpreempted')
    for r in range(ctx.params['pct_runs']):
      ctx.bucket('policy:pct')
      one(sched.Policy('pct', random.Random(rng.randrange(1 << 30)), depth=1 + r % 3, nthreads=nt, est_steps=max(50, sum(base['steps']))), 'pct#%d' % r)
    points = []
    for t in range(nt):
      st = one(sched.Policy('preempt', preempt=(t, -1, 0)), 'count')['steps'][t]
      points += [(t, k, j) for k in range(1, st + 1) for j in range(nt) if j != t]
    if ctx.params['preempt_samples']:
      points = rng.sample(points, min(len(points), ctx.params['preempt_samples']))
    else:
      ctx.count('single_preemption_scenarios_enumerated')   # thorough: every single-preemption schedule of the scenario
    for (t, k, j) in points:
      ctx.bucket('policy:preempt')
      one(sched.Policy('preempt', preempt=(t, k, j)), 'preempt(%d,%d,%d)' % (t, k, j))
  finally:
    sched.Scheduler.restore_locks(undo)
  for r in range(ctx.params['free_runs']):
    ctx.bucket('threads:free')
    load_fresh()
    copied = r % 2 == 1
    fns = [thread_fn(ctx, case['progs'][i], 'free#%d%s t%d' % (r, ' (threads in copied contexts)' if copied else '', i),
                     case['child'] and i == 0, fresh[i]) for i in range(nt)]
    if copied:
      fns = in_copied_contexts(fns)
      ctx.bucket('threads:free-in-copied-context')
    res = sched.free_run(fns)
    if res['timed_out']:
      raise core.Inconclusive('free-running threads timed out')
    for i, e in enumerate(res['errors']):
      if e is not None:
        ctx.check(False, 'thread-exception:' + e[0], 'free run: thread %d failed: %s %s' % (i, e[0], str(e[1])[:300]))
  ctx.sample({'kind': 'threads', 'progs': case['progs'], 'unpreempted_steps': base['steps']}, cap=1)


def exhaustive(ctx):
  """All chains of depth<=3 over a 9-kind alphabet x (return | raise at the innermost level caught at each outer level)."""
  import gin
  gin.clear_config()
  gin.parse_config(CONFIG)
  alpha = ['a', 'a/b', ['x'], [], None, '', 'a b', 5, ['x y']]
  n = 0
  for d in (1, 2, 3):
    for chain in itertools.product(range(len(alpha)), repeat=d):
      for ex in ['return', 'Boom', 'BaseBoom', 'ValueError']:
        for catch_level in (range(d) if ex != 'return' else [0]):
          n += 1
          if n % ctx.nworkers != ctx.widx:
            continue
          node = None
          for lvl in range(d - 1, -1, -1):
            body = [['check'], node, ['call', 'direct']] if node else [['call', 'direct']]
            node = {'arg': alpha[chain[lvl]], 'body': body, 'exit': ('return' if (lvl != d - 1 or ex == 'return') else ['raise', ex]),
                    'catch': lvl == catch_level}
          r = Runner(ctx, 'exh')
          r.run_program([node])
          ctx.count('exhaustive_programs')
          ctx.fp('exh', chain, ex, catch_level)
  ctx.exhaustive = True


def run_case(ctx, case):
  if case['kind'] == 'seq':
    run_seq(ctx, case)
  else:
    run_threads(ctx, case)


def finish(ctx):
  if ctx.params.get('exhaustive'):
    exhaustive(ctx)
  if 'sched' in _S:
    _S['sched'].uninstall()


LEVEL_TEXT = ('Runtime monitor: a per-thread scope-stack model is compared with current_scope()/current_scope_str(), with what every '
              'probe saw and received, and with the stack depth after every entry, exit and exception; thread programs run under a '
              'deterministic LINE-granularity scheduler (random, PCT, sampled single-preemption) and free-running, half of the runs with every thread '
              'inside a copy of the main thread\'s context, all of them making the first uses of freshly parsed shared references; thorough enumerates all '
              'entry chains of depth<=3 over a 9-kind alphabet with every exit/catch placement.')
LEVEL_NOTE = 'Trusted: the 20-line scope model, vf/sched.py. Callers mutating the list passed to config_scope are out of scope (DESIGN X).'
TECHNIQUE = 'runtime reference-model monitor per thread + deterministic sys.monitoring schedule exploration + exhaustive small-scope programs'
DESIGN_REF = 'DESIGN.md sections 3 and 4, C09'
