"""C17 — exceptions from configurables keep their type, data and traceback."""
import builtins
import traceback

ID = 'C17'
LEVEL = 'exploration'
RULE = ('every BaseException subclass found in builtins, constructed with representative arguments (OSError family with errno/strerror/filename, '
        'StopIteration(value), Unicode*Error, SyntaxError with location tuple, ImportError(name=, path=), AttributeError(name=, obj=), KeyError, '
        'ExceptionGroup, ...), plus user classes (required constructor arguments in __init__ / in __new__, extra attributes, class attribute shadowed by '
        'instance attribute, __slots__, properties, custom __str__, multiple inheritance, subclass of ExceptionGroup) raised at nesting depth 1-4 of '
        'configurable calls (functions and classes), inside scopes, and while Gin evaluates a reference for a consumer; the caught object is compared '
        'with the original kept by the probe: class identity by name/module/qualname, a real except clause for every class of the MRO, every public '
        'non-callable attribute, the traceback (raising frame present), the message (original text + one "In call to configurable" per level); '
        'non-Exception BaseExceptions must pass through untouched. distinct = (exception class, depth, raise site)')
TIERS = {
    'quick': {'workers': 8, 'cases': 1800, 'timeout': 600},
    'thorough': {'workers': 16, 'cases': 8000, 'timeout': 3000},
}
REQUIRED_BUCKETS = ['cls:OSError-family', 'cls:StopIteration', 'cls:UnicodeError', 'cls:SyntaxError', 'cls:ImportError', 'cls:AttributeError', 'cls:KeyError',
                    'cls:ExceptionGroup', 'cls:user-init-args', 'cls:user-new-args', 'cls:user-extra-attrs', 'cls:user-slots', 'cls:user-property',
                    'cls:user-custom-str', 'cls:user-multiple-inheritance', 'cls:user-shadowed-class-attr', 'cls:user-group-subclass', 'cls:BaseException-passthrough',
                    'cls:user-new-raises-on-reconstruction', 'cls:user-new-is-a-factory', 'cls:user-init-subclass-hook', 'cls:explicit-cause', 'depth:1', 'depth:4', 'site:function', 'site:class-constructor', 'site:reference-evaluation', 'site:scoped', 'site:method', 'site:hostile-signature',
                    'cls:user-new-sets-state', 'cls:message-ends-with-whitespace', 'cls:TypeError-subclass']
ORACLE_COUNTERS = ['oracle_evals', 'exceptions_compared', 'attributes_compared', 'except_clauses_tried']
_S = {}


class UInit(Exception):
  """required constructor arguments in __init__ that are not forwarded to Exception"""

  def __init__(self, code, detail):
    super().__init__('uinit %s' % code)
    self.code = code
    self.detail = detail


class UNew(Exception):
  """required arguments in __new__"""

  def __new__(cls, a, b):
    self = super().__new__(cls, a, b)
    self.a = a
    self.b = b
    return self

  def __init__(self, a, b):
    super().__init__('unew %s%s' % (a, b))


class UAttrs(ValueError):

  def __init__(self, *args):
    super().__init__(*args)
    self.payload = {'k': [1, 2]}
    self.count = 3


class USlots(Exception):
  __slots__ = ('slot_a', 'slot_b')

  def __init__(self, a):
    super().__init__(a)
    self.slot_a = a
    self.slot_b = [a]


class UProp(RuntimeError):

  def __init__(self, v):
    super().__init__()
    self._v = v

  @property
  def doubled(self):
    return self._v * 2


class UStr(KeyError):

  def __str__(self):
    return 'custom-str(%s)' % ', '.join(map(str, self.args))


class UMulti(KeyError, OSError):
  pass


class UShadow(Exception):
  code = 0
  kind = 'class-level'

  def __init__(self, code):
    super().__init__(code)
    self.code = code


class UGroup(ExceptionGroup):

  def __new__(cls, message, excs, tag):
    self = super().__new__(cls, message, excs)
    self.tag = tag
    return self

  def derive(self, excs):
    return UGroup(self.message, excs, self.tag)


class UBase(BaseException):
  pass


_serial = [0]


class UNewState(Exception):
  """State set in __new__ that is not a function of the arguments, then changed by __init__ and by the raiser."""

  def __new__(cls, *args):
    self = super().__new__(cls, *args)
    _serial[0] += 1
    self.serial = _serial[0]
    self.stage = 'new'
    self.count = 0
    return self

  def __init__(self, *args):
    super().__init__(*args)
    self.stage = 'init'


class UTrailing(ValueError):
  """A custom __str__ ending in whitespace (e.g. captured command output)."""

  def __str__(self):
    return 'captured output line\n\t '


class UTypeError(TypeError):

  def __init__(self, msg, info):
    super().__init__(msg)
    self.info = info


class UNewRaises(Exception):
  """__new__ validates its arguments (and rejects, with ValueError, what __init__ later stores in args)."""

  def __new__(cls, code, extra=None):
    int(code)
    return super().__new__(cls, code, extra)

  def __init__(self, code, extra=None):
    super().__init__('code %s failed' % code)
    self.code = code


class UFactory(Exception):
  """__new__ acts as a factory (the OSError pattern): it may return an instance of a registered subclass."""
  by_code = {}

  def __new__(cls, code, detail=None):
    return super().__new__(UFactory.by_code.get(code, cls), code, detail)

  def __init__(self, code, detail=None):
    super().__init__(code, detail)
    self.detail = detail


class UFactoryNotFound(UFactory):
  pass


UFactory.by_code[404] = UFactoryNotFound


class UInitSubclassKw(Exception):

  def __init_subclass__(cls, *, code, **kw):
    super().__init_subclass__(**kw)
    cls.code = code


class UInitSubclassKwChild(UInitSubclassKw, code=3):
  pass


class UFinal(Exception):
  """A class that refuses to be subclassed any further."""

  def __init_subclass__(cls, **kw):
    raise RuntimeError('UFinal is final')


# classes nobody can subclass at raise time: the message cannot be extended without changing the class; class, data and traceback still hold
NO_MESSAGE_EXTENSION = (UInitSubclassKw, UFinal)


def chained(e, cause):
  e.__cause__ = cause          # as `raise e from cause` does (also sets __suppress_context__)
  return e


def bump(e):
  e.count += 5          # the raised object differs from a freshly constructed one
  e.stage = 'about-to-raise'
  return e


def builtin_instances():
  """(bucket, factory) for every exception class in builtins."""
  out = []
  obj = object()
  for name in sorted(dir(builtins)):
    cls = getattr(builtins, name)
    if not (isinstance(cls, type) and issubclass(cls, BaseException)):
      continue
    if not issubclass(cls, Exception):
      if cls in (BaseExceptionGroup,):
        out.append(('cls:BaseException-passthrough', lambda cls=cls: cls('beg', [KeyboardInterrupt()])))
      else:
        out.append(('cls:BaseException-passthrough', lambda cls=cls: cls('base', 1)))
      continue
    if issubclass(cls, BlockingIOError):
      out.append(('cls:OSError-family', lambda cls=cls: cls(11, 'would block', 7)))
    elif issubclass(cls, OSError):
      out.append(('cls:OSError-family', lambda cls=cls: cls(2, 'No such thing', '/some/file.txt')))
      out.append(('cls:OSError-family', lambda cls=cls: cls(13, 'denied', 'a.txt', None, 'b.txt')))
      out.append(('cls:OSError-family', lambda cls=cls: cls('just a message')))
    elif issubclass(cls, (StopIteration, StopAsyncIteration)):
      out.append(('cls:StopIteration', lambda cls=cls: cls(['the', 'value'])))
    elif issubclass(cls, UnicodeDecodeError):
      out.append(('cls:UnicodeError', lambda cls=cls: cls('utf-8', b'ab\xffcd', 2, 3, 'invalid start byte')))
    elif issubclass(cls, UnicodeEncodeError):
      out.append(('cls:UnicodeError', lambda cls=cls: cls('ascii', 'ab\xe9cd', 2, 3, 'ordinal not in range')))
    elif issubclass(cls, UnicodeTranslateError):
      out.append(('cls:UnicodeError', lambda cls=cls: cls('ab\xe9cd', 2, 3, 'cannot translate')))
    elif issubclass(cls, SyntaxError):
      out.append(('cls:SyntaxError', lambda cls=cls: cls('bad syntax', ('file.py', 3, 5, 'x = (', 3, 9))))
    elif issubclass(cls, ImportError):
      out.append(('cls:ImportError', lambda cls=cls: cls('cannot import', name='some.module', path='/p/some/module.py')))
    elif issubclass(cls, (AttributeError,)):
      out.append(('cls:AttributeError', lambda cls=cls: cls('no attribute', name='attr', obj=obj)))
    elif issubclass(cls, NameError):
      out.append(('cls:AttributeError', lambda cls=cls: cls('no name', name='nm')))
    elif issubclass(cls, KeyError):
      out.append(('cls:KeyError', lambda cls=cls: cls(('tuple', 'key'))))
    elif issubclass(cls, BaseExceptionGroup):
      out.append(('cls:ExceptionGroup', lambda cls=cls: cls('group message', [ValueError(1), OSError(2, 'x'), cls('inner', [KeyError('k')])])))
    else:
      out.append(('cls:generic', lambda cls=cls: cls('a message', 42)))
      out.append(('cls:generic', lambda cls=cls: cls()))
  out += [
      ('cls:user-init-args', lambda: UInit(7, {'d': 1})),
      ('cls:user-new-args', lambda: UNew('x', 'y')),
      ('cls:user-extra-attrs', lambda: UAttrs('bad value', 3)),
      ('cls:user-slots', lambda: USlots('s')),
      ('cls:user-property', lambda: UProp(21)),
      ('cls:user-custom-str', lambda: UStr('k1', 'k2')),
      ('cls:user-multiple-inheritance', lambda: UMulti(5, 'multi')),
      ('cls:user-shadowed-class-attr', lambda: UShadow(99)),
      ('cls:user-group-subclass', lambda: UGroup('ug', [ValueError('v'), TypeError('t')], 'TAG')),
      ('cls:BaseException-passthrough', lambda: UBase('ubase')),
      ('cls:user-new-sets-state', lambda: bump(UNewState('state', 1))),
      ('cls:message-ends-with-whitespace', lambda: UTrailing('x')),
      ('cls:message-ends-with-whitespace', lambda: ValueError('a message ending in a newline\n')),
      ('cls:message-ends-with-whitespace', lambda: KeyError('trailing space ')),
      ('cls:TypeError-subclass', lambda: UTypeError('bad type', {'expected': int})),
      ('cls:user-new-raises-on-reconstruction', lambda: UNewRaises(42)),
      ('cls:user-new-is-a-factory', lambda: UFactory(404, 'gone')),
      ('cls:user-new-is-a-factory', lambda: UFactory(500, 'boom')),
      ('cls:user-init-subclass-hook', lambda: UInitSubclassKwChild('x')),
      ('cls:user-init-subclass-hook', lambda: UFinal('y')),
      ('cls:explicit-cause', lambda: chained(ValueError('bad'), KeyError('k'))),
      ('cls:explicit-cause', lambda: chained(UAttrs('bad value', 3), None)),
      ('cls:explicit-cause', lambda: chained(OSError(2, 'No such thing', '/x'), UBase('base cause'))),
  ]
  return out


def setup(ctx):
  import gin
  state = {'exc': None, 'depth': 0}
  _S['state'] = state

  def innermost():
    e = state['exc']
    raise e

  @gin.configurable('c17f1', module='c17')
  def f1(p=0):
    innermost()

  @gin.configurable('c17f2', module='c17')
  def f2(p=0):
    f1()

  @gin.configurable('c17C3', module='c17')
  class C3:
    def __init__(self, p=0):
      f2()

  @gin.register('c17f4', module='c17')
  def f4(p=0):
    C3()

  @gin.configurable('c17cons', module='c17')
  def cons(v=None):
    return v

  @gin.register('c17K', module='c17')
  class K:
    def __init__(self, c=0):
      pass

    @gin.register
    def c17meth(self, m=0):
      innermost()

  @gin.configurable('c17kwonly', module='c17')
  def kwonly(x, *, schema, strict):      # keyword-only parameters, none with a default
    innermost()

  @gin.configurable('c17varargs', module='c17')
  def varargs(a, b=1, *rest, flag=False, **extra):
    innermost()

  @gin.register('c17Init', module='c17')
  class Init:
    def __init__(self, req, *, opt=None):
      innermost()

  # configurables whose repr (which Gin puts into the message) contains format-string metacharacters
  import functools

  def pfetch(table, options=None, limit=10):
    innermost()
  part = gin.external_configurable(functools.partial(pfetch, 'users', options={'retries': 2, '{scope_info}': '%s %(x)s {0} {}'}), 'c17partial', module='c17')

  class Stage:
    def __init__(self, **settings):
      self.settings = settings

    def __call__(self, limit=10):
      innermost()

    def __repr__(self):
      return 'Stage(' + repr(self.settings) + ') {} {0} {name} %s %d %(k)s'
  stage = gin.external_configurable(Stage(rate=0.5), 'c17stage', module='c17')

  class ReprMeta(type):
    def __repr__(cls):
      return '<model ' + cls.__name__ + ' {hidden=64} {} %s>'

  class Model(metaclass=ReprMeta):
    def __init__(self, limit=10):
      innermost()
  model = gin.external_configurable(Model, 'c17Model', module='c17')

  _S['hostile'] = [lambda: kwonly(1, schema='s', strict=True), lambda: varargs(1, 2, 3, 4, flag=True, z=5), lambda: gin.get_configurable(Init)(0),
                   lambda: kwonly(x=2, schema=None, strict=False), lambda: part(), lambda: stage(limit=3), lambda: model()]
  _S['hostile_names'] = ['kwonly', 'varargs', '__init__', 'kwonly', 'pfetch', '__call__', '__init__']
  _S['levels'] = {1: f1, 2: f2, 3: C3, 4: gin.get_configurable(f4)}
  _S['cons'] = cons
  _S['K'] = K
  _S['instances'] = builtin_instances()


def iter_cases(ctx, rng, n):
  inst = _S['instances']
  for i in range(n):
    yield {'which': i % len(inst), 'depth': rng.choice([1, 1, 2, 3, 4]), 'site': rng.choice(['direct', 'direct', 'scoped', 'reference', 'method', 'hostile-signature']),
           'hostile': rng.randrange(7)}


def public_attrs(e):
  out = {}
  for name in dir(e):
    if name.startswith('_'):
      continue
    try:
      v = getattr(e, name)
    except Exception:  # pylint: disable=broad-except
      continue
    if callable(v):
      continue
    out[name] = v
  return out


def same(a, b):
  if a is b:
    return True
  try:
    return bool(a == b) and type(a) is type(b)
  except Exception:  # pylint: disable=broad-except
    return False


def run_case(ctx, case):
  import gin
  bucket, factory = _S['instances'][case['which']]
  orig = factory()
  ctx.bucket(bucket)
  depth, site = case['depth'], case['site']
  _S['state']['exc'] = orig
  gin.clear_config()
  expected_levels = depth
  scope = ''
  try:
    if site == 'direct':
      ctx.bucket('site:function' if depth != 3 else 'site:class-constructor')
      _S['levels'][depth]()
    elif site == 'scoped':
      ctx.bucket('site:scoped')
      scope = 'sa/sb'
      with gin.config_scope(scope):
        _S['levels'][depth]()
    elif site == 'reference':
      ctx.bucket('site:reference-evaluation')
      gin.parse_config('c17cons.v = [1, {"k": @rs/c17f%d()}]' % min(depth, 2) if depth <= 2 else 'c17cons.v = @rs/c17f4()')
      # the consumer's own call has not started while its argument is evaluated: one location per *running* configurable
      expected_levels = min(depth, 2) if depth <= 2 else 4
      depth = expected_levels
      _S['cons']()
    elif site == 'hostile-signature':
      ctx.bucket('site:hostile-signature')
      expected_levels = 1
      depth = 1
      _S['hostile'][case['hostile']]()
    else:
      ctx.bucket('site:method')
      expected_levels = 1
      depth = 1
      gin.get_configurable(_S['K'])().c17meth()
    ctx.check(False, 'exception-swallowed', '%s raised inside a configurable did not reach the caller' % type(orig).__name__)
    return
  except BaseException as e:  # pylint: disable=broad-except
    caught = e
  if depth >= 3 and site != 'method':
    ctx.bucket('site:class-constructor')
  ctx.bucket('depth:%d' % min(case['depth'], 4))
  ctx.count('exceptions_compared')
  tname = type(orig).__name__
  ctx.fp(tname, bucket, case['depth'], site, tuple(sorted(public_attrs(orig))))
  ctx.sample({'class': tname, 'args': repr(orig.args)[:120], 'depth': case['depth'], 'site': site, 'caught_str': str(caught)[:300]}, cap=5)

  if not isinstance(orig, Exception):
    ctx.check(caught is orig, 'base-exception-not-passed-through', '%s (not an Exception) was replaced by %r' % (tname, caught))
    return
  # ---- class identity and except clauses
  if not ctx.check(isinstance(caught, type(orig)), 'exception-class-changed:' + mechanism(orig),
                   '%s raised inside a configurable surfaced as %s: %s' % (tname, type(caught).__name__, str(caught)[:300])):
    return
  t = type(caught)
  ctx.check((t.__name__, t.__module__, t.__qualname__) == (type(orig).__name__, type(orig).__module__, type(orig).__qualname__), 'exception-class-name-differs',
            'caught class is %s.%s (%s), original %s.%s (%s)' % (t.__module__, t.__qualname__, t.__name__, type(orig).__module__, type(orig).__qualname__, type(orig).__name__))
  for klass in type(orig).__mro__:
    if klass is object:
      continue
    ctx.count('except_clauses_tried')
    try:
      try:
        raise caught
      except klass:
        ok = True
    except BaseException:  # pylint: disable=broad-except
      ok = False
    ctx.check(ok, 'except-clause-does-not-catch', 'except %s: does not catch the re-raised %s' % (klass.__name__, tname))
  if isinstance(orig, BaseExceptionGroup):
    try:
      try:
        raise caught
      except* ValueError as g:
        got = [type(x).__name__ for x in g.exceptions]
      except* Exception:
        pass
      ctx.check(got == ['ValueError'], 'except-star-does-not-split', 'except* ValueError saw %r' % (got,))
    except BaseException as ee:  # pylint: disable=broad-except
      ctx.check(False, 'except-star-does-not-split', 'except* on the caught group failed: %r' % (ee,))
  # ---- data
  pa = public_attrs(orig)
  bad = []
  for name, v in pa.items():
    ctx.count('attributes_compared')
    try:
      g = getattr(caught, name)
    except Exception as ge:  # pylint: disable=broad-except
      bad.append((name, 'raises %r' % (ge,), v))
      continue
    if not same(g, v):
      bad.append((name, g, v))
  if bad:
    ctx.check(False, 'exception-attributes-differ:' + mechanism(orig, [b[0] for b in bad]),
              '%s: attributes read differently on the caught exception (name, caught, original): %r' % (tname, bad[:6]))
  else:
    ctx.count('oracle_evals')
  # ---- explicit chaining of the original (raise ... from ...)
  if orig.__cause__ is not None or orig.__suppress_context__:
    ctx.check(caught.__cause__ is orig.__cause__ and caught.__suppress_context__ == orig.__suppress_context__, 'exception-cause-lost',
              '%s raised from %r: the caught exception has __cause__=%r __suppress_context__=%r' % (tname, orig.__cause__, caught.__cause__, caught.__suppress_context__))
  # ---- traceback and message
  frames = [f.name for f in traceback.extract_tb(caught.__traceback__)]
  ctx.check('innermost' in frames, 'traceback-lost', '%s: traceback of the caught exception lacks the raising frame: %r' % (tname, frames))
  # the *original* traceback: every configurable body between the caller and the raise site is still there, outermost first
  body = ['c17meth'] if site == 'method' else ([_S['hostile_names'][case['hostile']]] if site == 'hostile-signature' else [['f1', 'f2', '__init__', 'f4'][i] for i in range(depth)][::-1])
  pos = [frames.index(b) if b in frames else -1 for b in body]
  ctx.check(-1 not in pos and pos == sorted(pos) and frames.index('innermost') > max(pos), 'traceback-frames-missing',
            '%s at depth %d via %s: traceback frames %r do not contain the bodies %r in call order' % (tname, depth, site, frames, body))
  if isinstance(orig, NO_MESSAGE_EXTENSION):
    ctx.count('message_extension_impossible_class_cannot_be_subclassed')
    return
  text = str(caught)
  base = str(orig)
  ctx.check(text.startswith(base), 'message-not-extended-original', '%s: str(caught)=%r does not start with str(original)=%r' % (tname, text[:200], base[:200]))
  n = text[len(base):].count('In call to configurable')
  ctx.check(n == expected_levels, 'message-levels', '%s: message names %d configurable calls, expected %d:\n%s' % (tname, n, expected_levels, text[:600]))
  if scope:
    ctx.check("in scope '%s'" % scope in text, 'message-lacks-scope', '%s: message does not name the active scope %r: %s' % (tname, scope, text[:400]))


def mechanism(orig, names=None):
  """Mechanism key for known_findings.json (by construct, never by value)."""
  if isinstance(orig, BaseExceptionGroup):
    return 'exception-group'
  if type(orig).__new__ is not BaseException.__new__ and type(orig).__module__ != 'builtins' and '__new__' in type(orig).__dict__:
    return 'user-new-with-required-arguments'
  if names is not None:
    if names == ['args']:
      return 'args-only'
    if type(orig).__module__ == 'builtins':
      return 'builtin-c-level-members'
    return 'user-class-attributes'
  return 'other'


LEVEL_TEXT = ('Runtime differential monitor: the probe keeps the original exception object; for every exception class of builtins and a set of hostile user '
              'classes, raised at depth 1-4 through functions, class constructors, methods, scopes and reference evaluation, the object caught by the '
              'caller is compared with the original (class by name, real except clauses over the whole MRO incl. except*, every public non-callable '
              'attribute, raising frame in the traceback, message = original text + one location per level); BaseExceptions must be the same object.')
LEVEL_NOTE = 'Trusted: attribute comparison by identity or == with equal type. Observed on CPython 3.12 only (exception classes and their C-level members vary by version).'
TECHNIQUE = 'runtime differential monitor (caught exception vs original object) over all builtin exception classes and hostile user classes'
DESIGN_REF = 'DESIGN.md section 4, C17'
