"""C17 — exceptions from configurables keep their type, data and traceback."""
import builtins
import traceback

ID = 'C17'
LEVEL = 'exploration'
RULE = ('every BaseException subclass found in builtins, constructed with representative arguments (OSError family with errno/strerror/filename, '
        'StopIteration(value), Unicode*Error, SyntaxError with location tuple, ImportError(name=, path=), AttributeError(name=, obj=), KeyError, '
        'ExceptionGroup, ...), plus user classes (required constructor arguments in __init__ / in __new__, extra attributes, class attribute shadowed by '
        'instance attribute, __slots__, properties, custom __str__, multiple inheritance, subclass of ExceptionGroup) raised at nesting depth 1-4 of '
        'configurable calls (functions and classes), inside scopes, and while Gin evaluates a reference for a consumer; the caught object is compared '
        'with the original kept by the probe: class identity by name/module/qualname, a real except clause for every class of the MRO, every public '
        'non-callable attribute, the traceback (raising frame present), the message (original text + one "In call to configurable" per level); '
        'non-Exception BaseExceptions must pass through untouched. Also: the TypeError of the interpreter for a call with missing / surplus arguments '
        '(compared with the same call of the undecorated function), TypeErrors raised by a body whose call leaves parameters unbound (diagnostics branch), '
        'configurable classes raising in __new__, subclasses of configurable / registered classes, gin.singleton constructors, macros resolving to a raising '
        'reference; scopes entered outside, by the bodies between the levels (incl. clearing) and at the reference site; exceptions carrying notes, an implicit '
        '__context__, callable attributes, attributes served by __getattr__, nested values; the same instance raised through two calls. The expected data is a '
        'User classes include one whose __getattr__ answers every name (None for absent fields). '
        'snapshot taken when the exception is created. distinct = (exception class, depth, raise site, modifiers)')
TIERS = {
    'quick': {'workers': 8, 'cases': 1800, 'timeout': 600},
    'thorough': {'workers': 16, 'cases': 8000, 'timeout': 3000},
}
REQUIRED_BUCKETS = ['cls:OSError-family', 'cls:StopIteration', 'cls:UnicodeError', 'cls:SyntaxError', 'cls:ImportError', 'cls:AttributeError', 'cls:KeyError',
                    'cls:ExceptionGroup', 'cls:user-init-args', 'cls:user-new-args', 'cls:user-extra-attrs', 'cls:user-slots', 'cls:user-property',
                    'cls:user-custom-str', 'cls:user-multiple-inheritance', 'cls:user-shadowed-class-attr', 'cls:user-group-subclass', 'cls:BaseException-passthrough',
                    'cls:user-new-raises-on-reconstruction', 'cls:user-new-is-a-factory', 'cls:user-init-subclass-hook', 'cls:explicit-cause', 'depth:1', 'depth:4', 'site:function', 'site:class-constructor', 'site:reference-evaluation', 'site:scoped', 'site:method', 'site:hostile-signature',
                    'cls:user-new-sets-state', 'cls:message-ends-with-whitespace', 'cls:TypeError-subclass',
                    'cls:user-callable-attrs', 'cls:user-getattr-served', 'cls:user-getattr-answers-every-name', 'cls:user-nested-values',
                    'site:missing-argument', 'site:diagnostics-branch', 'site:class-new-raises', 'site:subclass-of-configurable', 'site:singleton-constructor',
                    'site:macro-to-raising-reference', 'scope:single-component', 'scope:per-level-differs', 'scope:cleared-inside', 'scope:at-reference-site',
                    'mod:notes', 'mod:implicit-context', 'mod:same-instance-twice']
ORACLE_COUNTERS = ['oracle_evals', 'exceptions_compared', 'attributes_compared', 'except_clauses_tried']
_S = {}


class UInit(Exception):
  """required constructor arguments in __init__ that are not forwarded to Exception"""

  def __init__(self, code, detail):
    super().__init__('uinit %s' % code)
    self.code = code
    self.detail = detail


class UNew(Exception):
  """required arguments in __new__"""

  def __new__(cls, a, b):
    self = super().__new__(cls, a, b)
    self.a = a
    self.b = b
    return self

  def __init__(self, a, b):
    super().__init__('unew %s%s' % (a, b))


class UAttrs(ValueError):

  def __init__(self, *args):
    super().__init__(*args)
    self.payload = {'k': [1, 2]}
    self.count = 3


class USlots(Exception):
  __slots__ = ('slot_a', 'slot_b')

  def __init__(self, a):
    super().__init__(a)
    self.slot_a = a
    self.slot_b = [a]


class UProp(RuntimeError):

  def __init__(self, v):
    super().__init__()
    self._v = v

  @property
  def doubled(self):
    return self._v * 2


class UStr(KeyError):

  def __str__(self):
    return 'custom-str(%s)' % ', '.join(map(str, self.args))


class UMulti(KeyError, OSError):
  pass


class UShadow(Exception):
  code = 0
  kind = 'class-level'

  def __init__(self, code):
    super().__init__(code)
    self.code = code


class UGroup(ExceptionGroup):

  def __new__(cls, message, excs, tag):
    self = super().__new__(cls, message, excs)
    self.tag = tag
    return self

  def derive(self, excs):
    return UGroup(self.message, excs, self.tag)


class UBase(BaseException):
  pass


_serial = [0]


class UNewState(Exception):
  """State set in __new__ that is not a function of the arguments, then changed by __init__ and by the raiser."""

  def __new__(cls, *args):
    self = super().__new__(cls, *args)
    _serial[0] += 1
    self.serial = _serial[0]
    self.stage = 'new'
    self.count = 0
    return self

  def __init__(self, *args):
    super().__init__(*args)
    self.stage = 'init'


class UTrailing(ValueError):
  """A custom __str__ ending in whitespace (e.g. captured command output)."""

  def __str__(self):
    return 'captured output line\n\t '


class UTypeError(TypeError):

  def __init__(self, msg, info):
    super().__init__(msg)
    self.info = info


class UNewRaises(Exception):
  """__new__ validates its arguments (and rejects, with ValueError, what __init__ later stores in args)."""

  def __new__(cls, code, extra=None):
    int(code)
    return super().__new__(cls, code, extra)

  def __init__(self, code, extra=None):
    super().__init__('code %s failed' % code)
    self.code = code


class UFactory(Exception):
  """__new__ acts as a factory (the OSError pattern): it may return an instance of a registered subclass."""
  by_code = {}

  def __new__(cls, code, detail=None):
    return super().__new__(UFactory.by_code.get(code, cls), code, detail)

  def __init__(self, code, detail=None):
    super().__init__(code, detail)
    self.detail = detail


class UFactoryNotFound(UFactory):
  pass


UFactory.by_code[404] = UFactoryNotFound


class UInitSubclassKw(Exception):

  def __init_subclass__(cls, *, code, **kw):
    super().__init_subclass__(**kw)
    cls.code = code


class UInitSubclassKwChild(UInitSubclassKw, code=3):
  pass


class UFinal(Exception):
  """A class that refuses to be subclassed any further."""

  def __init_subclass__(cls, **kw):
    raise RuntimeError('UFinal is final')


def _a_handler(exc):
  return 'handled %r' % (exc,)


_SINK = []


class UCallback(Exception):
  """Public attributes that are callable: a callback, an expected type, a plain function, a bound method of another object."""

  def __init__(self, msg):
    super().__init__(msg)
    self.callback = len
    self.expected = int
    self.handler = _a_handler
    self.sink = _SINK.append


class UDynamic(Exception):
  """Public attributes served by the class's own __getattr__ (not in dir(); the monitor learns the names from PROBE)."""
  PROBE = ('status', 'retry_after', 'headers')

  def __init__(self, msg, **fields):
    super().__init__(msg)
    self._fields = fields

  def __getattr__(self, name):
    fields = self.__dict__.get('_fields', {})
    if name.startswith('_') or name not in fields:
      raise AttributeError(name)
    return fields[name]


class UCatchAll(Exception):
  """Payload-backed attributes: __getattr__ answers EVERY name that is not set (None for absent fields), dunder names included."""
  PROBE = ('status', 'detail', 'anything_else')

  def __init__(self, msg, **fields):
    super().__init__(msg)
    self.__dict__.update(fields)

  def __getattr__(self, name):
    return None


class UDynamicDir(UDynamic):
  """... and listed by the class's own __dir__."""
  PROBE = ()

  def __dir__(self):
    return list(super().__dir__()) + list(self.__dict__.get('_fields', {}))


class UNested(Exception):
  """Nested values whose inner types matter (1 / 1.0 / True compare equal)."""

  def __init__(self, msg):
    super().__init__(msg, (1, 2.0, True))
    self.shape = (1, 2.0, True)
    self.table = {1: 'int-key', 'k': (1, [2.5, None, False]), 'z': {'deep': [0, 0.0]}}
    self.flags = frozenset({1, 'a'})


# classes nobody can subclass at raise time: the message cannot be extended without changing the class; class, data and traceback still hold
NO_MESSAGE_EXTENSION = (UInitSubclassKw, UFinal)


def chained(e, cause):
  e.__cause__ = cause          # as `raise e from cause` does (also sets __suppress_context__)
  return e


def bump(e):
  e.count += 5          # the raised object differs from a freshly constructed one
  e.stage = 'about-to-raise'
  return e


def builtin_instances():
  """(bucket, factory) for every exception class in builtins."""
  out = []
  obj = object()
  for name in sorted(dir(builtins)):
    cls = getattr(builtins, name)
    if not (isinstance(cls, type) and issubclass(cls, BaseException)):
      continue
    if not issubclass(cls, Exception):
      if cls in (BaseExceptionGroup,):
        out.append(('cls:BaseException-passthrough', lambda cls=cls: cls('beg', [KeyboardInterrupt()])))
      else:
        out.append(('cls:BaseException-passthrough', lambda cls=cls: cls('base', 1)))
      continue
    if issubclass(cls, BlockingIOError):
      out.append(('cls:OSError-family', lambda cls=cls: cls(11, 'would block', 7)))
    elif issubclass(cls, OSError):
      out.append(('cls:OSError-family', lambda cls=cls: cls(2, 'No such thing', '/some/file.txt')))
      out.append(('cls:OSError-family', lambda cls=cls: cls(13, 'denied', 'a.txt', None, 'b.txt')))
      out.append(('cls:OSError-family', lambda cls=cls: cls('just a message')))
    elif issubclass(cls, (StopIteration, StopAsyncIteration)):
      out.append(('cls:StopIteration', lambda cls=cls: cls(['the', 'value'])))
    elif issubclass(cls, UnicodeDecodeError):
      out.append(('cls:UnicodeError', lambda cls=cls: cls('utf-8', b'ab\xffcd', 2, 3, 'invalid start byte')))
    elif issubclass(cls, UnicodeEncodeError):
      out.append(('cls:UnicodeError', lambda cls=cls: cls('ascii', 'ab\xe9cd', 2, 3, 'ordinal not in range')))
    elif issubclass(cls, UnicodeTranslateError):
      out.append(('cls:UnicodeError', lambda cls=cls: cls('ab\xe9cd', 2, 3, 'cannot translate')))
    elif issubclass(cls, SyntaxError):
      out.append(('cls:SyntaxError', lambda cls=cls: cls('bad syntax', ('file.py', 3, 5, 'x = (', 3, 9))))
    elif issubclass(cls, ImportError):
      out.append(('cls:ImportError', lambda cls=cls: cls('cannot import', name='some.module', path='/p/some/module.py')))
    elif issubclass(cls, (AttributeError,)):
      out.append(('cls:AttributeError', lambda cls=cls: cls('no attribute', name='attr', obj=obj)))
    elif issubclass(cls, NameError):
      out.append(('cls:AttributeError', lambda cls=cls: cls('no name', name='nm')))
    elif issubclass(cls, KeyError):
      out.append(('cls:KeyError', lambda cls=cls: cls(('tuple', 'key'))))
    elif issubclass(cls, BaseExceptionGroup):
      out.append(('cls:ExceptionGroup', lambda cls=cls: cls('group message', [ValueError(1), OSError(2, 'x'), cls('inner', [KeyError('k')])])))
    else:
      out.append(('cls:generic', lambda cls=cls: cls('a message', 42)))
      out.append(('cls:generic', lambda cls=cls: cls()))
  out += [
      ('cls:user-init-args', lambda: UInit(7, {'d': 1})),
      ('cls:user-new-args', lambda: UNew('x', 'y')),
      ('cls:user-extra-attrs', lambda: UAttrs('bad value', 3)),
      ('cls:user-slots', lambda: USlots('s')),
      ('cls:user-property', lambda: UProp(21)),
      ('cls:user-custom-str', lambda: UStr('k1', 'k2')),
      ('cls:user-multiple-inheritance', lambda: UMulti(5, 'multi')),
      ('cls:user-shadowed-class-attr', lambda: UShadow(99)),
      ('cls:user-group-subclass', lambda: UGroup('ug', [ValueError('v'), TypeError('t')], 'TAG')),
      ('cls:BaseException-passthrough', lambda: UBase('ubase')),
      ('cls:user-new-sets-state', lambda: bump(UNewState('state', 1))),
      ('cls:message-ends-with-whitespace', lambda: UTrailing('x')),
      ('cls:message-ends-with-whitespace', lambda: ValueError('a message ending in a newline\n')),
      ('cls:message-ends-with-whitespace', lambda: KeyError('trailing space ')),
      ('cls:TypeError-subclass', lambda: UTypeError('bad type', {'expected': int})),
      ('cls:user-new-raises-on-reconstruction', lambda: UNewRaises(42)),
      ('cls:user-new-is-a-factory', lambda: UFactory(404, 'gone')),
      ('cls:user-new-is-a-factory', lambda: UFactory(500, 'boom')),
      ('cls:user-init-subclass-hook', lambda: UInitSubclassKwChild('x')),
      ('cls:user-init-subclass-hook', lambda: UFinal('y')),
      ('cls:explicit-cause', lambda: chained(ValueError('bad'), KeyError('k'))),
      ('cls:explicit-cause', lambda: chained(UAttrs('bad value', 3), None)),
      ('cls:explicit-cause', lambda: chained(OSError(2, 'No such thing', '/x'), UBase('base cause'))),
      ('cls:user-callable-attrs', lambda: UCallback('cb')),
      ('cls:user-getattr-served', lambda: UDynamic('dyn', status=503, retry_after=2.5, headers={'x': [1, 2]})),
      ('cls:user-getattr-served', lambda: UDynamicDir('dyn-dir', status=404, reason=('gone', 1))),
      ('cls:user-getattr-answers-every-name', lambda: UCatchAll('catch-all', status=500)),
      ('cls:user-nested-values', lambda: UNested('nested')),
  ]
  return out


NOTES = ['c17 note one (context added by the raiser)', 'c17 note two\nwith a second line']
CONTEXT_KEY = 'c17-missing-key'
SITES = ['direct', 'direct', 'scoped', 'reference', 'reference', 'method', 'hostile-signature', 'diagnostics', 'missing-argument', 'new-raises', 'subclass',
         'singleton', 'macro']
CHAIN_SITES = ('direct', 'scoped', 'reference', 'singleton', 'macro')


def last_line(code):
  """Line of the last statement of a code object (the bodies of the probes consist of one statement)."""
  return max(l for (_, _, l) in code.co_lines() if l)


def rec(call, name, *bodies):
  """A configurable probe: how to call it, its registered name, and the frames (co_name, line of the statement that calls down / raises) of the bodies
  that run between the caller and the raise site, outermost first (computed from the code objects of the undecorated functions)."""
  return {'call': call, 'name': name, 'frames': [(b.__code__.co_name, last_line(b.__code__)) for b in bodies]}


def setup(ctx):
  import functools
  import gin
  state = {'exc': None, 'enter': {}, 'implicit': False}
  _S['state'] = state

  def innermost():
    e = state['exc']
    if state['implicit']:
      try:
        {}[CONTEXT_KEY]
      except KeyError:
        raise e          # inside a handler: the exception gets an implicit __context__
    raise e

  # the line numbers of the two raise statements, learnt from CPython itself (no gin involved)
  lines = {}
  for implicit in (False, True):
    state['exc'], state['implicit'] = RuntimeError('calibration'), implicit
    try:
      innermost()
    except RuntimeError as ce:
      lines[implicit] = traceback.extract_tb(ce.__traceback__)[-1].lineno
  state['exc'], state['implicit'] = None, False
  _S['raise_line'] = lines

  levels = {}

  def down(i):
    """Call level i, inside the scope the case wants the calling body to open (None: none, '': clear the active scopes)."""
    sc = state['enter'].get(str(i))
    if sc is None:
      return levels[i]['call']()
    with gin.config_scope(sc or None):
      return levels[i]['call']()

  def f1(p=0):
    innermost()

  def f2(p=0):
    down(1)

  class C3:
    def __init__(self, p=0):
      down(2)

  def f4(p=0):
    down(3)

  c3_init = C3.__init__
  levels[1] = rec(gin.configurable('c17f1', module='c17')(f1), 'c17f1', f1)
  levels[2] = rec(gin.configurable('c17f2', module='c17')(f2), 'c17f2', f2)
  levels[3] = rec(gin.configurable('c17C3', module='c17')(C3), 'c17C3', c3_init)
  gin.register('c17f4', module='c17')(f4)
  levels[4] = rec(gin.get_configurable(f4), 'c17f4', f4)

  @gin.configurable('c17cons', module='c17')
  def cons(v=None):
    return v

  class K:
    def __init__(self, c=0):
      pass

    @gin.register
    def c17meth(self, m=0):
      innermost()
  meth_plain = K.__dict__['c17meth']
  gin.register('c17K', module='c17')(K)

  def kwonly(x, *, schema, strict):      # keyword-only parameters, none with a default
    innermost()
  kwonly_c = gin.configurable('c17kwonly', module='c17')(kwonly)

  def varargs(a, b=1, *rest, flag=False, **extra):
    innermost()
  varargs_c = gin.configurable('c17varargs', module='c17')(varargs)

  class Init:
    def __init__(self, req, *, opt=None):
      innermost()
  init_plain = Init.__init__
  gin.register('c17Init', module='c17')(Init)

  # configurables whose repr (which Gin puts into the message) contains format-string metacharacters
  def pfetch(table, options=None, limit=10):
    innermost()
  part = gin.external_configurable(functools.partial(pfetch, 'users', options={'retries': 2, '{scope_info}': '%s %(x)s {0} {}'}), 'c17partial', module='c17')

  class Stage:
    def __init__(self, **settings):
      self.settings = settings

    def __call__(self, limit=10):
      innermost()

    def __repr__(self):
      return 'Stage(' + repr(self.settings) + ') {} {0} {name} %s %d %(k)s'
  stage = gin.external_configurable(Stage(rate=0.5), 'c17stage', module='c17')

  class ReprMeta(type):
    def __repr__(cls):
      return '<model ' + cls.__name__ + ' {hidden=64} {} %s>'

  class Model(metaclass=ReprMeta):
    def __init__(self, limit=10):
      innermost()
  model_plain = Model.__init__
  model = gin.external_configurable(Model, 'c17Model', module='c17')

  _S['hostile'] = [rec(lambda: kwonly_c(1, schema='s', strict=True), 'c17kwonly', kwonly), rec(lambda: varargs_c(1, 2, 3, 4, flag=True, z=5), 'c17varargs', varargs),
                   rec(lambda: gin.get_configurable(Init)(0), 'c17Init', init_plain), rec(lambda: kwonly_c(x=2, schema=None, strict=False), 'c17kwonly', kwonly),
                   rec(lambda: part(), 'c17partial', pfetch), rec(lambda: stage(limit=3), 'c17stage', Stage.__call__), rec(lambda: model(), 'c17Model', model_plain)]

  # ---- a configurable class that raises in __new__ (Gin decorates __new__ / the metaclass call)
  class NewC:
    def __new__(cls, p=0):
      innermost()
  newc_plain = NewC.__dict__['__new__'].__func__
  gin.configurable('c17NewC', module='c17')(NewC)

  class RegNew:
    def __new__(cls, p=0):
      innermost()
  regnew_plain = RegNew.__dict__['__new__'].__func__
  gin.register('c17RegNew', module='c17')(RegNew)
  _S['new'] = [rec(lambda: NewC(), 'c17NewC', newc_plain), rec(lambda: NewC(p=3), 'c17NewC', newc_plain),
               rec(lambda: gin.get_configurable(RegNew)(), 'c17RegNew', regnew_plain)]

  # ---- subclasses of configurable classes: the configurable that runs (and is named) is the base class
  class Base:
    def __init__(self, p=0):
      innermost()
  base_init = Base.__init__
  gin.configurable('c17Base', module='c17')(Base)

  class Sub1(Base):
    pass

  class Sub2(Base):
    def __init__(self, q=1):
      super().__init__()

  class RegBase:
    def __init__(self, p=0):
      innermost()
  gin.register('c17RegBase', module='c17')(RegBase)

  class SubReg(gin.get_configurable(RegBase)):
    pass
  _S['subclass'] = [rec(Sub1, 'c17Base', base_init), rec(Sub2, 'c17Base', Sub2.__init__, base_init), rec(SubReg, 'c17RegBase', RegBase.__init__)]

  # ---- calls that leave positional parameters unbound while Gin has bindings of mixed types: the diagnostics branch for TypeErrors
  def diag(a, b=1, c='x', d=0):
    innermost()
  diag_c = gin.configurable('c17diag', module='c17')(diag)

  class DiagC:
    def __init__(self, a, b=1, c='x', d=0):
      innermost()
  diagc_init = DiagC.__init__
  gin.register('c17DiagC', module='c17')(DiagC)
  _S['diag'] = [(rec(lambda: diag_c(1), 'c17diag', diag), "c17diag.b = 2\nc17diag.c = 'y'"),
                (rec(lambda: diag_c(a=1), 'c17diag', diag), "c17diag.b = (1, 2)\nc17diag.c = None"),
                (rec(lambda: diag_c(gin.REQUIRED), 'c17diag', diag), "c17diag.a = 'bound'\nc17diag.b = 2.5"),
                (rec(lambda: gin.get_configurable(DiagC)(1), 'c17DiagC', diagc_init), "c17DiagC.b = {'k': 1}\nc17DiagC.c = 'y'")]

  # ---- calls the interpreter itself rejects (missing / surplus arguments): (name, config, call through Gin, the same call of the undecorated function)
  def miss(a, b=1, c='x'):
    return (a, b, c)
  miss_c = gin.configurable('c17miss', module='c17')(miss)

  def miss2(a, b, c=1, *, k=None):
    return (a, b, c, k)
  miss2_c = gin.configurable('c17miss2', module='c17')(miss2)

  class Miss3:
    def __init__(self, a, b=1):
      self.a = a
  miss3_init = Miss3.__init__
  gin.configurable('c17Miss3', module='c17')(Miss3)
  cfg1 = "c17miss.b = 2\nc17miss.c = 'y'"
  cfg2 = "c17miss2.c = 5\nc17miss2.k = 'z'"
  _S['missing'] = [
      ('c17miss', cfg1, lambda: miss_c(), lambda: miss(b=2, c='y')),
      ('c17miss', cfg1, lambda: miss_c(1, 2, 3, 4), lambda: miss(1, 2, 3, 4)),
      ('c17miss', cfg1, lambda: miss_c(1, zz=3), lambda: miss(1, b=2, c='y', zz=3)),
      ('c17miss', '', lambda: miss_c(), lambda: miss()),
      ('c17miss', "c17miss.c = @c17cons()", lambda: miss_c(), lambda: miss(c=None)),
      ('c17miss2', cfg2, lambda: miss2_c(), lambda: miss2(c=5, k='z')),
      ('c17miss2', cfg2, lambda: miss2_c(1), lambda: miss2(1, c=5, k='z')),
      ('c17miss2', cfg2, lambda: miss2_c(b=1), lambda: miss2(b=1, c=5, k='z')),
      ('c17Miss3', 'c17Miss3.b = 2', lambda: Miss3(), lambda: miss3_init(object.__new__(Miss3), b=2)),
  ]

  assert meth_plain.__code__.co_name == 'c17meth' and newc_plain.__code__.co_name == '__new__' and c3_init.__code__.co_name == '__init__'
  _S['levels'] = levels
  _S['cons'] = cons
  _S['method'] = rec(lambda: gin.get_configurable(K)().c17meth(), 'c17meth', meth_plain)
  _S['instances'] = builtin_instances()


def iter_cases(ctx, rng, n):
  inst = _S['instances']
  for i in range(n):
    depth = rng.choice([1, 1, 2, 3, 4])
    site = rng.choice(SITES)
    case = {'which': i % len(inst), 'depth': depth, 'site': site, 'hostile': rng.randrange(7), 'variant': rng.randrange(720)}
    if site == 'scoped':
      case['outer'] = rng.choice(['sa/sb', 'zqa', 'zqa/zqb/zqc'])
    else:
      case['outer'] = rng.choice([None, None, None, 'zqo', 'zqo/zqp'])
    enter = {}
    if site in CHAIN_SITES:
      for lvl in range(1, depth):
        if rng.random() < 0.35:
          enter[str(lvl)] = rng.choice(['zq1', 'zq2/zq3', 'zq4', ''])      # '' clears the active scopes
    case['enter'] = enter
    if site == 'reference':
      case['refscope'] = rng.choice(['rs', 'zqr', 'zqr/zqt', ''])
    elif site == 'singleton':
      case['refscope'] = rng.choice(['zqs', 'zqs/zqu'])
    elif site == 'macro':
      case['refscope'] = rng.choice(['', 'zqm'])
    case['notes'] = rng.choice([0, 0, 0, 0, 0, 1, 2])
    case['implicit'] = rng.random() < 0.15
    case['twice'] = rng.random() < 0.15
    yield case


# ---------------------------------------------------------------------------
# the model: which configurables run (innermost first) in which active scope, and which body frames lie between the caller and the raise site


def scope_enter(cur, s):
  """gin.config_scope(s) entered while the scopes `cur` are active: a name extends, None / '' clears."""
  return (cur + s.split('/')) if s else []


def plan(case):
  site, depth = case['site'], case['depth']
  outer = scope_enter([], case.get('outer'))
  enter = case.get('enter') or {}
  levels = _S['levels']

  def chain(top, cur):
    lv, fr = [], []
    for i in range(top, 0, -1):
      if i != top and str(i) in enter:
        cur = scope_enter(cur, enter[str(i)])
      lv.append((levels[i]['name'], list(cur)))
      fr += levels[i]['frames']
    return lv[::-1], fr

  p = {'cfg': None, 'extra': 0, 'extra_names': (), 'depth': 1}
  if site in ('direct', 'scoped'):
    p['call'] = levels[depth]['call']
    p['levels'], p['frames'] = chain(depth, outer)
    p['depth'] = depth
  elif site in ('reference', 'singleton', 'macro'):
    refscope = case.get('refscope') or ''
    target = levels[depth]['name']
    prefix = refscope + '/' if refscope else ''
    if site == 'reference':
      # a scoped reference runs in its own scopes (they replace the active ones); the consumer's own call has not started while its argument is
      # evaluated: one location per *running* configurable
      p['cfg'] = 'c17cons.v = [1, {"k": @%s%s()}]' % (prefix, target)
      start = refscope.split('/') if refscope else outer
      p['levels'], p['frames'] = chain(depth, start)
    elif site == 'singleton':
      p['cfg'] = 'c17cons.v = @%sgin.singleton()\n%sgin.singleton.constructor = @%s' % (prefix, prefix, target)
      start = refscope.split('/')
      p['levels'], p['frames'] = chain(depth, start)
      p['levels'] = p['levels'] + [('singleton', start)]          # gin.singleton is a configurable that is running when its constructor raises
      p['extra'], p['extra_names'] = 1, ('c17cons',)
    else:
      p['cfg'] = 'M17 = @%s%s()\nc17cons.v = (%%M17,)' % (prefix, target)
      start = refscope.split('/') if refscope else ['M17']          # a macro is the configurable gin.macro in the scope of its name
      p['levels'], p['frames'] = chain(depth, start)
      p['extra'], p['extra_names'] = 2, ('macro', 'c17cons')          # grey: whether pending consumers are named
    p['call'] = _S['cons']
    p['depth'] = depth
  else:
    if site == 'method':
      r = _S['method']
    elif site == 'hostile-signature':
      r = _S['hostile'][case['hostile'] % len(_S['hostile'])]
    elif site == 'new-raises':
      r = _S['new'][case['variant'] % len(_S['new'])]
    elif site == 'subclass':
      r = _S['subclass'][case['variant'] % len(_S['subclass'])]
    elif site == 'diagnostics':
      r, p['cfg'] = _S['diag'][case['variant'] % len(_S['diag'])]
    else:
      raise ValueError(site)
    p['call'] = r['call']
    p['levels'] = [(r['name'], outer)]
    p['frames'] = list(r['frames'])
  return p


def scope_tokens(case):
  """Distinctive scope components used anywhere in the case (they occur in no configurable's name or repr)."""
  out = set()
  for s in [case.get('outer'), case.get('refscope')] + list((case.get('enter') or {}).values()):
    for t in (s or '').split('/'):
      if t.startswith('zq'):
        out.add(t)
  if case['site'] == 'macro':
    out.add('M17')
  return out


def drive(call, outer):
  import gin
  try:
    if outer:
      with gin.config_scope(outer):
        call()
    else:
      call()
  except BaseException as e:  # pylint: disable=broad-except
    return e
  return None


# ---------------------------------------------------------------------------
# observation of an exception's data


def own_method(e, v):
  """Bound methods of the exception itself (with_traceback, add_note, derive, ...): not data."""
  return callable(v) and getattr(v, '__self__', None) is e


def read_public(e, names=None):
  if names is None:
    names = [n for n in dir(e) if not n.startswith('_')] + [n for n in getattr(type(e), 'PROBE', ())]
  out = {}
  for name in names:
    try:
      v = getattr(e, name)
    except Exception:  # pylint: disable=broad-except
      continue
    if own_method(e, v):
      continue
    out[name] = v
  return out


CONTAINERS = (tuple, list, dict, set, frozenset)


def snap_copy(v, depth=0):
  """Copy of the plain containers (so that a later in-place change shows); everything else by reference."""
  t = type(v)
  if depth > 8 or t not in CONTAINERS:
    return v
  if t is dict:
    return {k: snap_copy(x, depth + 1) for k, x in v.items()}
  if t in (set, frozenset):
    return t(v)
  return t(snap_copy(x, depth + 1) for x in v)


def same(a, b, depth=0):
  """Identity, or equal values of equal types at every level of plain containers."""
  if type(a) is not type(b):
    return False
  t = type(a)
  try:
    if depth <= 8 and t in (tuple, list):
      return len(a) == len(b) and all(same(x, y, depth + 1) for x, y in zip(a, b))
    if depth <= 8 and t is dict:
      if len(a) != len(b):
        return False
      kb = {k: k for k in b}
      return all(k in kb and type(kb[k]) is type(k) and same(x, b[k], depth + 1) for k, x in a.items())
    if depth <= 8 and t in (set, frozenset):
      if a != b:
        return False
      mb = {x: x for x in b}
      return all(type(mb[x]) is type(x) for x in a)
    return a is b or bool(a == b)
  except Exception:  # pylint: disable=broad-except
    return False


def snapshot(e):
  """What the exception looks like when it is created, before anybody raises it."""
  pub = read_public(e)
  return {'refs': pub, 'copies': {k: snap_copy(v) for k, v in pub.items()}, 'str': str(e), 'cause': e.__cause__, 'suppress': e.__suppress_context__,
          'notes': list(getattr(e, '__notes__', None) or [])}


def differences(obj, snap):
  """(name, read now, at creation) for every public attribute of the snapshot that reads differently on obj."""
  bad = []
  for name, ref in snap['refs'].items():
    try:
      g = getattr(obj, name)
    except Exception as ge:  # pylint: disable=broad-except
      bad.append((name, 'raises %r' % (ge,), ref))
      continue
    if not (same(g, ref) and same(g, snap['copies'][name])):
      bad.append((name, g, snap['copies'][name]))
  return bad


def sstr(e):
  """str(e) for reports (a caught exception whose str() raises is reported by the message check)."""
  try:
    return str(e)
  except Exception as se:  # pylint: disable=broad-except
    return '<str() raises %r>' % (se,)


def tb_frames(tb):
  out = []
  while tb is not None:
    out.append((tb.tb_frame.f_code.co_name, tb.tb_lineno))
    tb = tb.tb_next
  return out


def subsequence(needles, hay):
  """Index after the last needle if `needles` occur in `hay` in this order, else -1."""
  pos = 0
  for nd in needles:
    try:
      pos = hay.index(nd, pos) + 1
    except ValueError:
      return -1
  return pos


# ---------------------------------------------------------------------------
# the oracle


def check_message(ctx, what, text, base, p, case):
  """text = base + one location per running configurable (innermost first), each naming the configurable and its active scope."""
  if not ctx.check(text.startswith(base), 'message-not-extended-original', '%s: str(caught)=%r does not start with str(original)=%r' % (what, text[:200], base[:200])):
    return
  levels = p['levels']
  parts = text[len(base):].split('In call to configurable')[1:]
  n = len(parts)
  if not ctx.check(len(levels) <= n <= len(levels) + p['extra'], 'message-levels',
                   '%s: message names %d configurable calls, expected %d%s:\n%s' % (what, n, len(levels), ' (+ up to %d pending consumers)' % p['extra'] if p['extra'] else '', text[:700])):
    return
  tokens = scope_tokens(case)
  j = 0
  scopes_seen = set()
  for seg in parts:
    if j < len(levels) and levels[j][0] in seg:
      name, scope = levels[j]
      j += 1
      scope_str = '/'.join(scope)
      scopes_seen.add(scope_str)
      if scope_str:
        ctx.check(scope_str in seg, 'message-lacks-scope', '%s: the location of %r does not name its active scope %r: %s' % (what, name, scope_str, text[:500]))
        if len(scope) == 1:
          ctx.bucket('scope:single-component')
      inactive = sorted(t for t in tokens if t not in scope and t in seg)
      ctx.check(not inactive, 'message-names-inactive-scope',
                '%s: the location of %r (active scope %r) names %r: %s' % (what, name, scope_str, inactive, text[:500]))
    elif p['extra'] and any(x in seg for x in p['extra_names']):
      continue
    else:
      break
  ctx.check(j == len(levels), 'message-lacks-configurable-name',
            '%s: the locations do not name the running configurables %r (innermost first): %s' % (what, [l[0] for l in levels], text[:700]))
  if len(scopes_seen) > 1:
    ctx.bucket('scope:per-level-differs')
  if '' in (case.get('enter') or {}).values() and case['depth'] >= 2:
    ctx.bucket('scope:cleared-inside')
  if case['site'] in ('reference', 'singleton', 'macro') and case.get('refscope'):
    ctx.bucket('scope:at-reference-site')


def run_missing(ctx, case):
  """The interpreter's own TypeError for a call Gin cannot complete: the caller must see that TypeError (as the same call of the undecorated function
  raises it), extended by Gin, not an exception of the code that prepares Gin's diagnostics."""
  import gin
  name, cfg, call, plain = _S['missing'][case['variant'] % len(_S['missing'])]
  ctx.bucket('site:missing-argument')
  try:
    plain()
    expected = None
  except TypeError as pe:
    expected = pe
  if expected is None:
    raise AssertionError('the undecorated call did not raise')
  gin.clear_config()
  if cfg:
    gin.parse_config(cfg)
  caught = drive(call, case.get('outer'))
  ctx.count('exceptions_compared')
  ctx.fp('missing-argument', case['variant'] % len(_S['missing']), case.get('outer'))
  what = 'call of %s rejected by the interpreter (%s)' % (name, str(expected)[:80])
  if not ctx.check(caught is not None, 'exception-swallowed', '%s: no exception reached the caller' % what):
    return
  if not ctx.check(isinstance(caught, TypeError) and (type(caught).__name__, type(caught).__module__) == ('TypeError', 'builtins'), 'call-typeerror-replaced',
                   '%s surfaced as %s: %s' % (what, type(caught).__name__, sstr(caught)[:300])):
    return
  ctx.check(same(caught.args, expected.args), 'call-typeerror-data-differs', '%s: args of the caught exception %r, of the interpreter\'s %r' % (what, caught.args, expected.args))
  check_message(ctx, what, sstr(caught), str(expected), {'levels': [(name, scope_enter([], case.get('outer')))], 'extra': 0, 'extra_names': ()}, case)


def run_case(ctx, case):
  import gin
  site = case['site']
  if site == 'missing-argument':
    run_missing(ctx, case)
    return
  bucket, factory = _S['instances'][case['which']]
  orig = factory()
  for k in range(case.get('notes') or 0):
    if isinstance(orig, UCatchAll):
      break        # (Python itself refuses notes on it: its __notes__ reads as None)
    orig.add_note(NOTES[k])
  snap = snapshot(orig)          # before anybody raises it
  ctx.bucket(bucket)
  p = plan(case)
  depth = p['depth']
  if site == 'direct':
    ctx.bucket('site:function' if depth != 3 else 'site:class-constructor')
  else:
    ctx.bucket({'scoped': 'site:scoped', 'reference': 'site:reference-evaluation', 'method': 'site:method', 'hostile-signature': 'site:hostile-signature',
                'diagnostics': 'site:diagnostics-branch', 'new-raises': 'site:class-new-raises', 'subclass': 'site:subclass-of-configurable',
                'singleton': 'site:singleton-constructor', 'macro': 'site:macro-to-raising-reference'}[site])
  if depth >= 3:
    ctx.bucket('site:class-constructor')
  ctx.bucket('depth:%d' % depth)
  state = _S['state']
  state['exc'], state['enter'], state['implicit'] = orig, case.get('enter') or {}, bool(case.get('implicit'))
  gin.clear_config()
  if p['cfg']:
    gin.parse_config(p['cfg'])
  tname = type(orig).__name__
  ctx.fp(tname, bucket, depth, site, tuple(sorted(snap['refs'])), case.get('notes'), bool(case.get('implicit')), bool(case.get('twice')),
         case.get('outer'), case.get('refscope'), tuple(sorted((case.get('enter') or {}).items())))
  for attempt in range(2 if case.get('twice') else 1):
    caught = drive(p['call'], case.get('outer'))
    if not ctx.check(caught is not None, 'exception-swallowed', '%s raised inside a configurable did not reach the caller' % tname):
      return
    if attempt == 0:
      ctx.sample({'class': tname, 'args': repr(orig.args)[:120], 'depth': depth, 'site': site, 'caught_str': sstr(caught)[:300]}, cap=5)
    else:
      ctx.bucket('mod:same-instance-twice')
    judge(ctx, case, p, orig, snap, caught, 'second raise of the same instance: ' if attempt else '')
  state['exc'] = None


def judge(ctx, case, p, orig, snap, caught, prefix):
  site, depth = case['site'], p['depth']
  tname = prefix + type(orig).__name__
  ctx.count('exceptions_compared')
  tb = tb_frames(caught.__traceback__)          # before the except clauses below re-raise it
  untouched = differences(orig, snap)
  if str(orig) != snap['str']:
    untouched.append(('str()', str(orig), snap['str']))
  if not isinstance(orig, Exception):
    ctx.check(caught is orig, 'base-exception-not-passed-through', '%s (not an Exception) was replaced by %r' % (tname, caught))
    ctx.check(not untouched, 'original-exception-modified', '%s (not an Exception): reads differently after passing through Gin (name, now, at creation): %r' % (tname, untouched[:6]))
    return
  # ---- class identity and except clauses
  if not ctx.check(isinstance(caught, type(orig)), 'exception-class-changed:' + mechanism(orig),
                   '%s raised inside a configurable surfaced as %s: %s' % (tname, type(caught).__name__, sstr(caught)[:300])):
    return
  t = type(caught)
  ctx.check((t.__name__, t.__module__, t.__qualname__) == (type(orig).__name__, type(orig).__module__, type(orig).__qualname__), 'exception-class-name-differs',
            'caught class is %s.%s (%s), original %s.%s (%s)' % (t.__module__, t.__qualname__, t.__name__, type(orig).__module__, type(orig).__qualname__, type(orig).__name__))
  for klass in type(orig).__mro__:
    if klass is object:
      continue
    ctx.count('except_clauses_tried')
    try:
      try:
        raise caught
      except klass:
        ok = True
    except BaseException:  # pylint: disable=broad-except
      ok = False
    ctx.check(ok, 'except-clause-does-not-catch', 'except %s: does not catch the re-raised %s' % (klass.__name__, tname))
  if isinstance(orig, BaseExceptionGroup):
    try:
      got = None
      try:
        raise caught
      except* ValueError as g:
        got = [type(x).__name__ for x in g.exceptions]
      except* Exception:
        pass
      ctx.check(got == ['ValueError'], 'except-star-does-not-split', 'except* ValueError saw %r' % (got,))
    except BaseException as ee:  # pylint: disable=broad-except
      ctx.check(False, 'except-star-does-not-split', 'except* on the caught group failed: %r' % (ee,))
  # ---- data: every public attribute reads on the caught exception as it read on the original when that was created
  ctx.count('attributes_compared', len(snap['refs']))
  bad = differences(caught, snap)
  if bad:
    ctx.check(False, 'exception-attributes-differ:' + mechanism(orig, [b[0] for b in bad]),
              '%s: attributes read differently on the caught exception (name, caught, original when created): %r' % (tname, bad[:6]))
  else:
    ctx.count('oracle_evals')
  ctx.check(not untouched, 'original-exception-modified',
            '%s: the original exception object reads differently after passing through Gin (name, now, at creation): %r' % (tname, untouched[:6]))
  if any(callable(v) for v in snap['refs'].values()):
    ctx.count('callable_attributes_compared')
  # ---- explicit chaining of the original (raise ... from ...)
  if snap['cause'] is not None or snap['suppress']:
    ctx.check(caught.__cause__ is snap['cause'] and caught.__suppress_context__ == snap['suppress'], 'exception-cause-lost',
              '%s raised from %r: the caught exception has __cause__=%r __suppress_context__=%r' % (tname, snap['cause'], caught.__cause__, caught.__suppress_context__))
  # ---- notes added by the raiser (they are part of what is displayed; Gin may add its own)
  if snap['notes']:
    ctx.bucket('mod:notes')
    have = list(getattr(caught, '__notes__', None) or [])
    shown = ''.join(traceback.format_exception_only(caught))
    ctx.check(subsequence(snap['notes'], have) >= 0 and all(nt in shown for nt in snap['notes']), 'exception-notes-lost',
              '%s: notes %r of the original; the caught exception has __notes__=%r and is displayed as %r' % (tname, snap['notes'], have, shown[-400:]))
  # ---- the implicit context of the original (it was raised inside a handler) is still reached from what the caller holds, following the links that
  # are displayed (__cause__ if set, else __context__ unless suppressed); not applicable when the original itself has an explicit cause / suppresses it
  if case.get('implicit') and snap['cause'] is None and not snap['suppress']:
    ctx.bucket('mod:implicit-context')
    seen, x, found = set(), caught, False
    while x is not None and id(x) not in seen and len(seen) < 64:
      seen.add(id(x))
      if type(x) is KeyError and x.args == (CONTEXT_KEY,):
        found = True
        break
      x = x.__cause__ if x.__cause__ is not None else (None if x.__suppress_context__ else x.__context__)
    ctx.check(found, 'exception-context-lost', '%s was raised while a KeyError was being handled: that context is not reached from the caught exception along '
              'the displayed chain (__cause__=%r __suppress_context__=%r __context__=%r)' % (tname, caught.__cause__, caught.__suppress_context__, caught.__context__))
  # ---- traceback
  names = [f[0] for f in tb]
  ctx.check('innermost' in names, 'traceback-lost', '%s: traceback of the caught exception lacks the raising frame: %r' % (tname, names))
  # the *original* traceback: every configurable body between the caller and the raise site is still there, outermost first
  body = [f[0] for f in p['frames']]
  end = subsequence(body, names)
  if ctx.check(end >= 0 and 'innermost' in names[end:], 'traceback-frames-missing',
               '%s at depth %d via %s: traceback frames %r do not contain the bodies %r in call order' % (tname, depth, site, names, body)):
    raise_at = ('innermost', _S['raise_line'][bool(case.get('implicit'))])
    ctx.check(subsequence(p['frames'] + [raise_at], tb) >= 0 and tb[-1] == raise_at, 'traceback-line-numbers',
              '%s at depth %d via %s: traceback %r does not show the bodies at the lines of their statements %r and end in the raise statement %r'
              % (tname, depth, site, tb, p['frames'], raise_at))
  if isinstance(orig, NO_MESSAGE_EXTENSION):
    ctx.count('message_extension_impossible_class_cannot_be_subclassed')
    return
  try:
    text = str(caught)
  except Exception as se:  # pylint: disable=broad-except
    ctx.check(False, 'message-not-extended-original', '%s: str() of the caught exception raises %r (str(original)=%r)' % (tname, se, snap['str'][:200]))
    return
  check_message(ctx, tname, text, snap['str'], p, case)


def mechanism(orig, names=None):
  """Mechanism key for known_findings.json (by construct, never by value)."""
  if isinstance(orig, BaseExceptionGroup):
    return 'exception-group'
  if type(orig).__new__ is not BaseException.__new__ and type(orig).__module__ != 'builtins' and '__new__' in type(orig).__dict__:
    return 'user-new-with-required-arguments'
  if names is not None:
    if names == ['args']:
      return 'args-only'
    if type(orig).__module__ == 'builtins':
      return 'builtin-c-level-members'
    return 'user-class-attributes'
  return 'other'


LEVEL_TEXT = ('Runtime differential monitor: the probe keeps the original exception object and a snapshot of its public data taken when it is created; for every '
              'exception class of builtins and a set of hostile user classes, raised at depth 1-4 through functions, class constructors (__init__ and __new__, '
              'subclasses), methods, scopes (outside, between the levels, at the reference site), reference evaluation, singletons and macros, once or twice, '
              'the object caught by the caller is compared with the snapshot (class by name, real except clauses over the whole MRO incl. except*, every public '
              'attribute incl. callables and __getattr__-served ones with nested types, notes, cause, context, body frames and raise statement with line numbers, '
              'message = original text + one location per level naming that level\'s configurable and active scope); BaseExceptions must be the same, unchanged '
              'object; the interpreter\'s own TypeError for an incomplete call is compared with that of the undecorated call.')
LEVEL_NOTE = 'Trusted: attribute comparison by identity or == with equal types at every level of plain containers. Observed on CPython 3.12 only (exception classes and their C-level members vary by version).'
TECHNIQUE = 'runtime differential monitor (caught exception vs snapshot of the original object) over all builtin exception classes and hostile user classes'
DESIGN_REF = 'DESIGN.md section 4, C17'
