"""C18 — shared records stay consistent under threads; singletons are constructed once."""
import itertools
import random
import threading

from vf import core, probes, sched, snap

ID = 'C18'
LEVEL = 'exploration'
RULE = ('scenarios of 2-4 real threads calling configurables in distinct/shared scopes, reading operative_config_str(), and '
        'first-using the same/different singletons (constructors that nest another singleton, yield, or raise once), each run under '
        'many seeded schedules of a cooperative scheduler that serialises the threads and may hand over at every LINE event inside '
        'gin/*.py (random p in {0.01,0.05,0.2}, PCT d in {1,2,3}, sampled or (thorough) all single-preemption schedules), plus '
        'free-running stress with a 1us switch interval and sequential singleton/clear histories. '
        'distinct = distinct schedule traces (hash of the hand-over sequence) per scenario')
TIERS = {
    'quick': {'workers': 8, 'cases': 20, 'timeout': 900, 'random_runs': 24, 'pct_runs': 12, 'preempt_samples': 60,
              'free_runs': 6, 'all_preemptions': False},
    'thorough': {'workers': 16, 'cases': 40, 'timeout': 3400, 'random_runs': 120, 'pct_runs': 60, 'preempt_samples': 0,
                 'free_runs': 30, 'all_preemptions': True},
}
REQUIRED_BUCKETS = ['operative:body-consults-gin-under-dynamic-registration', 'kind:constructor-waits-for-other-singleton', 'kind:operative', 'kind:singleton', 'kind:sequential', 'kind:clear-across-threads', 'policy:random', 'policy:pct', 'policy:preempt',
                    'mode:free-running', 'window:gin_wrapper', 'window:_config_str', 'window:singleton_value',
                    'singleton:same-name-race', 'singleton:nested-ctor', 'singleton:raising-ctor', 'singleton:different-names',
                    'operative:shared-scope', 'operative:new-keys-during-read', 'reads-checked', 'lock-contended']
ORACLE_COUNTERS = ['oracle_evals', 'schedules_run', 'reads_parsed', 'singleton_identity_checks']
ASSUMPTIONS = ['interleaving granularity = LINE events inside gin/*.py (statement starts); windows inside one line are reached only '
               'by the free-running mode', 'locks in gin.config globals are replaced by cooperative proxies with the same protocol']

_S = {}


class Obj:
  def __init__(self, tag):
    self.tag = tag


class EmptyBuffer(Obj):
  """A singleton object that is falsy (an empty buffer / registry): still the one object for its scope."""

  def __len__(self):
    return 0


def consult_body():
  import gin
  return (gin.query_parameter('fa.x'), gin.get_configurable('fa') is not None)


def setup(ctx):
  import gin
  from gin import config as gc
  fs = []
  for i in range(3):
    fs.append(probes.build({'shape': 'fn', 'api': 'configurable', 'name': 'c18f%d' % i, 'module': 'c18', 'pos': [],
                            'dflt': [['a', 1], ['b', 'two']], 'varargs': False, 'kwonly': [], 'varkw': False}))
  _S['fs'] = fs
  calls = {'A': 0, 'B': 0, 'C': 0, 'fail_once': False, 'lock': threading.Lock()}
  _S['ctor_calls'] = calls

  def bump(k):
    with calls['lock']:
      calls[k] += 1
      return calls[k]

  @gin.configurable('c18ctorA', module='c18')
  def ctor_a():
    import time
    n = bump('A')
    time.sleep(0)
    return EmptyBuffer(('A', n))

  @gin.configurable('c18ctorB', module='c18')
  def ctor_b(dep=None):
    n = bump('B')
    o = Obj(('B', n))
    o.dep = dep
    return o

  @gin.configurable('c18ctorC', module='c18')
  def ctor_c():
    n = bump('C')
    if calls['fail_once'] and n == 1:
      raise OSError(5, 'first construction fails')
    return Obj(('C', n))

  @gin.configurable('c18use', module='c18')
  def use(x=None):
    return x

  _S['use'] = use
  _S['ctor_w_body'] = [None]

  @gin.configurable('c18ctorW', module='c18')
  def ctor_w():
    return _S['ctor_w_body'][0]()

  # a configurable whose body consults Gin itself (ordinary user code: logging a hyperparameter of another configurable)
  from vf import pkgtree
  _S['tree'] = pkgtree.Tree()
  _S['dyn_pk'] = _S['tree'].new_package('c18')

  _S['consult'] = gin.configurable('c18consult', module='c18')(consult_body)
  root = core.repo_root()
  s = sched.Scheduler(root)
  s.install()
  _S['sched'] = s
  _S['undo'] = s.swap_locks(gc)
  ctx.note('instrumented_code_objects', len(s.codes))
  ctx.note('cooperative_locks', [k for _, k, _ in _S['undo']])


BASE_CONFIG = """
c18f0.a = 10
s1/c18f0.b = 'x'
s2/c18f1.a = [1, 2]
s1/s2/c18f2.b = {'k': (1, 2)}
sa/gin.singleton.constructor = @c18ctorA
sb/gin.singleton.constructor = @c18ctorB
sc/gin.singleton.constructor = @c18ctorC
c18ctorB.dep = @sa/gin.singleton()
ua/c18use.x = @sa/gin.singleton()
ub/c18use.x = @sb/gin.singleton()
uc/c18use.x = @sc/gin.singleton()
ua2/c18use.x = [@sa/gin.singleton(), {'k': @sa/gin.singleton()}]
"""
SCOPES = ['', 's1', 's2', 's1/s2', 's3', 's1/s4', 's5/s6/s7']


def gen_operative(rng):
  if rng.random() < 0.35:
    # the configuration was parsed under dynamic registration; one thread reads config strings, the others call a configurable that asks Gin
    # about another configurable by its (registry) name
    progs = [[['consult']] * rng.choice([2, 3, 4]) for _ in range(rng.choice([1, 2]))]
    progs.append([['read']] * rng.choice([3, 4, 5]))
    return {'kind': 'operative', 'progs': progs, 'dynreg': True}
  nt = rng.choice([2, 3, 4])
  progs = []
  for t in range(nt - 1):
    ops = []
    for _ in range(rng.randrange(2, 6)):
      ops.append(['call', rng.randrange(3), rng.choice(SCOPES), rng.random() < 0.3])
    progs.append(ops)
  progs.append([['read']] * rng.choice([2, 3, 5]))
  if rng.random() < 0.4:
    progs[0].insert(rng.randrange(len(progs[0]) + 1), ['read'])
  return {'kind': 'operative', 'progs': progs}


def gen_singleton(rng):
  nt = rng.choice([2, 2, 3, 4])
  variant = rng.choice(['same', 'same', 'nested', 'raising', 'different', 'mixed'])
  names = {'same': ['ua'], 'nested': ['ub', 'ua'], 'raising': ['uc'], 'different': ['ua', 'uc'], 'mixed': ['ua', 'ub', 'uc', 'ua2']}[variant]
  progs = []
  for t in range(nt):
    ops = []
    for _ in range(rng.choice([1, 1, 2, 3])):
      if rng.random() < 0.15:
        ops.append(['direct', rng.choice(['sa', 'sc'])])
      else:
        ops.append(['use', rng.choice(names)])
    progs.append(ops)
  if variant == 'same':
    for p in progs:
      p[0] = ['use', 'ua']
  return {'kind': 'singleton', 'variant': variant, 'progs': progs, 'fail_once': variant in ('raising', 'mixed') and rng.random() < 0.7}


def gen_sequential(rng):
  ops = []
  for _ in range(rng.randrange(3, 12)):
    k = rng.random()
    if k < 0.5:
      ops.append(['use', rng.choice(['ua', 'ub', 'uc', 'ua2'])])
    elif k < 0.7:
      ops.append(['direct', rng.choice(['sa', 'sb', 'sc', 'zz'])])
    else:
      ops.append(['clear'])
  return {'kind': 'sequential', 'ops': ops}


def iter_cases(ctx, rng, n):
  for i in range(n):
    k = i % 5
    if k in (0, 1):
      c = gen_operative(rng)
    elif k in (2, 3):
      c = gen_singleton(rng)
    elif i % 20 == 4:
      c = {'kind': 'ctor-waits', 'other': rng.choice(['ua', 'ub', 'uc'])}
    elif i % 10 == 9:
      c = {'kind': 'clear-across-threads', 'names': rng.sample(['ua', 'ub', 'uc', 'ua2'], rng.choice([1, 2])), 'workers': rng.choice([1, 2, 3])}
    else:
      c = gen_sequential(rng)
    c['seed'] = rng.randrange(1 << 30)
    yield c


def fresh_config(case):
  import gin
  gin.clear_config()
  if case.get('dynreg'):
    pk = _S['dyn_pk']
    gin.parse_config('from __gin__ import dynamic_registration\nimport %s.alpha\n%s.alpha.fa.x = 5\n' % (pk, pk))
    return
  gin.parse_config(BASE_CONFIG)
  calls = _S['ctor_calls']
  calls['A'] = calls['B'] = calls['C'] = 0
  calls['fail_once'] = bool(case.get('fail_once'))


def make_thread_fn(prog, obs):
  import gin
  from gin import config as gc
  fs, use = _S['fs'], _S['use']

  def fn():
    for op in prog:
      if op[0] == 'call':
        f = fs[op[1]].conf
        kw = {'a': 99} if op[3] else {}
        if op[2]:
          with gin.config_scope(op[2]):
            f(**kw)
        else:
          f(**kw)
        obs.append(('called', op[1], op[2]))
      elif op[0] == 'read':
        obs.append(('read', gin.operative_config_str()))
      elif op[0] == 'consult':
        obs.append(('consulted', _S['consult']()))
      elif op[0] == 'use':
        try:
          with gin.config_scope(op[1]):
            obs.append(('got', op[1], use()))
        except OSError as e:
          obs.append(('ctor-raised', op[1], e.errno))
      elif op[0] == 'direct':
        try:
          obs.append(('direct', op[1], gc.singleton_value(op[1], gin.get_configurable({'sa': 'c18ctorA', 'sb': 'c18ctorB', 'sc': 'c18ctorC'}.get(op[1], 'c18ctorA')))))
        except OSError as e:
          obs.append(('ctor-raised', op[1], e.errno))
    return True
  return fn


def flatten_objs(v, out):
  if isinstance(v, Obj):
    out.append(v)
    if getattr(v, 'dep', None) is not None:
      flatten_objs(v.dep, out)
  elif isinstance(v, (list, tuple)):
    for x in v:
      flatten_objs(x, out)
  elif isinstance(v, dict):
    for x in v.values():
      flatten_objs(x, out)


def check_run(ctx, case, res, all_obs, label, seq_text=None):
  """Oracles over one concurrent execution."""
  import gin
  ok = True
  for i, e in enumerate(res['errors']):
    if e is not None:
      key = 'deadlock' if e[0] == 'SchedDeadlock' else 'thread-exception:' + e[0]
      ok = ctx.check(False, key, '%s: thread %d failed: %s: %s' % (label, i, e[0], str(e[1])[:300]),
                     {'trace_tail': res.get('trace', [])[-12:]}) and ok
  if res.get('deadlock'):
    ok = ctx.check(False, 'deadlock', '%s: scheduler found every live thread blocked' % label, {'trace_tail': res.get('trace', [])[-12:]}) and ok
  if not ok:
    return
  ctx.count('oracle_evals')
  if case['kind'] == 'operative':
    final_text = gin.operative_config_str()
    final, _, _, _ = snap.parse_text(final_text)
    for obs in all_obs:
      for o in obs:
        if o[0] != 'read':
          continue
        ctx.bucket('reads-checked')
        try:
          got, _, _, _ = snap.parse_text(o[1])
          ctx.count('reads_parsed')
        except Exception as e:  # pylint: disable=broad-except
          ctx.check(False, 'read-does-not-parse', '%s: a concurrent operative_config_str() does not parse: %r\n%s' % (label, e, o[1][:500]))
          continue
        extra = {k: v for k, v in got.items() if k not in final or repr(final[k]) != repr(v)}
        ctx.check(not extra, 'read-not-subset-of-final', '%s: read shows %r not in the final record' % (label, extra))
        if len(got) < len(final):
          ctx.bucket('operative:new-keys-during-read')
    ctx.check(final_text == seq_text, 'final-differs-from-sequential',
              '%s: final operative config differs from the sequential run:\n--- concurrent\n%s\n--- sequential\n%s' %
              (label, final_text[:1500], (seq_text or '')[:1500]))
  else:
    calls = _S['ctor_calls']
    by_name = {}
    for obs in all_obs:
      for o in obs:
        if o[0] in ('got', 'direct'):
          objs = []
          flatten_objs(o[2], objs)
          for ob in objs:
            by_name.setdefault(ob.tag[0], []).append(ob)
    for nm, objs in by_name.items():
      ctx.count('singleton_identity_checks')
      ids = {id(o) for o in objs}
      ctx.check(len(ids) == 1, 'singleton-constructed-twice',
                '%s: users of singleton %s received %d distinct objects %r (constructor ran %d times)' %
                (label, nm, len(ids), sorted({o.tag for o in objs}), calls[nm]), {'trace_tail': res.get('trace', [])[-12:]})
    for nm in 'ABC':
      succ = calls[nm] - (1 if (nm == 'C' and calls['fail_once'] and calls['C'] >= 1) else 0)
      ctx.check(succ <= 1, 'singleton-constructed-twice', '%s: constructor %s succeeded %d times in one configuration lifetime' % (label, nm, succ),
                {'trace_tail': res.get('trace', [])[-12:]})


def run_concurrent(ctx, case):
  import gin
  s = _S['sched']
  rng = random.Random(case['seed'])
  nt = len(case['progs'])
  kind = case['kind']
  ctx.bucket('kind:' + kind)
  if case.get('dynreg'):
    ctx.bucket('operative:body-consults-gin-under-dynamic-registration')
  if kind == 'operative':
    scopes = [op[2] for p in case['progs'] for op in p if op[0] == 'call']
    if len(scopes) != len(set(scopes)):
      ctx.bucket('operative:shared-scope')
  else:
    ctx.bucket({'same': 'singleton:same-name-race', 'nested': 'singleton:nested-ctor', 'raising': 'singleton:raising-ctor',
                'different': 'singleton:different-names', 'mixed': 'singleton:nested-ctor'}[case['variant']])
    if case['variant'] == 'mixed':
      ctx.bucket('singleton:different-names')
      ctx.bucket('singleton:same-name-race')
    if case.get('fail_once'):
      ctx.bucket('singleton:raising-ctor')

  # sequential reference (also warms caches so step counts are stable)
  seq_text = None
  fresh_config(case)
  obs = [[] for _ in range(nt)]
  for i in range(nt):
    try:
      make_thread_fn(case['progs'][i], obs[i])()
    except Exception as e:  # pylint: disable=broad-except
      ctx.check(False, 'sequential-run-failed', 'sequential execution of thread %d program failed: %r' % (i, e))
      return
  if kind == 'operative':
    seq_text = gin.operative_config_str()

  def one(policy, label):
    fresh_config(case)
    obs = [[] for _ in range(nt)]
    fns = [make_thread_fn(case['progs'][i], obs[i]) for i in range(nt)]
    res = s.run(fns, policy, timeout=120.0)
    if res['timed_out'] or res['aborted']:
      raise core.Inconclusive('scheduler run timed out / aborted (%s)' % label)
    ctx.count('schedules_run')
    ctx.fp(case['seed'], res['trace_hash'])
    for (fn_name, line) in res['points']:
      if fn_name in ('gin_wrapper', '_config_str', 'singleton_value', 'operative_config_str', 'format_binding', 'sort_key'):
        ctx.bucket('window:' + fn_name)
      ctx.count('handover_points_seen')
    if ('lock-wait', '_OPERATIVE_CONFIG_LOCK') in res['points'] or any(p[0] == 'lock-wait' for p in res['points']):
      ctx.bucket('lock-contended')
    check_run(ctx, case, res, obs, label, seq_text)
    return res

  for r in range(ctx.params['random_runs']):
    ctx.bucket('policy:random')
    p = [0.01, 0.05, 0.2][r % 3]
    one(sched.Policy('random', random.Random(rng.randrange(1 << 30)), p=p), 'random p=%s #%d' % (p, r))
  base = one(sched.Policy('preempt', preempt=(0, -1, 0)), 'unpreempted')
  est = max(50, sum(base['steps']))
  for r in range(ctx.params['pct_runs']):
    ctx.bucket('policy:pct')
    d = [1, 2, 3][r % 3]
    one(sched.Policy('pct', random.Random(rng.randrange(1 << 30)), depth=d, nthreads=nt, est_steps=est), 'pct d=%d #%d' % (d, r))
  # single-preemption schedules: thread t runs first, at its k-th step hand over to j, j runs to completion/block, t resumes
  points = []
  steps_of = {}
  for t in range(nt):
    fresh_steps = one(sched.Policy('preempt', preempt=(t, -1, 0)), 'count t=%d' % t)['steps'][t]
    steps_of[t] = fresh_steps
    for k in range(1, fresh_steps + 1):
      for j in range(nt):
        if j != t:
          points.append((t, k, j))
  if not ctx.params['all_preemptions']:
    points = rng.sample(points, min(len(points), ctx.params['preempt_samples']))
  else:
    ctx.count('single_preemption_scenarios_enumerated')
  for (t, k, j) in points:
    ctx.bucket('policy:preempt')
    one(sched.Policy('preempt', preempt=(t, k, j)), 'preempt t=%d k=%d -> %d' % (t, k, j))

  if case.get('dynreg'):
    # two hand-overs: a caller is stopped inside its body (after its own record was written), the reader is stopped in the middle of
    # producing the string, the caller goes on. One hand-over cannot produce this (the reader never stops by itself).
    reader = nt - 1
    for _ in range(ctx.params.get('double_preemptions', 60)):
      k1 = rng.randrange(1, steps_of[0] + 1)
      k2 = rng.randrange(1, steps_of[reader] + 1)
      ctx.bucket('policy:two-preemptions')
      one(sched.Policy('preempt2', preempt=[(0, k1, reader), (reader, k2, 0)]), 'two preemptions t0@%d -> reader@%d -> t0' % (k1, k2))

  # free-running stress with the real locks
  from gin import config as gc
  sched.Scheduler.restore_locks(_S['undo'])
  try:
    for r in range(ctx.params['free_runs']):
      ctx.bucket('mode:free-running')
      fresh_config(case)
      obs = [[] for _ in range(nt)]
      res = sched.free_run([make_thread_fn(case['progs'][i], obs[i]) for i in range(nt)])
      if res['timed_out']:
        raise core.Inconclusive('free-running threads timed out')
      ctx.count('free_runs')
      check_run(ctx, case, res, obs, 'free-running #%d' % r, seq_text)
  finally:
    _S['undo'] = _S['sched'].swap_locks(gc)
  ctx.sample({'kind': kind, 'progs': case['progs'], 'variant': case.get('variant'), 'steps_unpreempted': base['steps'],
              'example_trace': [list(x) for x in base['trace'][:5]]}, cap=3)


def run_sequential(ctx, case):
  """Sequential histories of singleton uses, direct singleton_value lookups and clears against a tiny model."""
  import gin
  from gin import config as gc
  ctx.bucket('kind:sequential')
  fresh_config(case)
  use = _S['use']
  cache = {}
  dead = []  # objects handed out before a clear_config(): must never be delivered again
  ctor_of = {'sa': 'c18ctorA', 'sb': 'c18ctorB', 'sc': 'c18ctorC', 'zz': None}
  for op in case['ops']:
    if op[0] == 'clear':
      # either form of the clear forgets the singletons (no constants are involved here)
      nclear = ctx.counters.get('clears', 0)
      if nclear % 2:
        gin.clear_config(clear_constants=True)
        ctx.bucket('clear:with-constants')
      else:
        gin.clear_config()
      gin.parse_config(BASE_CONFIG)
      dead.extend(cache.values())
      cache.clear()
      ctx.count('clears')
    elif op[0] == 'use':
      with gin.config_scope(op[1]):
        v = use()
      objs = []
      flatten_objs(v, objs)
      for o in objs:
        key = o.tag[0]
        ctx.count('singleton_identity_checks')
        if key in cache:
          ctx.check(cache[key] is o, 'singleton-not-reused', 'sequential: singleton %s returned a new object %r (had %r)' % (key, o.tag, cache[key].tag))
        else:
          ctx.check(not any(o is d for d in dead), 'singleton-survives-clear_config',
                    'sequential: after clear_config a use of singleton %s delivered the pre-clear object %r' % (key, o.tag))
          cache[key] = o
    else:
      key = op[1]
      letter = {'sa': 'A', 'sb': 'B', 'sc': 'C'}.get(key)
      if key == 'zz':
        try:
          gc.singleton_value('zz')
          ctx.check(False, 'singleton-missing-no-error', 'singleton_value of unknown key without constructor did not raise')
        except ValueError:
          ctx.count('oracle_evals')
        continue
      v = gc.singleton_value(key, gin.get_configurable(ctor_of[key]))
      ctx.count('singleton_identity_checks')
      if letter in cache:
        ctx.check(cache[letter] is v, 'singleton-not-reused', 'sequential: singleton_value(%r) returned a different object' % key)
      else:
        ctx.check(not any(v is d for d in dead), 'singleton-survives-clear_config',
                  'sequential: after clear_config singleton_value(%r) delivered the pre-clear object' % key)
        cache[letter] = v
        if getattr(v, 'dep', None) is not None:
          if 'A' in cache:
            ctx.check(cache['A'] is v.dep, 'singleton-not-reused', 'nested singleton differs')
          else:
            cache['A'] = v.dep
  ctx.fp('seq', tuple(o[0] + ':' + (o[1] if len(o) > 1 else '') for o in case['ops']))


def run_clear_across_threads(ctx, case):
  """Long-lived worker threads use singletons, another thread clears the configuration, the workers use them again."""
  import gin
  ctx.bucket('kind:clear-across-threads')
  fresh_config(case)
  use = _S['use']
  nw = case['workers']
  first, second, errors = [{} for _ in range(nw)], [{} for _ in range(nw)], []
  used, go = [threading.Event() for _ in range(nw)], threading.Event()

  def worker(i):
    try:
      for nm in case['names']:
        with gin.config_scope(nm):
          first[i][nm] = use()
      used[i].set()
      if not go.wait(60):
        raise RuntimeError('handoff timed out')
      for nm in case['names']:
        with gin.config_scope(nm):
          second[i][nm] = use()
    except BaseException as e:  # pylint: disable=broad-except
      errors.append(e)
      used[i].set()

  threads = [threading.Thread(target=worker, args=(i,), daemon=True) for i in range(nw)]
  for t in threads:
    t.start()
  for e in used:
    if not e.wait(60):
      raise core.Inconclusive('worker thread did not reach the hand-off point')
  gin.clear_config()
  gin.parse_config(BASE_CONFIG)
  mine = {}
  for nm in case['names']:
    with gin.config_scope(nm):
      mine[nm] = use()
  go.set()
  for t in threads:
    t.join(60)
  ctx.check(not errors, 'thread-exception:' + (type(errors[0]).__name__ if errors else ''), 'clear across threads: %r' % (errors[:1],))
  for nm in case['names']:
    a, b = [], []
    flatten_objs(mine[nm], a)
    for i in range(nw):
      old, new = [], []
      flatten_objs(first[i].get(nm), old)
      flatten_objs(second[i].get(nm), new)
      ctx.count('singleton_identity_checks')
      ctx.check(bool(new) and not any(x is y for x in new for y in old), 'singleton-survives-clear_config',
                'thread %d used singleton %s after another thread called clear_config and got the pre-clear object' % (i, nm))
      ctx.check(bool(new) and len(new) == len(a) and all(x is y for x, y in zip(new, a)), 'singleton-differs-between-threads-after-clear',
                'after clear_config, thread %d and the clearing thread hold different objects for singleton %s' % (i, nm))
  ctx.fp('clear-threads', tuple(case['names']), nw)


def run_ctor_waits(ctx, case):
  """The constructor of one singleton waits for another thread that uses a different singleton for the first time (a loader prefetching in
  a helper thread): that first use must not have to wait for the constructor that is waiting for it."""
  import time
  import gin
  ctx.bucket('kind:constructor-waits-for-other-singleton')
  fresh_config(case)
  gin.parse_config('sw/gin.singleton.constructor = @c18ctorW\nuw/c18use.x = @sw/gin.singleton()\n')
  use = _S['use']
  st = {'done': threading.Event(), 'in_time': None, 'error': None, 't_ctor_end': None, 't_helper_end': None}

  def helper():
    try:
      with gin.config_scope(case['other']):
        use()
    except BaseException as e:  # pylint: disable=broad-except
      st['error'] = e
    st['t_helper_end'] = time.monotonic()
    st['done'].set()

  def ctor_body():
    t = threading.Thread(target=helper, daemon=True)
    t.start()
    st['in_time'] = st['done'].wait(15)
    st['t_ctor_end'] = time.monotonic()
    st['thread'] = t
    return Obj(('W', 1))
  _S['ctor_w_body'][0] = ctor_body
  with gin.config_scope('uw'):
    got = use()
  st['thread'].join(30)
  ctx.check(st['error'] is None, 'thread-exception:' + type(st['error']).__name__, 'helper thread using singleton %s failed: %r' % (case['other'], st['error']))
  if st['in_time']:
    ctx.count('oracle_evals')
  elif st['t_helper_end'] is not None and st['t_helper_end'] - st['t_ctor_end'] < 2.0:
    # the helper could not make its first use while the constructor was running, and finished right after it returned: it was waiting for it
    ctx.check(False, 'singleton-first-use-waits-for-unrelated-constructor', "the first use of singleton %s in a helper thread was blocked until the constructor of "
              "singleton 'sw' (which was waiting for that helper) had returned" % case['other'])
  else:
    raise core.Inconclusive('helper thread neither finished in time nor right after the constructor')
  ctx.fp('ctor-waits', case['other'])


def run_case(ctx, case):
  if case['kind'] == 'ctor-waits':
    from gin import config as gc
    sched.Scheduler.restore_locks(_S['undo'])
    try:
      run_ctor_waits(ctx, case)
    finally:
      _S['undo'] = _S['sched'].swap_locks(gc)
    return
  if case['kind'] == 'clear-across-threads':
    from gin import config as gc
    sched.Scheduler.restore_locks(_S['undo'])   # free-running threads: the real locks
    try:
      run_clear_across_threads(ctx, case)
    finally:
      _S['undo'] = _S['sched'].swap_locks(gc)
  elif case['kind'] == 'sequential':
    run_sequential(ctx, case)
  else:
    run_concurrent(ctx, case)


def finish(ctx):
  from gin import config as gc
  sched.Scheduler.restore_locks(_S['undo'])
  _S['sched'].uninstall()


LEVEL_TEXT = ('Runtime monitoring over schedules: the real threads run against the real module state while a sys.monitoring-driven '
              'cooperative scheduler picks seeded, replayable hand-over points at statement granularity inside gin (random, PCT, '
              'single-preemption: sampled in quick, all of them per scenario in thorough) and a free-running stress mode exercises the real '
              'locks; oracles: no thread fails or deadlocks, every concurrent read parses and is a subset of the final record, final '
              'record equals the sequential run, each singleton constructor succeeds at most once and all users hold the identical object.')
LEVEL_NOTE = ('Trusted: the scheduler (vf/sched.py) and cooperative lock proxies. Hand-overs only at LINE events in gin/*.py; intra-line '
              'windows are only reached probabilistically by the free-running mode. Bounded scenarios (2-4 threads, <=6 ops each).')
TECHNIQUE = 'runtime monitoring under a deterministic sys.monitoring thread scheduler (random/PCT/single-preemption schedules) + free-running stress'
DESIGN_REF = 'DESIGN.md sections 3 and 4, C18'
