"""C05 — macros and constants are late-bound named values."""
import copy
import enum
import itertools
import os
import shutil
import tempfile

from vf import models, probes
from vf.checks import c04
from vf.teq import canon

ID = 'C05'
LEVEL = 'exploration'
RULE = ('histories of 1-4 parse steps (strings, files, files including files) holding macro definitions, redefinitions and uses in every order '
        '(use before definition, redefinition in a later step/file), scope-like macro names, macros bound to literals / evaluated references / other '
        'macros, consumer calls interleaved between steps; constant tables over dotted names sharing suffixes (3-letter alphabet, depth<=4) with unique '
        'sentinel objects; oracle = macro-table model (last definition in application order wins, evaluated at call time, one provider run per %m '
        'occurrence per call) + suffix model for %q (unique -> the very object, ambiguous -> ValueError at parse and nothing bound, none -> macro) + '
        'gin.constant rejections leave the table unchanged + finalize() rejects unbound / unevaluated macros. '
        'Extension: multi-letter name components sharing character tails (x.AB / %B, yx.AB / %x.AB: a character tail is not a dotted suffix); '
        'constants holding lists / dicts / sets / None / strings that look like %m0, and enum members from gin.constants_from_enum; steps through '
        'parse_config(list) and parse_config_files_and_bindings; includes after statements and nested includes; explicit forms '
        '(m/gin.macro.value = v, @m/gin.macro(), bind_parameter) mixed with the short form; container-valued macros holding @prov() / %CONST / %m; '
        'scoped consumer bindings and consumer calls inside gin.config_scope; duplicate definitions in the middle and at the end of a history '
        '(after clear_config, of late constants, enum decorated twice); redefinition of a macro after finalize() under unlock_config; '
        'shared config files (0-2 per case, one may include the other) that `include` statements of any step / file / binding list pull in any number of '
        'times: every inclusion re-applies the file, so its definitions become the most recent ones again. '
        'distinct = (step kinds, definition/use order pattern, macro value kinds, constant-name suffix structure)')
TIERS = {
    'quick': {'workers': 8, 'cases': 2000, 'timeout': 600},
    'thorough': {'workers': 16, 'cases': 15000, 'timeout': 3000},
}
REQUIRED_BUCKETS = ['order:use-before-definition', 'order:definition-before-use', 'order:redefinition-later-step', 'order:redefinition-same-step',
                    'step:string', 'step:file', 'step:include', 'macro:scope-like-name', 'macro:evaluated-reference', 'macro:nested-macro', 'macro:literal',
                    'call:between-steps', 'call:unbound-macro-raises', 'const:unique-suffix', 'const:full-name', 'const:ambiguous', 'const:none-falls-to-macro',
                    'const:identity-in-container', 'const:invalid-name', 'const:duplicate', 'finalize:ok', 'finalize:unbound', 'finalize:unevaluated',
                    'macro:used-twice-in-one-value', 'const:defined-between-parses', 'const:name-became-constant-after-use-as-macro', 'finalize:unbound-with-bound-prefix-macro', 'finalize:after-failed-query-of-unbound-macro', 'finalize:unbound-macro-in-dict-key', 'finalize:inside-active-config-scope', 'step:skip_unknown-enabled',
                    'history:clear_config-keeps-constants',
                    # extension wave (audit gaps 1-7)
                    'const:char-tail-is-not-a-suffix', 'finalize:macro-redefined-after-finalize', 'step:files_and_bindings', 'step:list',
                    'order:redefinition-files-then-bindings', 'const:from-enum', 'const:enum-member-delivered', 'const:list-valued', 'const:dict-valued',
                    'const:set-valued', 'const:none-valued', 'const:str-valued', 'const:container-valued-delivered', 'const:duplicate-after-clear_config',
                    'const:duplicate-of-late-constant', 'const:duplicate-enum-redecorated', 'const:duplicate-mid-history', 'call:inside-config_scope',
                    'call:scoped-binding-effective', 'macro:explicit-binding-form', 'macro:explicit-reference-form', 'macro:bound-via-bind_parameter',
                    'macro:container-holding-references', 'step:include-after-statements', 'step:nested-include', 'const:ambiguous-query_parameter',
                    # files included more than once in a history (every inclusion binds again)
                    'step:shared-file-included', 'step:file-included-again', 'step:file-included-again-in-same-step', 'step:file-included-again-in-later-step',
                    'step:shared-file-included-through-shared-file', 'order:rebound-by-repeated-include', 'order:use-in-included-file']
ORACLE_COUNTERS = ['oracle_evals', 'consumer_calls', 'constant_lookups', 'finalize_checks']
_S = {}
# 'a/A', 'x/y/B', 'yx/CAB' end in a component that may name a constant: still macros; 'B' and 'AB' are character tails of the constant leaves
# 'AB' / 'CAB' (macros unless a constant has them as a *dotted* suffix)
MACROS = ['m0', 'm1', 'a/m2', 'a/b/m3', 'M0', 'a', 'a/b', 'LATEK', 'a/A', 'x/y/B', 'B', 'AB', 'yx/CAB']
ALPHA = ['AB', 'B', 'CAB', 'A']          # leaves sharing character tails
COMPS = ['x', 'yx', 'z']                 # module components sharing a character tail
CONST_KINDS = ['sentinel'] * 5 + ['list', 'dict', 'set', 'none', 'str']
# [class name, module argument of constants_from_enum (None -> the class's __module__ = 'c5enums'), member names]
ENUM_SPECS = [['Color', 'pk', ['RED', 'AB']], ['Color', 'qk', ['RED']], ['Shade', None, ['RED', 'B']], ['Color', None, ['GREEN', 'CAB']]]
ENUM_MODULE = 'c5enums'
SHARED_INCLUDE_RATE = 0.3                # share of a step's statements that are `include '<shared file>'` (cases that have shared files)


class Sentinel:
  def __init__(self, name):
    self.name = name

  def __repr__(self):
    return '<Sentinel %s>' % self.name


def setup(ctx):
  c04.setup(ctx)
  _S['provs'] = c04._S['provs']
  _S['by_pid'] = c04._S['by_pid']
  _S['cons'] = probes.build({'shape': 'fn', 'api': 'configurable', 'name': 'c5cons', 'module': 'c5', 'pos': [], 'dflt': [['p', None], ['q', None]],
                             'varargs': False, 'kwonly': [], 'varkw': False})
  # config files live in memory when possible: creating several thousand small files on disk dominated the run time
  shm = os.environ.get('VF_SHM_DIR') or '/dev/shm'
  _S['tmp'] = tempfile.mkdtemp(prefix='vf-c5-', dir=shm if os.path.isdir(shm) and os.access(shm, os.W_OK) else None)
  _S['fileno'] = itertools.count()


def finish(ctx):
  shutil.rmtree(_S['tmp'], ignore_errors=True)


# macro value: ['lit', v] | ['prov', name, scoped] | ['macro', other] | ['tree', container tree]
# value tree: nested lists of ['use', macro] (%m) | ['xuse', macro] (@m/gin.macro()) | ['lit', v] | ['const', spelling] | ['list', [...]] | ['dict', [...]]
#             and, inside macro values only, ['prov', name, scoped]
def gen_tree(rng, depth, macro_pool, const_spellings, tails=(), provs=False):
  r = rng.random()
  if depth <= 0 or r < 0.5:
    k = rng.random()
    if k < 0.6 and macro_pool:
      m = rng.choice(macro_pool)
      return ['xuse', m] if rng.random() < 0.12 else ['use', m]
    if k < 0.8 and const_spellings:
      if tails and rng.random() < 0.2:
        return ['const', rng.choice(tails)]
      return ['const', rng.choice(const_spellings)]
    if provs and k < 0.92:
      return ['prov', 'prov%d' % rng.randrange(2), rng.random() < 0.3]
    return ['lit', rng.choice([1, 'x', None, [1]])]
  n = rng.choice([1, 2, 3])
  if r < 0.85:
    return ['list', [gen_tree(rng, depth - 1, macro_pool, const_spellings, tails, provs) for _ in range(n)]]
  return ['dict', [['k%d' % i, gen_tree(rng, depth - 1, macro_pool, const_spellings, tails, provs)] for i in range(n)]]


def tree_text(t):
  k = t[0]
  if k == 'use':
    return '%' + t[1]
  if k == 'xuse':
    return '@' + t[1] + '/gin.macro()'
  if k == 'const':
    return '%' + t[1]
  if k == 'prov':
    return '@' + ('ps/' if t[2] else '') + t[1] + '()'
  if k == 'lit':
    return repr(t[1])
  if k == 'list':
    return '[' + ', '.join(tree_text(x) for x in t[1]) + ']'
  return '{' + ', '.join('%r: %s' % (a, tree_text(b)) for a, b in t[1]) + '}'


def mval_text(v):
  if v[0] == 'lit':
    return repr(v[1])
  if v[0] == 'prov':
    return '@' + ('ps/' if v[2] else '') + v[1] + '()'
  if v[0] == 'tree':
    return tree_text(v[1])
  return '%' + v[1]


def stmt_text(st, shared_path=None):
  if st[0] == 'inc':
    return "include '%s'" % shared_path(st[1])
  if st[0] == 'def':
    form = st[3] if len(st) > 3 else 'short'
    return '%s%s = %s' % (st[1], '/gin.macro.value' if form == 'explicit' else '', mval_text(st[2]))
  scope = st[3] if len(st) > 3 else ''
  return '%sc5cons.%s = %s' % (scope + '/' if scope else '', st[1], tree_text(st[2]))


def uses(t, out):
  if t[0] in ('use', 'xuse'):
    out.append(t[1])
  elif t[0] == 'list':
    for x in t[1]:
      uses(x, out)
  elif t[0] == 'dict':
    for _, x in t[1]:
      uses(x, out)
  return out


def has_node(t, kinds):
  if t[0] in kinds:
    return True
  if t[0] == 'list':
    return any(has_node(x, kinds) for x in t[1])
  if t[0] == 'dict':
    return any(has_node(x, kinds) for _, x in t[1])
  return False


def gen_constants(rng):
  names = set()
  for _ in range(rng.choice([0, 1, 2, 3, 5])):
    d = rng.choice([1, 2, 3, 4])
    names.add('.'.join([rng.choice(COMPS) for _ in range(d - 1)] + [rng.choice(ALPHA)]))
  if names and rng.random() < 0.6:
    n = rng.choice(sorted(names))
    names.add('w.' + n)
  # define shorter names first: a new name must not be a dotted suffix of an existing one (unspecified, DESIGN X)
  return sorted(names, key=lambda s: (s.count('.'), s))


def enum_names(spec):
  _, clsname, module, members = spec
  return ['%s.%s.%s' % (module or ENUM_MODULE, clsname, m) for m in members]


def gen_stmt(rng, pool, spell, tails, pdef):
  """One statement: a macro definition ['def', m, value, form] or a consumer binding ['bind', param, tree, scope]."""
  if rng.random() < pdef:
    m = rng.choice(pool)
    others = [x for x in pool if x != m]
    vk = rng.random()
    if vk < 0.4:
      v = ['lit', rng.choice([1, 'two', [3, [4]], {'k': 5}, None])]
    elif vk < 0.7:
      v = ['prov', 'prov%d' % rng.randrange(2), rng.random() < 0.3]
    elif vk < 0.85:
      v = ['macro', rng.choice(others)] if others else ['lit', 0]
    else:
      items = [gen_tree(rng, rng.choice([0, 0, 1]), others, spell, tails, provs=True) for _ in range(rng.choice([1, 2, 3]))]
      v = ['tree', ['list', items] if rng.random() < 0.7 else ['dict', [['k%d' % j, it] for j, it in enumerate(items)]]]
    return ['def', m, v, 'explicit' if rng.random() < 0.2 else 'short']
  return ['bind', rng.choice(['p', 'q']), gen_tree(rng, rng.choice([0, 1, 2]), pool, spell, tails), rng.choice(['', '', '', '', 's', 's/t'])]


def gen_shared(rng, pool, spell, tails):
  """Config files that are not a step of their own: steps (and later shared files) `include` them, possibly several times in one history."""
  shared = []
  for j in range(rng.choice([0, 0, 0, 1, 1, 2])):
    sst = [gen_stmt(rng, pool, spell, tails, 0.7) for _ in range(rng.choice([1, 1, 2, 3]))]
    if j and rng.random() < 0.6:
      sst.insert(rng.randrange(len(sst) + 1), ['inc', rng.randrange(j)])      # a base file shared by the files a config is composed of
    shared.append(sst)
  return shared


def iter_cases(ctx, rng, n):
  for i in range(n):
    consts = gen_constants(rng)
    kinds = {c: rng.choice(CONST_KINDS) for c in consts}
    nsteps = rng.choice([1, 2, 3, 4])
    enums = [[rng.choice([0, 0, 0, 0, 1])] + copy.deepcopy(sp) for sp in rng.sample(ENUM_SPECS, rng.choice([0, 0, 1, 1, 2]))]
    spell = set()
    for c in consts + [nm for e in enums for nm in enum_names(e)]:
      parts = c.split('.')
      for j in range(len(parts)):
        spell.add('.'.join(parts[j:]))
    # character tails of the spellings that are not spellings themselves: `%B` next to a constant x.AB, `%x.AB` next to yx.AB -> macros
    tails = set()
    for s in spell:
      for j in (1, 2):
        t = s[j:]
        if t and t[0] != '.' and not t[0].isdigit() and t not in spell:
          tails.add(t)
    spell = sorted(spell)
    tails = sorted(tails)
    pool = rng.sample(MACROS, rng.choice([1, 2, 3]))
    shared = gen_shared(rng, pool, spell, tails)
    steps = []
    for _ in range(nsteps):
      stmts = []
      for _ in range(rng.choice([1, 2, 3, 4])):
        if shared and rng.random() < SHARED_INCLUDE_RATE:
          # `include` of a file other steps / files of this history include as well
          stmts.append(['inc', rng.randrange(len(shared))])
        else:
          stmts.append(gen_stmt(rng, pool, spell, tails, 0.5))
      kind = rng.choice(['string', 'string', 'file', 'include', 'include', 'fab', 'list'])
      cuts = sorted(rng.randrange(0, len(stmts) + 1) for _ in range(4))
      if rng.random() < 0.35:
        cuts[0] = 0
      steps.append({'kind': kind, 'stmts': stmts, 'split': cuts[3], 'cuts': cuts, 'nested': rng.random() < 0.5, 'call': rng.random() < 0.7,
                    'ambient': rng.choice([None, None, None, 's', 's/t', 't']), 'as_tuple': rng.random() < 0.3,
                    'skip_unknown': rng.choice([False, False, True, ['some_unknown_name']]), 'clear_before': rng.random() < 0.12})
    late = []
    for si in range(1, len(steps)):
      if rng.random() < 0.5:
        cands = ['q.LATEK'] + ['w2.' + c for c in consts] + [c.split('.')[-1][1:] for c in consts if len(c.split('.')[-1]) > 1]
        late.append([si, rng.choice(cands), rng.choice(CONST_KINDS)])
    api_defs = [[si, rng.choice(pool), rng.choice([7, 'api', [8, {'k': [9]}], None])] for si in range(len(steps)) if rng.random() < 0.2]
    dup_probes = [[si, rng.random()] for si in range(1, len(steps) + 1) if rng.random() < 0.4]
    post = rng.choice([None, {'v': ['lit', 'post-finalize'], 'form': 'short'}, {'v': ['lit', 9], 'form': 'explicit'}, {'v': ['lit', [9, 'api']], 'form': 'api'},
                       {'v': ['prov', 'prov1', False], 'form': 'short'}])
    yield {'consts': consts, 'const_kinds': kinds, 'enums': enums, 'shared': shared, 'late_consts': late, 'api_defs': api_defs, 'dup_probes': dup_probes, 'post_finalize': post,
           'steps': steps, 'finalize': rng.random() < 0.6, 'unevaluated': rng.random() < 0.15,
           'bad_const': rng.choice([None, 'invalid', 'duplicate']), 'ambiguous_probe': rng.random() < 0.5, 'query_unbound_first': rng.random() < 0.5,
           'keymacro': rng.choice([None, None, None, None, None, '{%c5_never_bound: 1}', '{(1, %c5_never_bound): [2]}', "{'k': {%c5_never_bound: 0}}", '{@c5_never_bound/gin.macro: 1}'])}


def freeze(t, consts):
  """What a value tree means at the moment it is parsed: whether %name is a constant is decided then (macros stay late-bound)."""
  k = t[0]
  if k in ('const', 'use'):
    r = models.resolve_suffix(consts, t[1])
    if len(r) == 1:
      return ['constr', r[0]]
    return ['use', t[1]]
  if k == 'list':
    return ['list', [freeze(x, consts) for x in t[1]]]
  if k == 'dict':
    return ['dict', [[a, freeze(b, consts)] for a, b in t[1]]]
  return t   # 'lit', 'prov', 'xuse' (@m/gin.macro() names the macro whatever the constants are), 'constr'


def macro_refs(v):
  """Macros a (frozen) macro value refers to."""
  if v[0] == 'macro':
    return [v[1]]
  if v[0] == 'tree':
    return uses(v[1], [])
  return []


def has_cycle(table):
  state = {}

  def visit(m):
    if state.get(m) == 1:
      return True
    if state.get(m) == 2 or m not in table:
      return False
    state[m] = 1
    for r in macro_refs(table[m]):
      if visit(r):
        return True
    state[m] = 2
    return False
  return any(visit(m) for m in list(table))


def model_value(t, table, consts, sentinels, calls, depth=0, pscope=()):
  """Expected shape of what the consumer receives for tree t; KeyError marks a use of an unbound macro.

  pscope = the scope under which an unscoped reference standing in this tree is evaluated (the macro's own name for a macro value)."""
  k = t[0]
  if k == 'lit':
    return c04.lit_shape(t[1])
  if k in ('use', 'xuse'):
    return model_macro(t[1], table, consts, sentinels, calls, depth)
  if k == 'constr':
    return ('const', t[1])
  if k == 'const':
    r = models.resolve_suffix(consts, t[1])
    return ('const', r[0])
  if k == 'prov':
    calls.append((t[1], ('ps',) if t[2] else tuple(pscope)))
    return ('prov', t[1])
  if k == 'list':
    return ('list', tuple(model_value(x, table, consts, sentinels, calls, depth, pscope) for x in t[1]))
  return ('dict', tuple((c04.lit_shape(a), model_value(b, table, consts, sentinels, calls, depth, pscope)) for a, b in t[1]))


class Grey(Exception):
  pass


def model_macro(m, table, consts, sentinels, calls, depth):
  if m not in table and any(m.startswith(t + '/') for t in table):
    # the macro's name is the scope of gin.macro: an unbound `a/b` evaluated while `a` is bound inherits a's value through scope
    # layering. The statement says nothing about it (only finalize must reject the unbound name) -> not constrained.
    raise Grey(m)
  if m not in table or depth > 8:
    raise KeyError(m)
  v = table[m]
  if v[0] == 'constr':
    return ('const', v[1])
  if v[0] == 'lit':
    return c04.lit_shape(v[1])
  if v[0] == 'prov':
    scope = ('ps',) if v[2] else tuple(m.split('/'))
    calls.append((v[1], scope))
    return ('prov', v[1])
  if v[0] == 'tree':
    return model_value(v[1], table, consts, sentinels, calls, depth + 1, tuple(m.split('/')))
  return model_macro(v[1], table, consts, sentinels, calls, depth + 1)


def shape(v, sentinels):
  if isinstance(v, Sentinel):
    return ('const', v.name)
  if isinstance(v, list) and len(v) == 3 and v[0] == 'ret' and v[1] in _S['by_pid']:
    return ('prov', _S['by_pid'][v[1]])
  if type(v) in (list, tuple):
    return (type(v).__name__, tuple(shape(x, sentinels) for x in v))
  if type(v) is dict:
    return ('dict', tuple((shape(a, sentinels), shape(b, sentinels)) for a, b in v.items()))
  return ('lit', canon(v))


def make_const_value(name, kind):
  """The object a constant stands for. Containers and strings are built at run time so that no other object can be `is`-identical by accident."""
  if kind == 'list':
    return [1, Sentinel(name + '#item')]
  if kind == 'dict':
    return {'k': [2], 'name': name}
  if kind == 'set':
    return {3, name}
  if kind == 'none':
    return None
  if kind == 'str':
    return ''.join(['%', 'm0'])      # looks like a macro use; it is a value
  return Sentinel(name)


def compare(exp, got, sentinels, problems, stats, top=True):
  """Parallel walk of the model's shape and the delivered value; a constant must be the very object (is), also inside containers."""
  k = exp[0]
  if k == 'const':
    obj = sentinels[exp[1]]
    stats.append((exp[1], top))
    if got is obj:
      return
    try:
      look_alike = type(got) is type(obj) and (got.name == obj.name if isinstance(obj, Sentinel) else bool(got == obj))
    except Exception:  # pylint: disable=broad-except
      look_alike = False
    problems.append(('constant-not-identical' if look_alike else 'macro-value-differs-from-table',
                     'constant %s: expected the very object %r, received %r' % (exp[1], obj, got)))
    return
  if k in ('list', 'tuple'):
    if type(got).__name__ != k or len(got) != len(exp[1]):
      problems.append(('macro-value-differs-from-table', 'expected %r, received %r' % (exp, shape(got, sentinels))))
      return
    for e, g in zip(exp[1], got):
      compare(e, g, sentinels, problems, stats, False)
    return
  if k == 'dict':
    if type(got) is not dict or [shape(a, sentinels) for a in got] != [a for a, _ in exp[1]]:
      problems.append(('macro-value-differs-from-table', 'expected %r, received %r' % (exp, shape(got, sentinels))))
      return
    for (_, e), g in zip(exp[1], got.values()):
      compare(e, g, sentinels, problems, stats, False)
    return
  if shape(got, sentinels) != exp:
    problems.append(('macro-value-differs-from-table', 'expected %r, received %r' % (exp, shape(got, sentinels))))


def effective_store(store, ambient):
  """Consumer bindings in force inside config_scope(ambient): the unscoped ones overlaid by those of every prefix of the active scope."""
  comps = ambient.split('/') if ambient else []
  out, scoped = {}, False
  for i in range(len(comps) + 1):
    sc = '/'.join(comps[:i])
    for (s, prm), t in store.items():
      if s == sc:
        out[prm] = t
        scoped = scoped or bool(s)
  return out, scoped


def run_case(ctx, case):
  import gin
  from gin import config as gc
  gin.clear_config(clear_constants=True)
  cons = _S['cons']
  # ---- constants
  sentinels = {}
  kinds = dict(case.get('const_kinds') or {})
  for c in case['consts']:
    sentinels[c] = make_const_value(c, kinds.get(c, 'sentinel'))
    gin.constant(c, sentinels[c])
    if kinds.get(c, 'sentinel') != 'sentinel':
      ctx.bucket('const:%s-valued' % kinds[c])
  consts = set(case['consts'])
  enum_classes = []
  late_names = set()

  def fresh_name(name):
    # not a duplicate and not a dotted suffix of an existing constant (the latter is unspecified, DESIGN X)
    return name not in consts and not any(c.endswith('.' + name) for c in consts)

  def define_enums(at):
    for spec in case.get('enums', []):
      if spec[0] != at:
        continue
      _, clsname, module, members = spec
      names = enum_names(spec)
      if not all(fresh_name(nm) for nm in names):
        continue
      cls = enum.Enum(clsname, list(members), module=ENUM_MODULE)
      if module is None:
        gin.constants_from_enum(cls)
      else:
        gin.constants_from_enum(module=module)(cls)
      for mname, nm in zip(members, names):
        sentinels[nm] = cls[mname]       # the enum member itself is the constant's value
        kinds[nm] = 'enum'
        consts.add(nm)
        if at:
          late_names.add(nm)
      enum_classes.append((cls, module))
      ctx.bucket('const:from-enum')
  define_enums(0)

  def table_snapshot():
    return {n: gin.query_parameter(n) for n in consts}

  def rejected(what, fn, key, accept=ValueError):
    """fn() must raise; the constant table must be what it was."""
    before = table_snapshot()
    nconst = len(gc._CONSTANTS)
    try:
      fn()
      ctx.check(False, key, '%s accepted' % what)
    except accept:
      ctx.count('oracle_evals')
    after = table_snapshot()
    ctx.check(len(gc._CONSTANTS) == nconst and all(after[n] is before[n] for n in before),
              'rejected-constant-changed-table', 'rejected %s changed the constant table' % what)

  if case['bad_const']:
    if case['bad_const'] == 'invalid':
      ctx.bucket('const:invalid-name')
      bads = ['a..B', '1x.B', 'a b', '', 'a.', '.a', 'a/b', 'a-b', 'A\n', 'x.A\n', '\nA', 'A\r']
    else:
      ctx.bucket('const:duplicate')
      bads = (list(case['consts'][:2]) + sorted(n for n in consts if kinds.get(n) == 'enum')[:1]) or ['gin.REQUIRED']
    for b in bads:
      rejected('gin.constant(%r)' % b, lambda b=b: gin.constant(b, 'intruder'), 'bad-constant-accepted')

  table = {}            # macro table model
  store = {}            # (scope, consumer param) -> tree
  stepkinds = []
  pattern = []
  defined_in_step = {}
  used_before_def = set()
  cleared = False
  features = set()
  shared = case.get('shared') or []
  shared_paths = {}     # shared file index -> path (written once per case: every `include` of it names the same file)
  inclusions = {}       # shared file index -> steps at which it was included since the last clear_config
  file_defined = {}     # shared file index -> macros its earlier inclusions bound
  last_definer = {}     # macro -> ('shared', j) | ('step', where)

  def shared_path(j):
    if j not in shared_paths:
      shared_paths[j] = write_file([stmt_text(st, shared_path) for st in shared[j]])
    return shared_paths[j]

  def shared_percent_names(j):
    out = []
    for st in shared[j]:
      out.extend(shared_percent_names(st[1]) if st[0] == 'inc' else percent_names(st))
    return out

  def define(m, mv, where, origin=None):
    origin = origin or ('step', where)
    if origin[0] == 'shared' and m in file_defined.get(origin[1], ()) and last_definer.get(m) != origin and m in table:
      # the file bound m before, something else re-bound it since, and now the file is included again: its binding is the most recent one
      ctx.bucket('order:rebound-by-repeated-include')
      features.add('rebound-by-include')
    if origin[0] == 'shared':
      file_defined.setdefault(origin[1], set()).add(m)
    last_definer[m] = origin
    if m in table:
      ctx.bucket('order:redefinition-later-step' if defined_in_step.get(m) != where else 'order:redefinition-same-step')
    if mv[0] == 'macro' and len(models.resolve_suffix(consts, mv[1])) == 1:
      mv = ['constr', models.resolve_suffix(consts, mv[1])[0]]   # `m = %NAME` where NAME is (by now) a constant
    elif mv[0] == 'tree':
      mv = ['tree', freeze(mv[1], consts)]
      if has_node(mv[1], ('prov', 'constr', 'use', 'xuse')):
        ctx.bucket('macro:container-holding-references')
        features.add('tree')
    table[m] = mv
    defined_in_step[m] = where
    pattern.append('D')
    if '/' in m:
      ctx.bucket('macro:scope-like-name')
    ctx.bucket({'lit': 'macro:literal', 'prov': 'macro:evaluated-reference', 'macro': 'macro:nested-macro', 'constr': 'macro:literal',
                'tree': 'macro:container'}[mv[0]])

  def dup_probe(pick):
    """A duplicate definition is an error wherever in the history it happens."""
    names = sorted(consts)
    if not names:
      return
    n = names[min(int(pick * len(names)), len(names) - 1)]
    ctx.bucket('const:duplicate-mid-history')
    if cleared:
      ctx.bucket('const:duplicate-after-clear_config')
    if n in late_names:
      ctx.bucket('const:duplicate-of-late-constant')
    rejected('duplicate gin.constant(%r) in the middle of a history' % n, lambda: gin.constant(n, 'intruder'), 'bad-constant-accepted')
    if enum_classes:
      cls, module = enum_classes[int(pick * 1000) % len(enum_classes)]
      ctx.bucket('const:duplicate-enum-redecorated')
      # any exception class: the statement only says "is an error"
      rejected('second gin.constants_from_enum of %s (module=%r)' % (cls.__name__, module),
               lambda: gin.constants_from_enum(cls, module=module), 'bad-constant-accepted', accept=Exception)

  for si, step in enumerate(case['steps']):
    if step.get('clear_before') and si:
      # clear_config() keeps the constants (the very same objects); macros and bindings are gone
      gin.clear_config()
      table.clear()
      store.clear()
      defined_in_step.clear()
      inclusions.clear()
      file_defined.clear()
      last_definer.clear()
      cleared = True
      ctx.bucket('history:clear_config-keeps-constants')
    for ent in case.get('late_consts', []):
      at, name = ent[0], ent[1]
      if at == si and fresh_name(name):
        kinds[name] = ent[2] if len(ent) > 2 else 'sentinel'
        sentinels[name] = make_const_value(name, kinds[name])
        gin.constant(name, sentinels[name])
        consts.add(name)
        late_names.add(name)
        ctx.bucket('const:defined-between-parses')
        if kinds[name] != 'sentinel':
          ctx.bucket('const:%s-valued' % kinds[name])
    if si:
      define_enums(si)
    for at, pick in case.get('dup_probes', []):
      if at == si:
        dup_probe(pick)
    for at, m, v in case.get('api_defs', []):
      if at == si:
        # the macro's value bound through the Python API: the same binding as `m = v` in a file
        gin.bind_parameter('%s/gin.macro.value' % m, copy.deepcopy(v))
        define(m, ['lit', v], si - 0.5)
        ctx.bucket('macro:bound-via-bind_parameter')
        features.add('api')
    # ---- render the step
    # would the step be rejected? (ambiguous constant spelling) -> it raises at that statement; the prefix is applied (C16's domain);
    # here the generator only uses resolvable or unknown spellings, ambiguity is probed separately below
    # a shared file's text is fixed once written: where a constant defined since makes one of its %names ambiguous, including it (again) would
    # be rejected -> such an include statement is left out of the step
    keep = [st for st in step['stmts']
            if st[0] != 'inc' or not any(len(models.resolve_suffix(consts, t)) > 1 for t in shared_percent_names(st[1]))]
    if len(keep) != len(step['stmts']):
      ctx.count('shared_include_dropped_ambiguous', len(step['stmts']) - len(keep))
      step['stmts'] = keep
    amb = [t for st in step['stmts'] for t in percent_names(st) if len(models.resolve_suffix(consts, t)) > 1]
    if amb:
      ctx.bucket('const:ambiguous')
      snap_before = {k: dict(v) for k, v in gc._CONFIG.items()}
      try:
        gin.parse_config('c5cons.q = %' + amb[0])
        ctx.check(False, 'ambiguous-constant-accepted', 'ambiguous constant spelling %%%s accepted (constants %r)' % (amb[0], sorted(consts)))
      except ValueError:
        ctx.count('oracle_evals')
      ctx.check({k: dict(v) for k, v in gc._CONFIG.items()} == snap_before, 'ambiguous-constant-bound-something', 'rejected ambiguous %%%s changed the store' % amb[0])
      if '/' not in amb[0]:
        # asking for the ambiguous abbreviation is an error as well (any exception class)
        ctx.bucket('const:ambiguous-query_parameter')
        try:
          got = gin.query_parameter(amb[0])
          ctx.check(False, 'ambiguous-constant-accepted', 'query_parameter(%r) answered %r although the abbreviation is ambiguous (constants %r)' % (amb[0], got, sorted(consts)))
        except Exception:  # pylint: disable=broad-except
          ctx.count('oracle_evals')
      # rewrite ambiguous spellings to the full name (macro names that are ambiguous abbreviations: to the explicit form) so the step is valid
      for st in step['stmts']:
        if st[0] == 'inc':
          continue
        if st[0] == 'bind':
          fix_ambiguous(st[2], consts)
        elif st[2][0] == 'tree':
          fix_ambiguous(st[2][1], consts)
        elif st[2][0] == 'macro' and len(models.resolve_suffix(consts, st[2][1])) > 1:
          st[2] = ['tree', ['list', [['xuse', st[2][1]]]]]
    lines = [stmt_text(st, shared_path) for st in step['stmts']]
    ctx.bucket('step:' + {'fab': 'files_and_bindings'}.get(step['kind'], step['kind']))
    stepkinds.append(step['kind'])
    sk = step.get('skip_unknown', False)
    if sk:
      ctx.bucket('step:skip_unknown-enabled')   # nothing here is unknown: macro definitions are never skippable
    parse_step(ctx, gin, step, lines, sk)
    # ---- model: statements in application order; an `include` stands for the statements of the file, each time it is met
    def apply_stmt(st, origin, via=()):
      if st[0] == 'inc':
        j = st[1]
        ctx.bucket('step:shared-file-included')
        if via:
          ctx.bucket('step:shared-file-included-through-shared-file')
        if inclusions.get(j):
          ctx.bucket('step:file-included-again')
          ctx.bucket('step:file-included-again-in-same-step' if inclusions[j][-1] == si else 'step:file-included-again-in-later-step')
          features.add('reinc')
        inclusions.setdefault(j, []).append(si)
        for s2 in shared[j]:
          apply_stmt(s2, ('shared', j), via + (j,))
        return
      if st[0] == 'def':
        if len(st) > 3 and st[3] == 'explicit':
          ctx.bucket('macro:explicit-binding-form')
          features.add('explicit')
        define(st[1], st[2], si, origin)
        return
      scope = st[3] if len(st) > 3 else ''
      fr = freeze(st[2], consts)
      store[(scope, st[1])] = fr
      us = uses(fr, [])
      if uses(st[2], []) != us:
        ctx.bucket('const:name-became-constant-after-use-as-macro')
      if has_node(fr, ('xuse',)):
        ctx.bucket('macro:explicit-reference-form')
        features.add('xuse')
      if us and via:
        ctx.bucket('order:use-in-included-file')
      for u in us:
        if u not in table:
          used_before_def.add(u)
          ctx.bucket('order:use-before-definition')
        else:
          ctx.bucket('order:definition-before-use')
      if len(us) != len(set(us)):
        ctx.bucket('macro:used-twice-in-one-value')
      pattern.append('U')
      for spelling in const_spellings_in(st[2]):
        r = models.resolve_suffix(consts, spelling)
        if len(r) == 1:
          ctx.bucket('const:full-name' if r[0] == spelling else 'const:unique-suffix')
        elif not r and any(c.endswith(spelling) for c in consts):
          # a character tail of a constant's name that is not a dotted suffix of it: not that constant -> a macro
          ctx.bucket('const:char-tail-is-not-a-suffix')
          features.add('tail')

    for sti, st in enumerate(step['stmts']):
      if (st[0] == 'def' and step['kind'] == 'fab' and sti >= fab_cut(step)
          and any(s2[0] == 'def' and s2[1] == st[1] for s2 in step['stmts'][:fab_cut(step)])):
        ctx.bucket('order:redefinition-files-then-bindings')
      apply_stmt(st, ('step', si))
    # ---- consumer call between steps
    if step['call'] or si == len(case['steps']) - 1:
      if si < len(case['steps']) - 1:
        ctx.bucket('call:between-steps')
      do_call(ctx, gin, cons, table, store, consts, sentinels, step.get('ambient'))

  for at, pick in case.get('dup_probes', []):
    if at >= len(case['steps']):
      dup_probe(pick)

  # a spelling that matches no constant is a macro
  if case['ambiguous_probe']:
    gin.parse_config('c5cons.q = %NOT_A_CONSTANT\nNOT_A_CONSTANT = 77\n')
    store[('', 'q')] = ['use', 'NOT_A_CONSTANT']
    table['NOT_A_CONSTANT'] = ['lit', 77]
    ctx.bucket('const:none-falls-to-macro')
    do_call(ctx, gin, cons, table, store, consts, sentinels)

  # ---- finalize
  if case['finalize'] and not has_cycle(table):
    referenced = []
    for t in store.values():
      uses(t, referenced)
    # macros referenced from macro values that are themselves in the store
    for m, v in table.items():
      referenced.extend(macro_refs(v))
    unbound = sorted({m for m in referenced if m not in table})
    if any(any(m.startswith(t + '/') for t in table) for m in unbound):
      ctx.bucket('finalize:unbound-with-bound-prefix-macro')
    if case.get('query_unbound_first') and unbound:
      # asking for a macro that was never bound (the usual "is it set?" probe) fails and must not make it count as bound
      ctx.bucket('finalize:after-failed-query-of-unbound-macro')
      for m in unbound:
        try:
          gin.query_parameter('%' + m)
          if not any(m.startswith(t + '/') for t in table):
            ctx.check(False, 'query-of-unbound-macro-answered', 'query_parameter(%%%s) answered although the macro was never bound' % m)
        except ValueError:
          ctx.count('oracle_evals')
    if case.get('keymacro') and not case['unevaluated']:
      # a macro nobody binds, used as (part of) a dict key: still a referenced-but-unbound macro
      gin.parse_config('c5cons.q = ' + case['keymacro'])
      ctx.bucket('finalize:unbound-macro-in-dict-key')
      unbound = unbound + ['c5_never_bound']
      expect_fail = True
    elif case['unevaluated']:
      gin.parse_config('c5cons.q = @m0/gin.macro')
      ctx.bucket('finalize:unevaluated')
      expect_fail = True
    else:
      expect_fail = bool(unbound)
      ctx.bucket('finalize:unbound' if unbound else 'finalize:ok')
    ctx.count('finalize_checks')
    try:
      if ctx.case_no % 2:
        # an active config scope while finalizing does not switch the macro validation off
        ctx.bucket('finalize:inside-active-config-scope')
        with gin.config_scope('c5scope'):
          gin.finalize()
      else:
        gin.finalize()
      ok = True
    except ValueError:
      ok = False
    ctx.check(ok != expect_fail, 'finalize-macro-validation', 'finalize() %s; referenced-unbound macros per model: %r; unevaluated reference: %s' %
              ('succeeded' if ok else 'raised', unbound, case['unevaluated']))
    if not ok:
      ctx.check(not gin.config_is_locked(), 'rejected-finalize-locked', 'finalize rejected the macros but left the config locked')
    elif not expect_fail and case.get('post_finalize'):
      after_finalize(ctx, gin, cons, case['post_finalize'], table, store, consts, sentinels, define)
      features.add('post')
  ctx.fp(tuple(stepkinds), ''.join(pattern), tuple(sorted({v[0] for v in table.values()})),
         tuple(sorted(len(c.split('.')) for c in case['consts'])), case['finalize'], case['bad_const'], tuple(sorted(features)),
         tuple(sorted(set(kinds.values()))))
  ctx.sample({'constants': case['consts'], 'steps': [{'kind': s['kind'], 'stmts': s['stmts']} for s in case['steps']][:3]}, cap=3)
  gin.clear_config(clear_constants=True)


def fab_cut(step):
  """Index of the first statement passed as a binding (not in a file) by a parse_config_files_and_bindings step."""
  return (step.get('cuts') or [0, step['split']])[1]


def write_file(lines):
  fn = os.path.join(_S['tmp'], 'f%d.gin' % next(_S['fileno']))
  with open(fn, 'w') as f:
    f.write(''.join(l + '\n' for l in lines))
  return fn


def parse_step(ctx, gin, step, lines, sk):
  """Hands the statements to gin in the step's way; in every way they are applied in the order of `lines`."""
  kind = step['kind']
  if kind == 'string':
    gin.parse_config('\n'.join(lines) + '\n', skip_unknown=sk)
  elif kind == 'list':
    # a list (or tuple) of individual binding strings
    gin.parse_config(tuple(lines) if step.get('as_tuple') else list(lines), skip_unknown=sk)
  elif kind == 'fab':
    # files first, then the extra bindings: a macro re-defined in the bindings wins
    cuts = step.get('cuts') or [0, step['split']]
    c0, c1 = (cuts[0], cuts[1]) if step.get('nested') else (cuts[1], cuts[1])
    files = [write_file(lines[:c0]), write_file(lines[c0:c1])] if step.get('nested') else [write_file(lines[:c1])]
    extra = lines[c1:]
    gin.parse_config_files_and_bindings(files, tuple(extra) if step.get('as_tuple') else extra, finalize_config=False, skip_unknown=sk)
  elif kind == 'include':
    k = step['split']
    c0, c1, c2, c3 = step.get('cuts') or [0, 0, k, k]
    if step.get('nested') and 'cuts' in step:
      inc2 = write_file(lines[c1:c2])
      inc1 = write_file(lines[c0:c1] + ["include '%s'" % inc2] + lines[c2:c3])
      ctx.bucket('step:nested-include')
    else:
      inc1 = write_file(lines[c0:c3])
    if c0:
      ctx.bucket('step:include-after-statements')
    gin.parse_config_file(write_file(lines[:c0] + ["include '%s'" % inc1] + lines[c3:]), skip_unknown=sk)
  else:
    gin.parse_config_file(write_file(lines), skip_unknown=sk)


def after_finalize(ctx, gin, cons, post, table, store, consts, sentinels, define):
  """Late binding survives finalize(): a macro re-bound afterwards (config unlocked for the purpose) changes what its uses deliver."""
  direct = [t[1] for t in store.values() if t[0] in ('use', 'xuse') and t[1] in table]
  anywhere = [m for t in store.values() for m in uses(t, []) if m in table]
  if direct or anywhere:
    m = sorted(direct or anywhere)[0]
  else:
    m = 'c5_post'
    with gin.unlock_config():
      gin.parse_config("c5_post = 'before'\nc5cons.p = [%c5_post]\n")
    define(m, ['lit', 'before'], 'post')
    store[('', 'p')] = ['list', [['use', m]]]
  do_call(ctx, gin, cons, table, store, consts, sentinels)       # finalize itself changed nothing
  v, form = post['v'], post.get('form', 'short')
  with gin.unlock_config():
    if form == 'api':
      gin.bind_parameter('%s/gin.macro.value' % m, copy.deepcopy(v[1]))
    else:
      gin.parse_config(stmt_text(['def', m, v, form]) + '\n')
  define(m, v, 'post')
  ctx.bucket('finalize:macro-redefined-after-finalize')
  if has_cycle(table):
    return
  do_call(ctx, gin, cons, table, store, consts, sentinels)


def const_spellings_in(t, out=None):
  out = [] if out is None else out
  if t[0] == 'const':
    out.append(t[1])
  elif t[0] == 'list':
    for x in t[1]:
      const_spellings_in(x, out)
  elif t[0] == 'dict':
    for _, x in t[1]:
      const_spellings_in(x, out)
  return out


def percent_names(st):
  """Every name written as %name in a statement (constant spellings and macro names alike: the parser cannot tell them apart)."""
  if st[0] == 'inc':
    return []
  if st[0] == 'bind':
    t = st[2]
  elif st[2][0] == 'tree':
    t = st[2][1]
  elif st[2][0] == 'macro':
    return [st[2][1]]
  else:
    return []
  return const_spellings_in(t) + [m for m in uses_of_kind(t, 'use', [])]


def uses_of_kind(t, kind, out):
  if t[0] == kind:
    out.append(t[1])
  elif t[0] == 'list':
    for x in t[1]:
      uses_of_kind(x, kind, out)
  elif t[0] == 'dict':
    for _, x in t[1]:
      uses_of_kind(x, kind, out)
  return out


def fix_ambiguous(t, consts):
  if t[0] == 'use':
    if len(models.resolve_suffix(consts, t[1])) > 1:
      t[0] = 'xuse'      # `%B` cannot name the macro B while B abbreviates two constants; `@B/gin.macro()` can
    return
  if t[0] == 'const':
    r = models.resolve_suffix(consts, t[1])
    if len(r) > 1:
      t[1] = r[0] if r[0] in consts and models.resolve_suffix(consts, r[0]) == [r[0]] else sorted(r, key=len)[-1]
  elif t[0] == 'list':
    for x in t[1]:
      fix_ambiguous(x, consts)
  elif t[0] == 'dict':
    for _, x in t[1]:
      fix_ambiguous(x, consts)


def do_call(ctx, gin, cons, table, store, consts, sentinels, ambient=None):
  if has_cycle(table):
    return
  eff, scoped = effective_store(store, ambient)

  def call():
    if ambient:
      with gin.config_scope(ambient):
        return cons.conf()
    return cons.conf()
  exp, calls, unbound = {}, [], False
  for prm, t in eff.items():
    try:
      exp[prm] = model_value(t, table, consts, sentinels, calls)
    except KeyError:
      unbound = True
    except Grey:
      ctx.count('grey_unbound_macro_with_bound_prefix')
      try:
        call()
      except Exception:  # pylint: disable=broad-except
        pass
      return
  mark = probes.RECORDER.mark()
  exc = None
  try:
    call()
  except Exception as e:  # pylint: disable=broad-except
    exc = e
  ctx.count('consumer_calls')
  recs = probes.RECORDER.since(mark)
  if unbound:
    ctx.bucket('call:unbound-macro-raises')
    ctx.check(exc is not None, 'unbound-macro-use-did-not-fail', 'a macro that is not (yet) bound was used and the call succeeded: %r' %
              ([r.received for r in recs if r.pid == cons.pid],))
    return
  if not ctx.check(exc is None, 'unexpected-exception', 'consumer call raised %s: %s' % (type(exc).__name__, str(exc)[:300])):
    return
  if ambient:
    ctx.bucket('call:inside-config_scope')
    if scoped:
      ctx.bucket('call:scoped-binding-effective')
  got = [r for r in recs if r.pid == cons.pid][0].received
  for prm in exp:
    problems, stats = [], []
    compare(exp[prm], got[prm], sentinels, problems, stats)
    value_problems = [m for k, m in problems if k == 'macro-value-differs-from-table']
    ident_problems = [m for k, m in problems if k == 'constant-not-identical']
    ctx.check(not value_problems, 'macro-value-differs-from-table', 'parameter %s%s received %r, model (latest definitions) %r: %s' %
              (prm, ' (inside config_scope(%r))' % ambient if ambient else '', shape(got[prm], sentinels), exp[prm], '; '.join(value_problems[:2])))
    # identity of constants
    for name, top in stats:
      ctx.count('constant_lookups')
      if not top:
        ctx.bucket('const:identity-in-container')
      if isinstance(sentinels[name], enum.Enum):
        ctx.bucket('const:enum-member-delivered')
      elif type(sentinels[name]) in (list, dict, set):
        ctx.bucket('const:container-valued-delivered')
    if stats:
      ctx.check(not ident_problems, 'constant-not-identical', 'parameter %s: %s' % (prm, '; '.join(ident_problems[:2])))
  pc = sorted((_S['by_pid'][r.pid], r.scope) for r in recs if r.pid in _S['by_pid'])
  if ambient:
    # how the caller's active scope combines with a reference's own scope is not this property's business: compare the runs only
    pc, calls = [(n, None) for n, _ in pc], [(n, None) for n, _ in calls]
  ctx.check(pc == sorted(calls), 'provider-runs-per-macro-use-differ', 'providers ran %r, model (one per %%macro occurrence) %r' % (pc, sorted(calls)))


LEVEL_TEXT = ('Runtime monitor with a macro-table / constant-suffix reference model over generated multi-step parse histories (strings, files, includes) '
              'with consumer calls between steps: received values, provider run counts and scopes, constant identity, parse-time rejections and '
              'finalize() outcomes are compared with the model after every step.')
LEVEL_NOTE = ('Trusted: the macro-table model and the 4-line suffix model. Defining a constant whose name is a suffix of an existing one is unspecified '
              'and avoided (DESIGN X); whether %q is a constant is decided at parse time, so constants are defined before parsing.')
TECHNIQUE = 'runtime reference-model monitor over generated parse/call histories with sentinel-identity checks'
DESIGN_REF = 'DESIGN.md section 4, C05'
