"""C05 — macros and constants are late-bound named values."""
import itertools
import os
import shutil
import tempfile

from vf import models, probes
from vf.checks import c04
from vf.teq import canon

ID = 'C05'
LEVEL = 'exploration'
RULE = ('histories of 1-4 parse steps (strings, files, files including files) holding macro definitions, redefinitions and uses in every order '
        '(use before definition, redefinition in a later step/file), scope-like macro names, macros bound to literals / evaluated references / other '
        'macros, consumer calls interleaved between steps; constant tables over dotted names sharing suffixes (3-letter alphabet, depth<=4) with unique '
        'sentinel objects; oracle = macro-table model (last definition in application order wins, evaluated at call time, one provider run per %m '
        'occurrence per call) + suffix model for %q (unique -> the very object, ambiguous -> ValueError at parse and nothing bound, none -> macro) + '
        'gin.constant rejections leave the table unchanged + finalize() rejects unbound / unevaluated macros. '
        'distinct = (step kinds, definition/use order pattern, macro value kinds, constant-name suffix structure)')
TIERS = {
    'quick': {'workers': 8, 'cases': 2000, 'timeout': 600},
    'thorough': {'workers': 16, 'cases': 15000, 'timeout': 3000},
}
REQUIRED_BUCKETS = ['order:use-before-definition', 'order:definition-before-use', 'order:redefinition-later-step', 'order:redefinition-same-step',
                    'step:string', 'step:file', 'step:include', 'macro:scope-like-name', 'macro:evaluated-reference', 'macro:nested-macro', 'macro:literal',
                    'call:between-steps', 'call:unbound-macro-raises', 'const:unique-suffix', 'const:full-name', 'const:ambiguous', 'const:none-falls-to-macro',
                    'const:identity-in-container', 'const:invalid-name', 'const:duplicate', 'finalize:ok', 'finalize:unbound', 'finalize:unevaluated',
                    'macro:used-twice-in-one-value', 'const:defined-between-parses', 'const:name-became-constant-after-use-as-macro', 'finalize:unbound-with-bound-prefix-macro', 'finalize:after-failed-query-of-unbound-macro', 'finalize:unbound-macro-in-dict-key', 'step:skip_unknown-enabled',
                    'history:clear_config-keeps-constants']
ORACLE_COUNTERS = ['oracle_evals', 'consumer_calls', 'constant_lookups', 'finalize_checks']
_S = {}
MACROS = ['m0', 'm1', 'a/m2', 'a/b/m3', 'M0', 'a', 'a/b', 'LATEK', 'a/A', 'x/y/B']   # the last two end in a component that may name a constant: still macros


class Sentinel:
  def __init__(self, name):
    self.name = name

  def __repr__(self):
    return '<Sentinel %s>' % self.name


def setup(ctx):
  c04.setup(ctx)
  _S['provs'] = c04._S['provs']
  _S['by_pid'] = c04._S['by_pid']
  _S['cons'] = probes.build({'shape': 'fn', 'api': 'configurable', 'name': 'c5cons', 'module': 'c5', 'pos': [], 'dflt': [['p', None], ['q', None]],
                             'varargs': False, 'kwonly': [], 'varkw': False})
  _S['tmp'] = tempfile.mkdtemp(prefix='vf-c5-')
  _S['fileno'] = itertools.count()


def finish(ctx):
  shutil.rmtree(_S['tmp'], ignore_errors=True)


# macro value: ['lit', v] | ['prov', name, scoped] | ['macro', other]
# consumer tree: nested lists of ['use', macro] | ['lit', v] | ['const', spelling] | ['list', [...]] | ['dict', [...]]
def gen_tree(rng, depth, macro_pool, const_spellings):
  r = rng.random()
  if depth <= 0 or r < 0.5:
    k = rng.random()
    if k < 0.6:
      return ['use', rng.choice(macro_pool)]
    if k < 0.8 and const_spellings:
      return ['const', rng.choice(const_spellings)]
    return ['lit', rng.choice([1, 'x', None, [1]])]
  n = rng.choice([1, 2, 3])
  if r < 0.85:
    return ['list', [gen_tree(rng, depth - 1, macro_pool, const_spellings) for _ in range(n)]]
  return ['dict', [['k%d' % i, gen_tree(rng, depth - 1, macro_pool, const_spellings)] for i in range(n)]]


def tree_text(t):
  k = t[0]
  if k == 'use':
    return '%' + t[1]
  if k == 'const':
    return '%' + t[1]
  if k == 'lit':
    return repr(t[1])
  if k == 'list':
    return '[' + ', '.join(tree_text(x) for x in t[1]) + ']'
  return '{' + ', '.join('%r: %s' % (a, tree_text(b)) for a, b in t[1]) + '}'


def mval_text(v):
  if v[0] == 'lit':
    return repr(v[1])
  if v[0] == 'prov':
    return '@' + ('ps/' if v[2] else '') + v[1] + '()'
  return '%' + v[1]


def uses(t, out):
  if t[0] == 'use':
    out.append(t[1])
  elif t[0] == 'list':
    for x in t[1]:
      uses(x, out)
  elif t[0] == 'dict':
    for _, x in t[1]:
      uses(x, out)
  return out


def gen_constants(rng):
  alpha = ['A', 'B', 'C']
  names = set()
  for _ in range(rng.choice([0, 1, 2, 3, 5])):
    d = rng.choice([1, 2, 3, 4])
    names.add('.'.join(rng.choice(['x', 'y', 'z']) for _ in range(d - 1)) + ('.' if d > 1 else '') + rng.choice(alpha))
  if names and rng.random() < 0.6:
    n = rng.choice(sorted(names))
    names.add('w.' + n)
  # define shorter names first: a new name must not be a dotted suffix of an existing one (unspecified, DESIGN X)
  return sorted(names, key=lambda s: (s.count('.'), s))


def iter_cases(ctx, rng, n):
  for i in range(n):
    consts = gen_constants(rng)
    spell = set()
    for c in consts:
      parts = c.split('.')
      for j in range(len(parts)):
        spell.add('.'.join(parts[j:]))
    spell = sorted(spell)
    pool = rng.sample(MACROS, rng.choice([1, 2, 3]))
    steps = []
    for _ in range(rng.choice([1, 2, 3, 4])):
      stmts = []
      for _ in range(rng.choice([1, 2, 3, 4])):
        k = rng.random()
        if k < 0.5:
          m = rng.choice(pool)
          vk = rng.random()
          if vk < 0.45:
            v = ['lit', rng.choice([1, 'two', [3, [4]], {'k': 5}, None])]
          elif vk < 0.8:
            v = ['prov', 'prov%d' % rng.randrange(2), rng.random() < 0.3]
          else:
            others = [x for x in pool if x != m]
            v = ['macro', rng.choice(others)] if others else ['lit', 0]
          stmts.append(['def', m, v])
        else:
          stmts.append(['bind', rng.choice(['p', 'q']), gen_tree(rng, rng.choice([0, 1, 2]), pool, spell)])
      kind = rng.choice(['string', 'string', 'file', 'include'])
      steps.append({'kind': kind, 'stmts': stmts, 'split': rng.randrange(0, len(stmts) + 1), 'call': rng.random() < 0.7,
                    'skip_unknown': rng.choice([False, False, True, ['some_unknown_name']]), 'clear_before': rng.random() < 0.12})
    late = []
    for si in range(1, len(steps)):
      if rng.random() < 0.5:
        cands = ['q.LATEK'] + ['w2.' + c for c in consts]
        late.append([si, rng.choice(cands)])
    yield {'consts': consts, 'late_consts': late, 'steps': steps, 'finalize': rng.random() < 0.6, 'unevaluated': rng.random() < 0.15,
           'bad_const': rng.choice([None, 'invalid', 'duplicate']), 'ambiguous_probe': rng.random() < 0.5, 'query_unbound_first': rng.random() < 0.5,
           'keymacro': rng.choice([None, None, None, None, None, '{%c5_never_bound: 1}', '{(1, %c5_never_bound): [2]}', "{'k': {%c5_never_bound: 0}}", '{@c5_never_bound/gin.macro: 1}'])}


def freeze(t, consts):
  """What a value tree means at the moment it is parsed: whether %name is a constant is decided then (macros stay late-bound)."""
  k = t[0]
  if k in ('const', 'use'):
    r = models.resolve_suffix(consts, t[1])
    if len(r) == 1:
      return ['constr', r[0]]
    return ['use', t[1]]
  if k == 'list':
    return ['list', [freeze(x, consts) for x in t[1]]]
  if k == 'dict':
    return ['dict', [[a, freeze(b, consts)] for a, b in t[1]]]
  return t


def has_cycle(table):
  for start in table:
    seen, cur = set(), start
    while cur in table and table[cur][0] == 'macro':
      if cur in seen:
        return True
      seen.add(cur)
      cur = table[cur][1]
  return False


def model_value(t, table, consts, sentinels, calls, depth=0):
  """Expected shape of what the consumer receives for tree t; ('UNBOUND',) marks a use of an unbound macro."""
  k = t[0]
  if k == 'lit':
    return c04.lit_shape(t[1])
  if k == 'use':
    return model_macro(t[1], table, calls, depth)
  if k == 'constr':
    return ('const', t[1])
  if k == 'const':
    r = models.resolve_suffix(consts, t[1])
    return ('const', r[0])
  if k == 'list':
    return ('list', tuple(model_value(x, table, consts, sentinels, calls, depth) for x in t[1]))
  return ('dict', tuple((c04.lit_shape(a), model_value(b, table, consts, sentinels, calls, depth)) for a, b in t[1]))


class Grey(Exception):
  pass


def model_macro(m, table, calls, depth):
  if m not in table and any(m.startswith(t + '/') for t in table):
    # the macro's name is the scope of gin.macro: an unbound `a/b` evaluated while `a` is bound inherits a's value through scope
    # layering. The statement says nothing about it (only finalize must reject the unbound name) -> not constrained.
    raise Grey(m)
  if m not in table or depth > 8:
    raise KeyError(m)
  v = table[m]
  if v[0] == 'constr':
    return ('const', v[1])
  if v[0] == 'lit':
    return c04.lit_shape(v[1])
  if v[0] == 'prov':
    scope = ('ps',) if v[2] else tuple(m.split('/'))
    calls.append((v[1], scope))
    return ('prov', v[1])
  return model_macro(v[1], table, calls, depth + 1)


def shape(v, sentinels):
  if isinstance(v, Sentinel):
    return ('const', v.name)
  if isinstance(v, list) and len(v) == 3 and v[0] == 'ret' and v[1] in _S['by_pid']:
    return ('prov', _S['by_pid'][v[1]])
  if type(v) in (list, tuple):
    return (type(v).__name__, tuple(shape(x, sentinels) for x in v))
  if type(v) is dict:
    return ('dict', tuple((shape(a, sentinels), shape(b, sentinels)) for a, b in v.items()))
  return ('lit', canon(v))


def run_case(ctx, case):
  import gin
  from gin import config as gc
  gin.clear_config(clear_constants=True)
  cons = _S['cons']
  # ---- constants
  sentinels = {}
  for c in case['consts']:
    sentinels[c] = Sentinel(c)
    gin.constant(c, sentinels[c])
  consts = set(case['consts'])
  def table_snapshot():
    return {n: gin.query_parameter(n) for n in consts}
  if case['bad_const']:
    before = table_snapshot()
    nconst = len(gc._CONSTANTS)
    if case['bad_const'] == 'invalid':
      ctx.bucket('const:invalid-name')
      bads = ['a..B', '1x.B', 'a b', '', 'a.', '.a', 'a/b', 'a-b', 'A\n', 'x.A\n', '\nA', 'A\r']
    else:
      ctx.bucket('const:duplicate')
      bads = list(case['consts'][:2]) or ['gin.REQUIRED']
    for b in bads:
      try:
        gin.constant(b, 'intruder')
        ctx.check(False, 'bad-constant-accepted', 'gin.constant(%r) accepted' % b)
      except ValueError:
        ctx.count('oracle_evals')
      ctx.check(len(gc._CONSTANTS) == nconst and all(table_snapshot()[n] is before[n] for n in before), 'rejected-constant-changed-table',
                'rejected gin.constant(%r) changed the constant table' % b)

  table = {}            # macro table model
  store = {}            # consumer param -> tree
  stepkinds = []
  pattern = []
  defined_in_step = {}
  used_before_def = set()
  for si, step in enumerate(case['steps']):
    if step.get('clear_before') and si:
      # clear_config() keeps the constants (the very same objects); macros and bindings are gone
      gin.clear_config()
      table.clear()
      store.clear()
      defined_in_step.clear()
      ctx.bucket('history:clear_config-keeps-constants')
    for at, name in case.get('late_consts', []):
      if at == si and name not in consts and not any(c.endswith('.' + name) for c in consts):
        sentinels[name] = Sentinel(name)
        gin.constant(name, sentinels[name])
        consts.add(name)
        ctx.bucket('const:defined-between-parses')
    # ---- render the step
    lines = []
    for st in step['stmts']:
      if st[0] == 'def':
        lines.append('%s = %s' % (st[1], mval_text(st[2])))
      else:
        lines.append('c5cons.%s = %s' % (st[1], tree_text(st[2])))
    # would the step be rejected? (ambiguous constant spelling) -> it raises at that statement; the prefix is applied (C16's domain);
    # here the generator only uses resolvable or unknown spellings, ambiguity is probed separately below
    amb = [t for st in step['stmts'] if st[0] == 'bind' for t in const_spellings_in(st[2]) if len(models.resolve_suffix(consts, t)) > 1]
    if amb:
      ctx.bucket('const:ambiguous')
      snap_before = {k: dict(v) for k, v in gc._CONFIG.items()}
      try:
        gin.parse_config('c5cons.q = %' + amb[0])
        ctx.check(False, 'ambiguous-constant-accepted', 'ambiguous constant spelling %%%s accepted (constants %r)' % (amb[0], sorted(consts)))
      except ValueError:
        ctx.count('oracle_evals')
      ctx.check({k: dict(v) for k, v in gc._CONFIG.items()} == snap_before, 'ambiguous-constant-bound-something', 'rejected ambiguous %%%s changed the store' % amb[0])
      # rewrite ambiguous spellings to the full name so the step itself is valid
      for st in step['stmts']:
        if st[0] == 'bind':
          fix_ambiguous(st[2], consts)
      lines = [('%s = %s' % (st[1], mval_text(st[2]))) if st[0] == 'def' else ('c5cons.%s = %s' % (st[1], tree_text(st[2]))) for st in step['stmts']]
    ctx.bucket('step:' + step['kind'])
    stepkinds.append(step['kind'])
    sk = step.get('skip_unknown', False)
    if sk:
      ctx.bucket('step:skip_unknown-enabled')   # nothing here is unknown: macro definitions are never skippable
    if step['kind'] == 'string':
      gin.parse_config('\n'.join(lines) + '\n', skip_unknown=sk)
    else:
      fn = os.path.join(_S['tmp'], 'f%d.gin' % next(_S['fileno']))
      if step['kind'] == 'include':
        inc = os.path.join(_S['tmp'], 'i%d.gin' % next(_S['fileno']))
        k = step['split']
        open(inc, 'w').write('\n'.join(lines[:k]) + '\n')
        open(fn, 'w').write("include '%s'\n" % inc + '\n'.join(lines[k:]) + '\n')
      else:
        open(fn, 'w').write('\n'.join(lines) + '\n')
      gin.parse_config_file(fn, skip_unknown=sk)
    # ---- model: statements in application order
    for st in step['stmts']:
      if st[0] == 'def':
        if st[1] in table:
          ctx.bucket('order:redefinition-later-step' if defined_in_step.get(st[1]) != si else 'order:redefinition-same-step')
        mv = st[2]
        if mv[0] == 'macro' and len(models.resolve_suffix(consts, mv[1])) == 1:
          mv = ['constr', models.resolve_suffix(consts, mv[1])[0]]   # `m = %NAME` where NAME is (by now) a constant
        table[st[1]] = mv
        defined_in_step[st[1]] = si
        pattern.append('D')
        if '/' in st[1]:
          ctx.bucket('macro:scope-like-name')
        ctx.bucket({'lit': 'macro:literal', 'prov': 'macro:evaluated-reference', 'macro': 'macro:nested-macro', 'constr': 'macro:literal'}[mv[0]])
      else:
        store[st[1]] = freeze(st[2], consts)
        us = uses(store[st[1]], [])
        if uses(st[2], []) != us:
          ctx.bucket('const:name-became-constant-after-use-as-macro')
        for u in us:
          if u not in table:
            used_before_def.add(u)
            ctx.bucket('order:use-before-definition')
          else:
            ctx.bucket('order:definition-before-use')
        if len(us) != len(set(us)):
          ctx.bucket('macro:used-twice-in-one-value')
        pattern.append('U')
        for spelling in const_spellings_in(st[2]):
          r = models.resolve_suffix(consts, spelling)
          if len(r) == 1:
            ctx.bucket('const:full-name' if r[0] == spelling else 'const:unique-suffix')
    # ---- consumer call between steps
    if step['call'] or si == len(case['steps']) - 1:
      if si < len(case['steps']) - 1:
        ctx.bucket('call:between-steps')
      do_call(ctx, gin, cons, table, store, consts, sentinels)

  # a spelling that matches no constant is a macro
  if case['ambiguous_probe']:
    gin.parse_config('c5cons.q = %NOT_A_CONSTANT\nNOT_A_CONSTANT = 77\n')
    store['q'] = ['use', 'NOT_A_CONSTANT']
    table['NOT_A_CONSTANT'] = ['lit', 77]
    ctx.bucket('const:none-falls-to-macro')
    do_call(ctx, gin, cons, table, store, consts, sentinels)

  # ---- finalize
  if case['finalize'] and not has_cycle(table):
    referenced = []
    for t in store.values():
      uses(t, referenced)
    # macros referenced from macro values that are themselves in the store
    for m, v in table.items():
      if v[0] == 'macro':
        referenced.append(v[1])
    unbound = sorted({m for m in referenced if m not in table})
    if any(any(m.startswith(t + '/') for t in table) for m in unbound):
      ctx.bucket('finalize:unbound-with-bound-prefix-macro')
    if case.get('query_unbound_first') and unbound:
      # asking for a macro that was never bound (the usual "is it set?" probe) fails and must not make it count as bound
      ctx.bucket('finalize:after-failed-query-of-unbound-macro')
      for m in unbound:
        try:
          gin.query_parameter('%' + m)
          if not any(m.startswith(t + '/') for t in table):
            ctx.check(False, 'query-of-unbound-macro-answered', 'query_parameter(%%%s) answered although the macro was never bound' % m)
        except ValueError:
          ctx.count('oracle_evals')
    if case.get('keymacro') and not case['unevaluated']:
      # a macro nobody binds, used as (part of) a dict key: still a referenced-but-unbound macro
      gin.parse_config('c5cons.q = ' + case['keymacro'])
      ctx.bucket('finalize:unbound-macro-in-dict-key')
      unbound = unbound + ['c5_never_bound']
      expect_fail = True
    elif case['unevaluated']:
      gin.parse_config('c5cons.q = @m0/gin.macro')
      ctx.bucket('finalize:unevaluated')
      expect_fail = True
    else:
      expect_fail = bool(unbound)
      ctx.bucket('finalize:unbound' if unbound else 'finalize:ok')
    ctx.count('finalize_checks')
    try:
      gin.finalize()
      ok = True
    except ValueError:
      ok = False
    ctx.check(ok != expect_fail, 'finalize-macro-validation', 'finalize() %s; referenced-unbound macros per model: %r; unevaluated reference: %s' %
              ('succeeded' if ok else 'raised', unbound, case['unevaluated']))
    if not ok:
      ctx.check(not gin.config_is_locked(), 'rejected-finalize-locked', 'finalize rejected the macros but left the config locked')
  ctx.fp(tuple(stepkinds), ''.join(pattern), tuple(sorted({v[0] for v in table.values()})),
         tuple(sorted(len(c.split('.')) for c in case['consts'])), case['finalize'], case['bad_const'])
  ctx.sample({'constants': case['consts'], 'steps': [{'kind': s['kind'], 'stmts': s['stmts']} for s in case['steps']][:3]}, cap=3)
  gin.clear_config(clear_constants=True)


def const_spellings_in(t, out=None):
  out = [] if out is None else out
  if t[0] == 'const':
    out.append(t[1])
  elif t[0] == 'list':
    for x in t[1]:
      const_spellings_in(x, out)
  elif t[0] == 'dict':
    for _, x in t[1]:
      const_spellings_in(x, out)
  return out


def fix_ambiguous(t, consts):
  if t[0] == 'const':
    r = models.resolve_suffix(consts, t[1])
    if len(r) > 1:
      t[1] = r[0] if r[0] in consts and models.resolve_suffix(consts, r[0]) == [r[0]] else sorted(r, key=len)[-1]
  elif t[0] == 'list':
    for x in t[1]:
      fix_ambiguous(x, consts)
  elif t[0] == 'dict':
    for _, x in t[1]:
      fix_ambiguous(x, consts)


def do_call(ctx, gin, cons, table, store, consts, sentinels):
  if has_cycle(table):
    return
  exp, calls, unbound = {}, [], False
  for prm, t in store.items():
    try:
      exp[prm] = model_value(t, table, consts, sentinels, calls)
    except KeyError:
      unbound = True
    except Grey:
      ctx.count('grey_unbound_macro_with_bound_prefix')
      try:
        cons.conf()
      except Exception:  # pylint: disable=broad-except
        pass
      return
  mark = probes.RECORDER.mark()
  exc = None
  try:
    cons.conf()
  except Exception as e:  # pylint: disable=broad-except
    exc = e
  ctx.count('consumer_calls')
  recs = probes.RECORDER.since(mark)
  if unbound:
    ctx.bucket('call:unbound-macro-raises')
    ctx.check(exc is not None, 'unbound-macro-use-did-not-fail', 'a macro that is not (yet) bound was used and the call succeeded: %r' %
              ([r.received for r in recs if r.pid == cons.pid],))
    return
  if not ctx.check(exc is None, 'unexpected-exception', 'consumer call raised %s: %s' % (type(exc).__name__, str(exc)[:300])):
    return
  got = [r for r in recs if r.pid == cons.pid][0].received
  for prm in exp:
    g = shape(got[prm], sentinels)
    ctx.check(g == exp[prm], 'macro-value-differs-from-table', 'parameter %s received %r, model (latest definitions) %r' % (prm, g, exp[prm]))
    # identity of constants
    flat = []
    flatten(got[prm], flat)
    for o in flat:
      if isinstance(o, Sentinel):
        ctx.count('constant_lookups')
        if o is not got[prm]:
          ctx.bucket('const:identity-in-container')
        ctx.check(sentinels.get(o.name) is o, 'constant-not-identical', 'constant %s delivered as a different object' % o.name)
  pc = sorted((_S['by_pid'][r.pid], r.scope) for r in recs if r.pid in _S['by_pid'])
  ctx.check(pc == sorted(calls), 'provider-runs-per-macro-use-differ', 'providers ran %r, model (one per %%macro occurrence) %r' % (pc, sorted(calls)))


def flatten(v, out):
  if type(v) in (list, tuple):
    for x in v:
      flatten(x, out)
  elif type(v) is dict:
    for x in v.values():
      flatten(x, out)
  else:
    out.append(v)


LEVEL_TEXT = ('Runtime monitor with a macro-table / constant-suffix reference model over generated multi-step parse histories (strings, files, includes) '
              'with consumer calls between steps: received values, provider run counts and scopes, constant identity, parse-time rejections and '
              'finalize() outcomes are compared with the model after every step.')
LEVEL_NOTE = ('Trusted: the macro-table model and the 4-line suffix model. Defining a constant whose name is a suffix of an existing one is unspecified '
              'and avoided (DESIGN X); whether %q is a constant is decided at parse time, so constants are defined before parsing.')
TECHNIQUE = 'runtime reference-model monitor over generated parse/call histories with sentinel-identity checks'
DESIGN_REF = 'DESIGN.md section 4, C05'
