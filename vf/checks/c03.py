"""C03 — statements are recovered exactly, whatever the layout of the config text."""
from vf import gen, probes, snap
from vf.teq import canon

ID = 'C03'
LEVEL = 'exploration'
RULE = ('abstract statement lists (bindings with literal / @reference / %macro values, macro definitions incl. scope-like names, imports in all four '
        'forms, includes) and 2-5 renderings each produced by a layout randomiser (blank lines, full-line and trailing comments, comment after a block '
        'header, blank/comment lines inside blocks, backslash continuations before/after "=", spaces/tabs around "=", flat vs block form for runs '
        'sharing (scope, selector), block at EOF with/without final newline, block followed directly by a flat binding or another block, consistent '
        'indentation of flat runs, multi-line bracketed values). Oracles: (a) the statement stream of the real ConfigParser (recording delegate) equals the '
        'generator\'s abstract list incl. start line numbers; (b) parse_config of every rendering gives the same store, import set and config_str(). '
        'Negative: scoped names with inner whitespace, empty components or misplaced separators raise SyntaxError and bind nothing. '
        'distinct = (statement-kind sequence, layout feature set)')
TIERS = {
    'quick': {'workers': 8, 'cases': 1000, 'timeout': 600},
    'thorough': {'workers': 16, 'cases': 15000, 'timeout': 3000},
}
LAYOUTS = ['blank-lines', 'comment-line', 'trailing-comment', 'comment-with-raw-control-char', 'block', 'block-header-comment', 'block-inner-blank', 'block-inner-comment', 'block-at-eof-no-newline',
           'block-then-flat', 'block-then-block', 'cont-before-eq', 'cont-after-eq', 'no-space-eq', 'tab-eq', 'indented-flat-run', 'multiline-value',
           'no-final-newline', 'block-member-continuation', 'dedent-two-levels']
REQUIRED_BUCKETS = (['layout:' + l for l in LAYOUTS] + ['stmt:bind', 'stmt:macro', 'stmt:scoped-macro', 'stmt:import', 'stmt:import-as', 'stmt:from', 'stmt:from-as',
                    'stmt:include', 'value:reference', 'value:macro', 'neg:inner-whitespace', 'neg:empty-component', 'neg:misplaced-separator', 'neg:in-reference',
                    'neg:in-block-header', 'neg:in-import', 'neg:continuation-inside-name', 'neg:spelling-valid-elsewhere-first', 'renderings:3+', 'stmt:keyword-named'])
ORACLE_COUNTERS = ['oracle_evals', 'streams_compared', 'renderings_parsed', 'negatives_rejected']

NEGATIVES = [
    ('neg:inner-whitespace', 'a /c3f.x = 1'), ('neg:inner-whitespace', 'a/ c3f.x = 1'), ('neg:inner-whitespace', 'c3f. x = 1'), ('neg:inner-whitespace', 'c3f .x = 1'),
    ('neg:inner-whitespace', 'a/b /c3f.x = 1'), ('neg:inner-whitespace', 'c3.m .c3f.x = 1'), ('neg:inner-whitespace', 'a\t/c3f.x = 1'),
    ('neg:empty-component', 'a//c3f.x = 1'), ('neg:empty-component', '/c3f.x = 1'), ('neg:empty-component', 'c3f..x = 1'), ('neg:empty-component', 'c3f.x. = 1'),
    ('neg:empty-component', 'a/b//c3f.x = 1'), ('neg:empty-component', '.c3f.x = 1'),
    ('neg:misplaced-separator', 'a./c3f.x = 1'), ('neg:misplaced-separator', 'a.b/c3f.x = 1'), ('neg:misplaced-separator', 'c3f.x/ = 1'), ('neg:misplaced-separator', 'a/.c3f.x = 1'),
    ('neg:misplaced-separator', 'c3f/x.y/z = 1'),
    ('neg:in-reference', 'c3f.x = @a /c3g'), ('neg:in-reference', 'c3f.x = @a/ c3g()'), ('neg:in-reference', 'c3f.x = %a/ m'), ('neg:in-reference', 'c3f.x = %a /m'),
    ('neg:in-reference', 'c3f.x = @a//c3g'), ('neg:in-reference', 'c3f.x = @/c3g'), ('neg:in-reference', 'c3f.x = @c3g/'), ('neg:in-reference', 'c3f.x = @c3. c3g'),
    ('neg:in-reference', 'c3f.x = [1, @a /c3g()]'), ('neg:in-reference', 'c3f.x = %m..n'), ('neg:in-reference', 'c3f.x = @c3g.'),
    ('neg:continuation-inside-name', 'outer/\\\n      c3f.x = 1'), ('neg:continuation-inside-name', 'c3f.\\\n    x = 1'), ('neg:continuation-inside-name', 'a/b\\\n   /c3f.x = 1'),
    ('neg:continuation-inside-name', 'c3f.x = @a/\\\n           c3g()'), ('neg:continuation-inside-name', 'c3f.x = %a/\\\n           m'),
    ('neg:continuation-inside-name', 'c3\\\n  .m.c3f.x = 1'),
    # the same spelling is fine where dotted scopes / scopes are allowed (references, macros uses) and malformed as a statement key / import
    ('neg:spelling-valid-elsewhere-first', 'c3f.x = %x.y/mm\nx.y/mm = 3'), ('neg:spelling-valid-elsewhere-first', 'c3f.x = @x.y/c3g\nx.y/c3g:\n  x = 1\n'),
    ('neg:spelling-valid-elsewhere-first', 'a/b = 1\nimport a/b'), ('neg:spelling-valid-elsewhere-first', 'c3f.y = @x.y/c3g()\nx.y/c3g.x = 2'),
    ('neg:spelling-valid-elsewhere-first', 'c3f.y = [%p.q/m, 1]\nc3f.x = 2\np.q/m = 5'), ('neg:spelling-valid-elsewhere-first', 'a/c3mac = 2\nfrom a/c3mac import x'),
    ('neg:in-block-header', 'a /c3f:\n  x = 1\n'), ('neg:in-block-header', 'a//c3f:\n  x = 1\n'), ('neg:in-block-header', 'c3. m.c3f:\n  x = 1\n'),
    ('neg:in-block-header', 'a/c3f.:\n  x = 1\n'), ('neg:in-block-header', '/c3f:\n  x = 1\n'),
    # the four import forms take a dotted module, a single imported name and a single alias
    ('neg:in-import', 'from os import path.sep'), ('neg:in-import', 'from os import path.sep as d'), ('neg:in-import', 'import os as a.b'), ('neg:in-import', 'import os.'),
    ('neg:in-import', 'import .os'), ('neg:in-import', 'from os. import path'), ('neg:in-import', 'import os. path'), ('neg:in-import', 'import os /path'),
    ('neg:in-import', 'import os..path'), ('neg:in-import', 'from os import path as a/b'), ('neg:in-import', 'from os/x import path'), ('neg:in-import', 'import os as a b'),
    ('neg:in-import', 'from os import path sep'), ('neg:in-import', 'from xml import etree.ElementTree  # comment'),
]


def setup(ctx):
  for name in ('c3f', 'c3g', 'c3h', 'include'):
    probes.build({'shape': 'fn', 'api': 'external', 'name': name, 'module': 'c3.m', 'pos': [], 'dflt': [['x', 0], ['y', 0], ['zz', 0], ['w_1', 0]],
                  'varargs': False, 'kwonly': [], 'varkw': False})


def gen_stmt(rng):
  r = rng.random()
  if r < 0.62:
    k = rng.random()
    if k < 0.6:
      v = ['lit', gen.gen_value(rng, depth=rng.choice([0, 0, 1, 2, 3]))]
    elif k < 0.85:
      v = ['ref', rng.choice(['c3g', 'a/c3g', 'a/b/c3h', 'c3.m.c3g', 'x.y/c3g', 'm.c3h']), rng.random() < 0.6]
    else:
      v = ['macro', rng.choice(['c3mac', 'a/c3mac', 'a.b/mm', 'gin.REQUIRED_not'])]
    return ['bind', rng.choice(['', '', 'a', 'a/b', 'train', 'x/y/z', 'import', 'from/include']), rng.choice(['c3f', 'c3g', 'c3.m.c3f', 'm.c3h', 'include']),
            rng.choice(['x', 'y', 'zz', 'w_1']), v]
  if r < 0.74:
    v = ['lit', gen.gen_value(rng, depth=rng.choice([0, 1, 2]))] if rng.random() < 0.8 else ['ref', 'c3g', True]
    return ['macro', rng.choice(['c3mac', 'c3mac2', 'a/c3mac', 'a/b/mm', 'UPPER', 'from', 'import', 'include', 'a/include']), v]
  if r < 0.94:
    form = rng.choice(['import', 'import-as', 'from', 'from-as'])
    mod = rng.choice(['os', 'os.path', 'json', 'collections.abc', 'json.decoder', 'string'])
    if form in ('from', 'from-as') and '.' not in mod:
      mod = {'os': 'os.path', 'json': 'json.decoder', 'string': 'collections.abc'}[mod]
    alias = None
    if form.endswith('as'):
      # aliases equal to a component of the module path are still aliases (`import os.path as os` binds the submodule)
      alias = rng.choice(['al', 'x1', '_p', mod.split('.')[0], mod.split('.')[-1]])
    return ['import', form, mod, alias]
  return ['include', rng.choice(['a.gin', 'dir/b.gin', 'pkg.sub/c.gin', "it's.gin"])]


def iter_cases(ctx, rng, n):
  for i in range(n):
    if i % 10 == 9:
      yield {'kind': 'neg', 'which': rng.randrange(len(NEGATIVES)), 'prefix': rng.random() < 0.5}
      continue
    stmts = [gen_stmt(rng) for _ in range(rng.choice([1, 2, 3, 5, 8, 12]))]
    # make flat/block grouping possible: sometimes repeat the previous binding's (scope, selector)
    for j in range(1, len(stmts)):
      if stmts[j][0] == 'bind' and stmts[j - 1][0] == 'bind' and rng.random() < 0.5:
        stmts[j][1], stmts[j][2] = stmts[j - 1][1], stmts[j - 1][2]
    yield {'kind': 'pos', 'stmts': stmts, 'seeds': [rng.randrange(1 << 30) for _ in range(rng.choice([2, 2, 3, 4, 5]))]}


def value_text(rng, v, used, wild):
  if v[0] == 'lit':
    text, u = gen.render_value(rng, v[1], wild=wild, multiline=True)
    if '\n' in text:
      used.add('multiline-value')
    return text
  if v[0] == 'ref':
    return '@' + v[1] + ('()' if v[2] else '')
  return '%' + v[1]


def abstract(stmt):
  k = stmt[0]
  if k == 'bind':
    return ('bind', stmt[1], stmt[2], stmt[3], value_canon(stmt[4]))
  if k == 'macro':
    sc, _, nm = stmt[1].rpartition('/')
    return ('bind', sc, nm, '', value_canon(stmt[2]))
  if k == 'import':
    return ('import', stmt[2], stmt[1].startswith('from'), stmt[3])
  return ('include', stmt[1])


def value_canon(v):
  if v[0] == 'lit':
    return canon(v[1])
  if v[0] == 'ref':
    return canon(('@ref', v[1], bool(v[2])))
  return canon(('%macro', v[1]))


def render(stmts, seed, with_includes=True):
  """Returns (text, [(abstract tuple, start line)], layout features used)."""
  import random
  rng = random.Random(seed)
  used = set()
  lines = []      # physical lines
  expect = []
  indent_stack = [0]
  i = 0
  wild = rng.choice([0.0, 0.3, 0.7])

  def eq():
    k = rng.random()
    if k < 0.5:
      return ' = '
    if k < 0.65:
      used.add('no-space-eq')
      return '='
    if k < 0.8:
      used.add('tab-eq')
      return '\t=\t'
    if k < 0.9:
      used.add('cont-before-eq')
      return ' \\\n      = '
    used.add('cont-after-eq')
    return ' = \\\n   '

  def ctl():
    # a comment may contain characters that str.splitlines() treats as line boundaries; to the parser they are ordinary characters
    if rng.random() < 0.25:
      used.add('comment-with-raw-control-char')
      return rng.choice(gen.RAW_CONTROL) + 'tail_macro = 7'
    return ''

  def filler(ind):
    for _ in range(rng.choice([0, 0, 0, 1, 2])):
      if rng.random() < 0.5:
        used.add('blank-lines')
        lines.append(rng.choice(['', '', '   ']))
      else:
        used.add('comment-line')
        lines.append(' ' * rng.choice([0, ind, 7]) + '# comment: x.y = [1, (\n'.rstrip('\n') + ctl())

  def trailing():
    if rng.random() < 0.2:
      used.add('trailing-comment')
      return '  # trailing = 3' + ctl()
    return ''

  def emit(text, ind):
    """Emit a possibly multi-line statement text at indentation ind; returns its start line (1-based)."""
    start = len(lines) + 1
    parts = text.split('\n')
    lines.append(' ' * ind + parts[0])
    lines.extend(parts[1:])
    return start

  prev_was_block = False
  while i < len(stmts):
    st = stmts[i]
    ind = indent_stack[-1]
    filler(ind)
    if st[0] == 'bind':
      # a run of bindings sharing (scope, selector) may be written as a block
      j = i
      while j < len(stmts) and stmts[j][0] == 'bind' and stmts[j][1:3] == st[1:3]:
        j += 1
      if rng.random() < 0.45:
        run = stmts[i:j] if rng.random() < 0.8 else stmts[i:i + 1]
        used.add('block')
        if prev_was_block:
          used.add('block-then-block')
        hdr = (st[1] + '/' if st[1] else '') + st[2] + ':'
        if rng.random() < 0.3:
          used.add('block-header-comment')
          hdr += '   # header comment'
        emit(hdr, ind)
        mind = ind + rng.choice([1, 2, 4, 8])
        for m in run:
          for _ in range(rng.choice([0, 0, 1])):
            if rng.random() < 0.5:
              used.add('block-inner-blank')
              lines.append('')
            else:
              used.add('block-inner-comment')
              lines.append(' ' * rng.choice([0, mind, ind]) + '# inner comment' + ctl())
          e = eq()
          if '\\' in e:
            used.add('block-member-continuation')
          start = emit(m[3] + e + value_text(rng, m[4], used, wild) + trailing(), mind)
          expect.append((abstract(m), start))
        i += len(run)
        prev_was_block = True
        # after a block: possibly dedent two levels at once
        if len(indent_stack) > 1 and rng.random() < 0.5:
          indent_stack.pop()
          used.add('dedent-two-levels')
        continue
      if prev_was_block:
        used.add('block-then-flat')
      key = (st[1] + '/' if st[1] else '') + st[2] + '.' + st[3]
      start = emit(key + eq() + value_text(rng, st[4], used, wild) + trailing(), ind)
      expect.append((abstract(st), start))
    elif st[0] == 'macro':
      start = emit(st[1] + eq() + value_text(rng, st[2], used, wild) + trailing(), ind)
      expect.append((abstract(st), start))
    elif st[0] == 'import':
      form, mod, alias = st[1], st[2], st[3]
      if form.startswith('from'):
        a, _, b = mod.rpartition('.')
        text = 'from %s import %s' % (a, b)
      else:
        text = 'import ' + mod
      if alias:
        text += ' as ' + alias
      if rng.random() < 0.3:
        text = text.replace(' ', '  ')
      start = emit(text + trailing(), ind)
      expect.append((abstract(st), start))
    else:
      q = '"' if "'" in st[1] else rng.choice(["'", '"'])
      start = emit('include ' + rng.choice(['', ' ']) + q + st[1] + q + trailing(), ind)
      expect.append((abstract(st), start))
    prev_was_block = False
    i += 1
    # indentation of the following flat run: deeper, same, or back to an enclosing level
    k = rng.random()
    if k < 0.12:
      indent_stack.append(indent_stack[-1] + rng.choice([2, 4]))
      used.add('indented-flat-run')
    elif k < 0.3 and len(indent_stack) > 1:
      indent_stack.pop()
  filler(0)
  text = '\n'.join(lines)
  if rng.random() < 0.5:
    text += '\n'
  else:
    used.add('no-final-newline')
    if prev_was_block and not lines[-1].lstrip().startswith('#') and lines[-1].strip():
      used.add('block-at-eof-no-newline')
  return text, expect, used


def parser_stream(text):
  from gin import config_parser

  class Rec(config_parser.ParserDelegate):

    def configurable_reference(self, name, evaluate):
      return ('@ref', name, bool(evaluate))

    def macro(self, name):
      return ('%macro', name)

  out = []
  for st in config_parser.ConfigParser(text, Rec()):
    if isinstance(st, config_parser.BindingStatement):
      out.append((('bind', st.scope, st.selector, st.arg_name, canon(st.value)), st.location.line_num))
    elif isinstance(st, config_parser.ImportStatement):
      out.append((('import', st.module, bool(st.is_from), st.alias), st.location.line_num))
    elif isinstance(st, config_parser.IncludeStatement):
      out.append((('include', st.filename), st.location.line_num))
    elif isinstance(st, config_parser.BlockDeclaration):
      pass
  return out


def run_case(ctx, case):
  import gin
  from gin import config as gc
  if case['kind'] == 'neg':
    bucket, text = NEGATIVES[case['which']]
    ctx.bucket(bucket)
    full = ('c3g.y = 5\n' if case['prefix'] else '') + text + '\nc3g.x = 6\n'
    gin.clear_config()
    try:
      gin.parse_config(full)
      ctx.check(False, 'malformed-name-accepted', 'text %r accepted; store %r' % (text, dict(gc._CONFIG)))
    except Exception as e:  # pylint: disable=broad-except
      # "rejected rather than silently repaired": any error will do (usually SyntaxError; '//' is one token, so `@a//g` is
      # read as reference `@a` followed by junk and may surface as the unknown-reference ValueError first)
      ctx.count('negatives_rejected')
      ctx.bucket('neg-exception:' + type(e).__name__)
      got_store = snap.store_nonempty(gc)
      if bucket == 'neg:spelling-valid-elsewhere-first':
        # everything before the malformed (last) statement is valid and applied
        gin.clear_config()
        lines = text.split('\n')
        cut = max(i for i, l in enumerate(lines) if l and not l.startswith(' '))
        gin.parse_config(('c3g.y = 5\n' if case['prefix'] else '') + '\n'.join(lines[:cut]) + '\n')
        exp = snap.store_nonempty(gc)
      else:
        exp = {('', 'c3.m.c3g'): {'y': canon(5)}} if case['prefix'] else {}
      ctx.check(got_store == exp, 'malformed-name-bound-something', 'after rejecting %r the store is %r' % (text, got_store))
    ctx.fp('neg', text)
    return

  stmts = case['stmts']
  kinds = []
  for st in stmts:
    if (st[0] == 'bind' and (st[2] == 'include' or st[1] in ('import', 'from/include'))) or (st[0] == 'macro' and st[1].split('/')[-1] in ('from', 'import', 'include')):
      ctx.bucket('stmt:keyword-named')
    if st[0] == 'bind':
      ctx.bucket('stmt:bind')
      ctx.bucket({'ref': 'value:reference', 'macro': 'value:macro'}.get(st[4][0], 'value:literal'))
    elif st[0] == 'macro':
      ctx.bucket('stmt:scoped-macro' if '/' in st[1] else 'stmt:macro')
    elif st[0] == 'import':
      ctx.bucket('stmt:' + st[1])
    else:
      ctx.bucket('stmt:include')
    kinds.append(st[0])
  if len(case['seeds']) >= 3:
    ctx.bucket('renderings:3+')
  want = [abstract(s) for s in stmts]
  results = []
  allused = set()
  for seed in case['seeds']:
    text, expect, used = render(stmts, seed)
    allused |= used
    for u in used:
      ctx.bucket('layout:' + u)
    assert [e[0] for e in expect] == want
    ctx.count('streams_compared')
    try:
      got = parser_stream(text)
    except Exception as e:  # pylint: disable=broad-except
      ctx.check(False, 'valid-layout-rejected', 'rendering raised %s: %s\n%s' % (type(e).__name__, str(e)[:300], text[:1500]), {'text': text, 'used': sorted(used)})
      continue
    if [g[0] for g in got] != want:
      ctx.check(False, 'statement-stream-differs', 'parser read %r\nexpected %r\n%s' % ([g[0] for g in got][:6], want[:6], text[:1200]), {'text': text})
      continue
    ctx.count('oracle_evals')
    ctx.check([g[1] for g in got] == [e[1] for e in expect], 'statement-line-numbers-differ',
              'line numbers %r, renderer %r\n%s' % ([g[1] for g in got], [e[1] for e in expect], text[:1200]), {'text': text})
    # (b) real parse (includes removed: they need files, covered by C14)
    noinc = [s for s in stmts if s[0] != 'include']
    text2, _, _ = render(noinc, seed)
    gin.clear_config()
    try:
      gin.parse_config(text2, skip_unknown=False)
    except Exception as e:  # pylint: disable=broad-except
      ctx.check(False, 'valid-layout-rejected-by-parse_config', 'parse_config raised %s: %s\n%s' % (type(e).__name__, str(e)[:300], text2[:1500]), {'text': text2})
      continue
    ctx.count('renderings_parsed')
    results.append((snap.store_nonempty(gc), sorted({(s.module, s.is_from, s.alias or '') for s in gc._IMPORTS}), gin.config_str(), text2))
  for r in results[1:]:
    ctx.check(r[0] == results[0][0] and r[1] == results[0][1], 'layouts-give-different-configuration',
              'two layouts of the same statements give different stores/imports: %r' % (snap.diff(r[0], results[0][0]),), {'a': results[0][3], 'b': r[3]})
    if r[2] != results[0][2]:
      from vf.checks import c06
      if c06.only_line_order_differs(r[2], results[0][2]) and any(s[0] in ('bind', 'macro') and s[-1][0] == 'lit' and c06.has_unorderable_dict(s[-1][1]) for s in stmts):
        ctx.count('config_str_differs_only_in_unorderable_dict_item_order')  # C06's known finding (pprint falls back to object ids), not a layout effect
      else:
        ctx.check(False, 'layouts-give-different-config_str', 'config_str differs between layouts', {'a': results[0][3], 'b': r[3]})
    else:
      ctx.count('oracle_evals')
  # the store must be what the abstract program says (last writer wins)
  if results:
    exp = {}
    for s in stmts:
      if s[0] == 'bind':
        sel = {'c3f': 'c3.m.c3f', 'c3g': 'c3.m.c3g', 'c3.m.c3f': 'c3.m.c3f', 'm.c3h': 'c3.m.c3h', 'include': 'c3.m.include'}[s[2]]
        exp.setdefault((s[1], sel), {})[s[3]] = store_canon(s[4])
      elif s[0] == 'macro':
        exp.setdefault((s[1], 'gin.macro'), {})['value'] = store_canon(s[2])
    ctx.check(results[0][0] == exp, 'store-differs-from-abstract-program', 'store vs abstract program: %r' % (snap.diff(results[0][0], exp),), {'text': results[0][3]})
  ctx.fp(tuple(kinds), tuple(sorted(allused)))
  ctx.sample({'statements': stmts[:4], 'one_rendering': render(stmts, case['seeds'][0])[0][:600]}, cap=3)


def store_canon(v):
  if v[0] == 'lit':
    return canon(v[1])
  if v[0] == 'ref':
    scopes, _, sel = v[1].rpartition('/')
    full = {'c3g': 'c3.m.c3g', 'c3.m.c3g': 'c3.m.c3g', 'c3h': 'c3.m.c3h', 'm.c3h': 'c3.m.c3h'}[sel]
    return ('ref', (scopes + '/' if scopes else '') + full, bool(v[2]))
  if v[1] == 'gin.REQUIRED_not':
    return ('ref', 'gin.REQUIRED_not/gin.macro', True)
  return ('ref', v[1] + '/gin.macro', True)


LEVEL_TEXT = ('Runtime metamorphic monitor: each generated abstract statement list is rendered in 2-5 randomised layouts; the real parser\'s statement '
              'stream (with line numbers) is compared with the abstract list (the generator, not a second parse, is the oracle) and the real '
              'parse_config results (store, imports, config_str) are compared across layouts; malformed scoped names must raise SyntaxError and bind nothing.')
LEVEL_NOTE = 'Trusted: the renderer in this file (it only emits layouts Python\'s tokenizer rules allow: consistent indentation stacks, no CRLF, no tabs for indentation).'
TECHNIQUE = 'runtime metamorphic monitor (layout A vs layout B vs abstract program) over a layout randomiser'
DESIGN_REF = 'DESIGN.md section 4, C03'
