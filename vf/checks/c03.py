"""C03 — statements are recovered exactly, whatever the layout of the config text."""
import io
import locale
import os
import random
import sys
import tempfile
import types
import unicodedata

from vf import gen, probes, snap
from vf.teq import canon

ID = 'C03'
LEVEL = 'exploration'
RULE = ('abstract statement lists (bindings with literal / @reference / %macro values and containers holding references and macros as items, dict values '
        'and dict keys, macro definitions incl. scope-like names, imports in all four forms, includes) and 2-5 renderings each produced by a layout '
        'randomiser (blank lines, full-line and trailing comments, comments ending in a backslash, comment after a block header, blank/comment lines '
        'inside blocks, backslash continuations before/after "=", inside imports, after include and before a block header\'s ":", spaces/tabs around "=", '
        'flat vs block form for runs sharing (scope, selector), block at EOF with/without final newline, block followed directly by a flat binding or '
        'another block, consistent indentation of flat runs incl. an indented first statement and tab indentation, multi-line bracketed values with '
        'references on later lines and after triple-quoted strings); statement-free texts (empty, whitespace-only, comment-only). Oracles: (a) the '
        'statement stream of the real ConfigParser (recording delegate) equals the generator\'s abstract list incl. start line numbers; (b) parse_config '
        'of every rendering gives the same store, import set and config_str(), the store and the recorded imports (module, from-form, alias) equal the '
        'abstract program; (c) the same text given as list/tuple of lines, StringIO, BytesIO or file gives the same result as the string. '
        'Negative: scoped names with inner whitespace (blank, tab, form feed, continuation), empty components or misplaced separators, generated from '
        'valid names and placed as flat key, macro key, block header, block member, reference/macro value, container item, dict key/value, on a later '
        'line, after a rendered valid prefix program, raise and bind nothing. Names: identifiers with non-ASCII word characters (generated; valid Python '
        'identifiers) as parameter names (flat and block member), scope components (keys, block headers, macro definitions, references), macro names, '
        'import aliases, from-imported names and module components. skip_unknown: the statements re-rendered with bindings/blocks of unregistered '
        'configurables interleaved and read with skip_unknown=True / a list, tuple or set naming them (plus macro names and unrelated names) give '
        'exactly the abstract program of the other statements (macro definitions included). '
        'distinct = (statement-kind sequence, layout feature set)')
TIERS = {
    'quick': {'workers': 8, 'cases': 1000, 'timeout': 600},
    'thorough': {'workers': 16, 'cases': 15000, 'timeout': 3000},
}
LAYOUTS = ['blank-lines', 'comment-line', 'trailing-comment', 'comment-with-raw-control-char', 'block', 'block-header-comment', 'block-inner-blank', 'block-inner-comment', 'block-at-eof-no-newline',
           'block-then-flat', 'block-then-block', 'cont-before-eq', 'cont-after-eq', 'no-space-eq', 'tab-eq', 'indented-flat-run', 'multiline-value',
           'no-final-newline', 'block-member-continuation', 'dedent-two-levels',
           # shapes added after the audit
           'indented-first-statement', 'tab-indentation', 'cont-in-import', 'cont-after-include', 'cont-before-block-colon', 'space-before-block-colon',
           'comment-ending-in-backslash', 'ref-in-container', 'ref-on-later-line', 'ref-after-triple-quoted', 'ref-as-dict-key', 'ref-as-dict-value',
           'ref-followed-by-comment-in-bracket']
ENTRY_FORMS = ['list-of-lines', 'tuple-of-lines', 'stringio', 'bytesio', 'file']
NEG_CONTEXTS = ['flat-key', 'macro-def-key', 'block-header', 'block-member', 'ref-value', 'macro-value', 'in-list', 'dict-key', 'dict-value', 'later-line',
                'after-triple-quoted']
SKIP_MODES = ['True', 'list', 'tuple', 'set']
NEG_OPS = ['inner-whitespace', 'form-feed', 'continuation', 'empty-component', 'misplaced-separator']
REQUIRED_BUCKETS = (['layout:' + l for l in LAYOUTS] + ['stmt:bind', 'stmt:macro', 'stmt:scoped-macro', 'stmt:import', 'stmt:import-as', 'stmt:from', 'stmt:from-as',
                    'stmt:include', 'value:reference', 'value:macro', 'neg:inner-whitespace', 'neg:empty-component', 'neg:misplaced-separator', 'neg:in-reference',
                    'neg:in-block-header', 'neg:in-import', 'neg:continuation-inside-name', 'neg:spelling-valid-elsewhere-first', 'renderings:3+', 'stmt:keyword-named',
                    'value:container-with-references', 'neg:in-block-member', 'neg:in-dict', 'neg:in-macro-key', 'neg:form-feed',
                    'shape:empty-text', 'shape:whitespace-only', 'shape:comment-only', 'imports:alias-recorded',
                    'name:non-ascii-param-flat', 'name:non-ascii-param-in-block', 'name:non-ascii-scope-in-key', 'name:non-ascii-scope-in-block-header',
                    'name:non-ascii-scope-in-macro-key', 'name:non-ascii-macro-name', 'name:non-ascii-in-reference', 'name:non-ascii-import-alias',
                    'name:non-ascii-from-name', 'name:non-ascii-module-component',
                    'skip-unknown:True', 'skip-unknown:list', 'skip-unknown:tuple', 'skip-unknown:set', 'skip-unknown:text-has-macro-definition',
                    'skip-unknown:macro-name-listed', 'skip-unknown:unknown-binding-flat', 'skip-unknown:unknown-binding-in-block', 'skip-unknown:nothing-unknown']
                    + ['entry:' + f for f in ENTRY_FORMS] + ['empty-entry:' + f for f in ['string'] + ENTRY_FORMS]
                    + ['neg-ctx:' + c for c in NEG_CONTEXTS] + ['neg-op:' + o for o in NEG_OPS])
ORACLE_COUNTERS = ['oracle_evals', 'streams_compared', 'renderings_parsed', 'negatives_rejected', 'entry_forms_compared', 'generated_negatives_rejected',
                   'empty_texts_parsed', 'skip_unknown_parses_compared']

# Generator features that can be switched off (none needs to be at the moment: gin behaves as the property says on all of them).
ENABLE_NESTED_REFERENCES = True
ENABLE_ENTRY_FORMS = True
ENABLE_GENERATED_NEGATIVES = True
ENABLE_EMPTY_TEXTS = True
ENABLE_NON_ASCII_NAMES = True     # identifiers with non-ASCII word characters in every role a name can play
ENABLE_SKIP_UNKNOWN = True        # one more rendering read with skip_unknown set: only bindings/blocks of unregistered configurables may go

NEGATIVES = [
    ('neg:inner-whitespace', 'a /c3f.x = 1'), ('neg:inner-whitespace', 'a/ c3f.x = 1'), ('neg:inner-whitespace', 'c3f. x = 1'), ('neg:inner-whitespace', 'c3f .x = 1'),
    ('neg:inner-whitespace', 'a/b /c3f.x = 1'), ('neg:inner-whitespace', 'c3.m .c3f.x = 1'), ('neg:inner-whitespace', 'a\t/c3f.x = 1'),
    ('neg:empty-component', 'a//c3f.x = 1'), ('neg:empty-component', '/c3f.x = 1'), ('neg:empty-component', 'c3f..x = 1'), ('neg:empty-component', 'c3f.x. = 1'),
    ('neg:empty-component', 'a/b//c3f.x = 1'), ('neg:empty-component', '.c3f.x = 1'),
    ('neg:misplaced-separator', 'a./c3f.x = 1'), ('neg:misplaced-separator', 'a.b/c3f.x = 1'), ('neg:misplaced-separator', 'c3f.x/ = 1'), ('neg:misplaced-separator', 'a/.c3f.x = 1'),
    ('neg:misplaced-separator', 'c3f/x.y/z = 1'),
    ('neg:in-reference', 'c3f.x = @a /c3g'), ('neg:in-reference', 'c3f.x = @a/ c3g()'), ('neg:in-reference', 'c3f.x = %a/ m'), ('neg:in-reference', 'c3f.x = %a /m'),
    ('neg:in-reference', 'c3f.x = @a//c3g'), ('neg:in-reference', 'c3f.x = @/c3g'), ('neg:in-reference', 'c3f.x = @c3g/'), ('neg:in-reference', 'c3f.x = @c3. c3g'),
    ('neg:in-reference', 'c3f.x = [1, @a /c3g()]'), ('neg:in-reference', 'c3f.x = %m..n'), ('neg:in-reference', 'c3f.x = @c3g.'),
    ('neg:continuation-inside-name', 'outer/\\\n      c3f.x = 1'), ('neg:continuation-inside-name', 'c3f.\\\n    x = 1'), ('neg:continuation-inside-name', 'a/b\\\n   /c3f.x = 1'),
    ('neg:continuation-inside-name', 'c3f.x = @a/\\\n           c3g()'), ('neg:continuation-inside-name', 'c3f.x = %a/\\\n           m'),
    ('neg:continuation-inside-name', 'c3\\\n  .m.c3f.x = 1'),
    # the same spelling is fine where dotted scopes / scopes are allowed (references, macros uses) and malformed as a statement key / import
    ('neg:spelling-valid-elsewhere-first', 'c3f.x = %x.y/mm\nx.y/mm = 3'), ('neg:spelling-valid-elsewhere-first', 'c3f.x = @x.y/c3g\nx.y/c3g:\n  x = 1\n'),
    ('neg:spelling-valid-elsewhere-first', 'a/b = 1\nimport a/b'), ('neg:spelling-valid-elsewhere-first', 'c3f.y = @x.y/c3g()\nx.y/c3g.x = 2'),
    ('neg:spelling-valid-elsewhere-first', 'c3f.y = [%p.q/m, 1]\nc3f.x = 2\np.q/m = 5'), ('neg:spelling-valid-elsewhere-first', 'a/c3mac = 2\nfrom a/c3mac import x'),
    ('neg:in-block-header', 'a /c3f:\n  x = 1\n'), ('neg:in-block-header', 'a//c3f:\n  x = 1\n'), ('neg:in-block-header', 'c3. m.c3f:\n  x = 1\n'),
    ('neg:in-block-header', 'a/c3f.:\n  x = 1\n'), ('neg:in-block-header', '/c3f:\n  x = 1\n'),
    # the four import forms take a dotted module, a single imported name and a single alias
    ('neg:in-import', 'from os import path.sep'), ('neg:in-import', 'from os import path.sep as d'), ('neg:in-import', 'import os as a.b'), ('neg:in-import', 'import os.'),
    ('neg:in-import', 'import .os'), ('neg:in-import', 'from os. import path'), ('neg:in-import', 'import os. path'), ('neg:in-import', 'import os /path'),
    ('neg:in-import', 'import os..path'), ('neg:in-import', 'from os import path as a/b'), ('neg:in-import', 'from os/x import path'), ('neg:in-import', 'import os as a b'),
    ('neg:in-import', 'from os import path sep'), ('neg:in-import', 'from xml import etree.ElementTree  # comment'),
    # a block member is a bare parameter name: a scope separator in it is misplaced (never repaired to the last component)
    ('neg:in-block-member', 'c3f:\n  a/x = 1\n'), ('neg:in-block-member', 'c3f:\n  a /x = 1\n'), ('neg:in-block-member', 'a/c3f:\n    /x = 1\n'),
    ('neg:in-block-member', 'c3f:\n  x. = 1\n'), ('neg:in-block-member', 'c3f:\n\ta//x = 1\n'), ('neg:in-block-member', 'c3f:\n  x/ = 1'),
    # references and macros as dict keys / dict values / on later lines of a container
    ('neg:in-dict', 'c3f.x = {@a /c3g: 1}'), ('neg:in-dict', "c3f.x = {'k': @a/ c3g}"), ('neg:in-dict', "c3f.x = {'k': %a /m}"), ('neg:in-dict', 'c3f.x = {%a/ m: 1}'),
    ('neg:in-dict', "c3f.x = {'k': 1,\n  @a//c3g(): 2}"), ('neg:in-dict', "c3f.x = {\n  'k': [@c3. c3g]\n}"), ('neg:in-dict', "c3f.x = {'k': @a/c3g.}"),
    # macro-definition keys
    ('neg:in-macro-key', 'a /m = 1'), ('neg:in-macro-key', 'a/ m = 1'), ('neg:in-macro-key', 'a//m = 1'), ('neg:in-macro-key', '/m = 1'), ('neg:in-macro-key', 'a/m/ = 1'),
    ('neg:in-macro-key', 'a/b /m = 1'), ('neg:in-macro-key', 'a\t/m = 1'), ('neg:in-macro-key', 'a./m = 1'),
    # a form feed is whitespace to the tokenizer
    ('neg:form-feed', 'a\x0c/c3f.x = 1'), ('neg:form-feed', 'a/c3f\x0c.x = 1'), ('neg:form-feed', 'c3f.x = @a\x0c/c3g'), ('neg:form-feed', 'c3f.x = %a/\x0cm'),
    ('neg:form-feed', 'a/\x0cc3f:\n  x = 1\n'), ('neg:form-feed', 'a\x0c/m = 1'),
]

REF_NAMES = ['c3g', 'a/c3g', 'a/b/c3h', 'c3.m.c3g', 'x.y/c3g', 'm.c3h']
MACRO_NAMES = ['c3mac', 'a/c3mac', 'a.b/mm', 'gin.REQUIRED_not']
TRIPLE_QUOTED = ['a\nb', 'x\n  y = @c3g()\n', '# not a comment\n', 'one line', '\n\n', 'c3f:\n  x = 1\n']
SELECTORS = {'c3f': 'c3.m.c3f', 'c3g': 'c3.m.c3g', 'c3.m.c3f': 'c3.m.c3f', 'm.c3h': 'c3.m.c3h', 'include': 'c3.m.include'}

# statement-free texts, ordered so that the three shapes are met by the first three 'empty' cases of every worker
EMPTY_SHAPES = ['', '   ', '# c', '\n', '  \n', '# c\n', '\t', '\t\n', '  # c', '\n\n   # c\n  \n', '# c \\', '# c \\\n', '\n\n\n', '# a\n# b', ' \n# x = 1\n\t\n',
                '# c3f.x = 1\x0bc3f.y = 2\n', '#', '#\n#\n', '    # c3f:\n    #   x = 1\n']


# Word characters outside ASCII that Python allows inside an identifier and that NFKC normalisation leaves alone (letters of several scripts and a
# decimal digit): the grammar's identifier is "a letter or underscore followed by word characters", whatever the role the name plays.
NON_ASCII_WORD_CHARS = '\u00f6\u00df\u00e9\u00f1\u00e7\u03bb\u0436\u3042\u540d\u0663'


def uni_ident(rng):
  """A valid identifier (ASCII letter or underscore first) holding at least one non-ASCII word character."""
  body = [rng.choice(NON_ASCII_WORD_CHARS)] + [rng.choice(NON_ASCII_WORD_CHARS + 'abxyz_019') for _ in range(rng.randrange(0, 5))]
  rng.shuffle(body)
  name = rng.choice('abcmpxyz_') + ''.join(body)
  assert name.isidentifier() and unicodedata.normalize('NFKC', name) == name and not name.isascii(), name
  return name


def _uni_pool(n, seed):
  rng, out = random.Random(seed), []
  while len(out) < n:
    name = uni_ident(rng)
    if name not in out:
      out.append(name)
  return out


UNI = _uni_pool(12, 303)
UNI_PARAMS = UNI[:4]                # parameters of the probes
PARAMS = ['x', 'y', 'zz', 'w_1']
# importable stand-ins (registered in sys.modules by setup): a module whose last component, and a package whose middle component, is non-ASCII
UNI_MODULES = ['c3pkg.' + UNI[8], 'c3pkg.' + UNI[9] + '.leaf']
# selectors no configurable is registered under
UNKNOWN_SELECTORS = ['c3_unregistered', 'nowhere.c3_unregistered', 'c3.m.c3_nope', 'c3f_x']


def uni_scope(rng):
  k = rng.randrange(4)
  if k == 0:
    return rng.choice(UNI)
  if k == 1:
    return rng.choice(['a', 'train', 'x/y']) + '/' + rng.choice(UNI)
  if k == 2:
    return rng.choice(UNI) + '/' + rng.choice(['b', 'eval', 'import'])
  return rng.choice(UNI) + '/' + rng.choice(UNI)


def setup(ctx):
  for name in ('c3f', 'c3g', 'c3h', 'include'):
    probes.build({'shape': 'fn', 'api': 'external', 'name': name, 'module': 'c3.m', 'pos': [],
                  'dflt': [[n, 0] for n in PARAMS + UNI_PARAMS], 'varargs': False, 'kwonly': [], 'varkw': False})
  for mod in UNI_MODULES:
    parts = mod.split('.')
    for k in range(1, len(parts) + 1):
      full = '.'.join(parts[:k])
      if full not in sys.modules:
        m = types.ModuleType(full)
        m.__path__ = []
        sys.modules[full] = m
        if k > 1:
          setattr(sys.modules['.'.join(parts[:k - 1])], parts[k - 1], m)


def gen_ref_name(rng):
  if ENABLE_NON_ASCII_NAMES and rng.random() < 0.12:
    return uni_scope(rng) + '/' + rng.choice(['c3g', 'm.c3h'])
  return rng.choice(REF_NAMES)


def gen_macro_use(rng):
  if ENABLE_NON_ASCII_NAMES and rng.random() < 0.12:
    return rng.choice([rng.choice(UNI), uni_scope(rng) + '/' + rng.choice(['c3mac', rng.choice(UNI)])])
  return rng.choice(MACRO_NAMES)


def gen_mix(rng, depth):
  """A container whose items / dict values / dict keys may be references and macros.

  At most one reference-like key per dict: two of them cannot be ordered, and config_str (pprint) would then order the items by object id
  (C06's known finding), which is not a layout effect."""

  def leaf():
    r = rng.random()
    if r < 0.35:
      return ['ref', gen_ref_name(rng), rng.random() < 0.6]
    if r < 0.55:
      return ['macro', gen_macro_use(rng)]
    if r < 0.67:
      return ['tq', rng.choice(TRIPLE_QUOTED)]
    if r < 0.8 and depth > 0:
      return gen_mix(rng, depth - 1)
    return ['lit', gen.gen_value(rng, depth=rng.choice([0, 0, 1]))]

  k = rng.randrange(3)
  n = rng.choice([1, 2, 2, 3, 4])
  if k == 0:
    return ['L', [leaf() for _ in range(n)]]
  if k == 1:
    return ['T', [leaf() for _ in range(n)]]
  refkey_at = rng.randrange(n) if rng.random() < 0.5 else -1
  items = []
  for i in range(n):
    if i == refkey_at:
      key = ['ref', gen_ref_name(rng), rng.random() < 0.5] if rng.random() < 0.6 else ['macro', gen_macro_use(rng)]
    else:
      key = ['lit', rng.choice(['k%d' % i, i, 'key %d' % i])]
    items.append([key, leaf()])
  return ['D', items]


def mix_has_reference(node):
  if node[0] in ('ref', 'macro'):
    return True
  if node[0] in ('L', 'T'):
    return any(mix_has_reference(x) for x in node[1])
  if node[0] == 'D':
    return any(mix_has_reference(a) or mix_has_reference(b) for a, b in node[1])
  return False


def gen_stmt(rng):
  r = rng.random()
  if r < 0.62:
    k = rng.random()
    if ENABLE_NESTED_REFERENCES and k < 0.17:
      v = ['mix', gen_mix(rng, rng.choice([0, 1, 2]))]
    elif k < 0.6:
      v = ['lit', gen.gen_value(rng, depth=rng.choice([0, 0, 1, 2, 3]))]
    elif k < 0.85:
      v = ['ref', gen_ref_name(rng), rng.random() < 0.6]
    else:
      v = ['macro', gen_macro_use(rng)]
    scope = rng.choice(['', '', 'a', 'a/b', 'train', 'x/y/z', 'import', 'from/include'])
    param = rng.choice(PARAMS)
    if ENABLE_NON_ASCII_NAMES:
      if rng.random() < 0.12:
        scope = uni_scope(rng)
      if rng.random() < 0.2:
        param = rng.choice(UNI_PARAMS)
    return ['bind', scope, rng.choice(['c3f', 'c3g', 'c3.m.c3f', 'm.c3h', 'include']), param, v]
  if r < 0.74:
    k = rng.random()
    if ENABLE_NESTED_REFERENCES and k < 0.12:
      v = ['mix', gen_mix(rng, rng.choice([0, 1]))]
    elif k < 0.8:
      v = ['lit', gen.gen_value(rng, depth=rng.choice([0, 1, 2]))]
    else:
      v = ['ref', 'c3g', True]
    name = rng.choice(['c3mac', 'c3mac2', 'a/c3mac', 'a/b/mm', 'UPPER', 'from', 'import', 'include', 'a/include'])
    if ENABLE_NON_ASCII_NAMES and rng.random() < 0.2:
      name = rng.choice([rng.choice(UNI), uni_scope(rng) + '/' + rng.choice(['c3mac', 'mm', rng.choice(UNI)])])
    return ['macro', name, v]
  if r < 0.94:
    form = rng.choice(['import', 'import-as', 'from', 'from-as'])
    mod = rng.choice(['os', 'os.path', 'json', 'collections.abc', 'json.decoder', 'string'])
    if ENABLE_NON_ASCII_NAMES and rng.random() < 0.2:
      mod = rng.choice(UNI_MODULES)
    if form in ('from', 'from-as') and '.' not in mod:
      mod = {'os': 'os.path', 'json': 'json.decoder', 'string': 'collections.abc'}[mod]
    alias = None
    if form.endswith('as'):
      # aliases equal to a component of the module path are still aliases (`import os.path as os` binds the submodule)
      alias = rng.choice(['al', 'x1', '_p', mod.split('.')[0], mod.split('.')[-1]])
      if ENABLE_NON_ASCII_NAMES and rng.random() < 0.25:
        alias = rng.choice(UNI)
    return ['import', form, mod, alias]
  return ['include', rng.choice(['a.gin', 'dir/b.gin', 'pkg.sub/c.gin', "it's.gin"])]


def gen_stmts(rng, sizes):
  stmts = [gen_stmt(rng) for _ in range(rng.choice(sizes))]
  # make flat/block grouping possible: sometimes repeat the previous binding's (scope, selector)
  for j in range(1, len(stmts)):
    if stmts[j][0] == 'bind' and stmts[j - 1][0] == 'bind' and rng.random() < 0.5:
      stmts[j][1], stmts[j][2] = stmts[j - 1][1], stmts[j - 1][2]
  return stmts


def iter_cases(ctx, rng, n):
  n_empty = n_neg2 = n_pos = 0
  for i in range(n):
    if i % 10 == 9:
      yield {'kind': 'neg', 'which': rng.randrange(len(NEGATIVES)), 'prefix': rng.random() < 0.5}
      continue
    if ENABLE_GENERATED_NEGATIVES and i % 10 == 4:
      # contexts and malformations are cycled (11 and 5 are coprime: 55 consecutive cases meet every pair)
      yield {'kind': 'neg2', 'ctx': NEG_CONTEXTS[n_neg2 % len(NEG_CONTEXTS)], 'op': NEG_OPS[n_neg2 % len(NEG_OPS)],
             'prefix': [s for s in gen_stmts(rng, [0, 0, 1, 2, 3]) if s[0] != 'include'], 'seed': rng.randrange(1 << 30)}
      n_neg2 += 1
      continue
    if ENABLE_EMPTY_TEXTS and i % 20 == 7:
      forms = ['string'] + ENTRY_FORMS
      yield {'kind': 'empty', 'shape': n_empty % (len(EMPTY_SHAPES) + 3), 'entry': forms[n_empty % len(forms)], 'seed': rng.randrange(1 << 30),
             'onto': rng.random() < 0.5}
      n_empty += 1
      continue
    stmts = gen_stmts(rng, [1, 2, 3, 5, 8, 12])
    yield {'kind': 'pos', 'stmts': stmts, 'seeds': [rng.randrange(1 << 30) for _ in range(rng.choice([2, 2, 3, 4, 5]))],
           'entry': ENTRY_FORMS[n_pos % len(ENTRY_FORMS)], 'skip': SKIP_MODES[(n_pos // 3) % len(SKIP_MODES)] if n_pos % 3 == 0 else None,
           'skip_seed': rng.randrange(1 << 30)}
    n_pos += 1


# ---------------------------------------------------------------------------
# values


def mix_text(rng, node, used, wild, state):
  """Text of a container holding references / macros; whitespace, newlines, comments and continuations between the tokens."""

  def ws():
    r = rng.random()
    if r < 0.5:
      return rng.choice(['', ' ', ' ', '\t'])
    state['nl'] = True
    if r < 0.72:
      return '\n' + ' ' * rng.randrange(0, 9)
    if r < 0.84:
      return '  # c%d [1, @x(\n' % rng.randrange(9) + ' ' * rng.randrange(0, 6)
    if r < 0.92:
      return '\n\n\t'
    return ' \\\n' + ' ' * rng.randrange(0, 5)

  k = node[0]
  if k in ('ref', 'macro'):
    used.add('ref-in-container')
    if state.get('nl'):
      used.add('ref-on-later-line')
    if state.get('tq'):
      used.add('ref-after-triple-quoted')
    if not node[1].isascii():
      used.add('name:non-ascii-in-reference')
    return ('@' + node[1] + ('()' if node[2] else '')) if k == 'ref' else '%' + node[1]
  if k == 'tq':
    q = rng.choice(["'''", '"""'])
    if '\n' in node[1]:
      state['nl'] = True
      state['tq'] = True
    return q + node[1] + q
  if k == 'lit':
    text, _ = gen.render_value(rng, node[1], wild=wild, multiline=True)
    if '\n' in text:
      state['nl'] = True
    return text

  def item(x):
    t = mix_text(rng, x, used, wild, state)
    is_ref = x[0] in ('ref', 'macro')
    s = ws()
    if is_ref and '#' in s:
      used.add('ref-followed-by-comment-in-bracket')
    return t + s

  if k in ('L', 'T'):
    o, c = ('[', ']') if k == 'L' else ('(', ')')
    out = o + ws()
    for i, x in enumerate(node[1]):
      out += item(x)
      if i < len(node[1]) - 1 or (k == 'T' and len(node[1]) == 1) or rng.random() < 0.3:
        out += ',' + ws()
    return out + c
  out = '{' + ws()
  for i, (a, b) in enumerate(node[1]):
    if a[0] in ('ref', 'macro'):
      used.add('ref-as-dict-key')
    if b[0] in ('ref', 'macro'):
      used.add('ref-as-dict-value')
    out += item(a) + ':' + ws() + item(b)
    if i < len(node[1]) - 1 or rng.random() < 0.3:
      out += ',' + ws()
  return out + '}'


def value_text(rng, v, used, wild):
  if v[0] == 'lit':
    text, u = gen.render_value(rng, v[1], wild=wild, multiline=True)
    if '\n' in text:
      used.add('multiline-value')
    return text
  if v[0] == 'mix':
    text = mix_text(rng, v[1], used, wild, {})
    if '\n' in text:
      used.add('multiline-value')
    return text
  if not v[1].isascii():
    used.add('name:non-ascii-in-reference')
  if v[0] == 'ref':
    return '@' + v[1] + ('()' if v[2] else '')
  return '%' + v[1]


def abstract(stmt):
  k = stmt[0]
  if k == 'bind':
    return ('bind', stmt[1], stmt[2], stmt[3], value_canon(stmt[4]))
  if k == 'macro':
    sc, _, nm = stmt[1].rpartition('/')
    return ('bind', sc, nm, '', value_canon(stmt[2]))
  if k == 'import':
    return ('import', stmt[2], stmt[1].startswith('from'), stmt[3])
  return ('include', stmt[1])


def mix_obj(node):
  """The value the recording delegate of parser_stream is expected to build."""
  k = node[0]
  if k == 'L':
    return [mix_obj(x) for x in node[1]]
  if k == 'T':
    return tuple(mix_obj(x) for x in node[1])
  if k == 'D':
    return {mix_obj(a): mix_obj(b) for a, b in node[1]}
  if k in ('lit', 'tq'):
    return node[1]
  if k == 'ref':
    return ('@ref', node[1], bool(node[2]))
  return ('%macro', node[1])


class _Unorderable(object):
  """Stands for a reference when asking whether pprint can order a dict's keys."""


def mix_skeleton(node):
  k = node[0]
  if k == 'L':
    return [mix_skeleton(x) for x in node[1]]
  if k == 'T':
    return tuple(mix_skeleton(x) for x in node[1])
  if k == 'D':
    return {mix_skeleton(a): mix_skeleton(b) for a, b in node[1]}
  if k in ('lit', 'tq'):
    return node[1]
  return _Unorderable()


def value_canon(v):
  if v[0] == 'lit':
    return canon(v[1])
  if v[0] == 'mix':
    return canon(mix_obj(v[1]))
  if v[0] == 'ref':
    return canon(('@ref', v[1], bool(v[2])))
  return canon(('%macro', v[1]))


# ---------------------------------------------------------------------------
# renderer


def render(stmts, seed, with_includes=True, final_newline=None):
  """Returns (text, [(abstract tuple, start line)], layout features used).

  Indentation levels are strings, each deeper level extending the enclosing one (so that tabs and spaces never become inconsistent)."""
  rng = random.Random(seed)
  used = set()
  lines = []      # physical lines
  expect = []
  indent_stack = ['']
  if stmts and rng.random() < 0.15:
    indent_stack.append(rng.choice([' ', '  ', '    ', '\t']))
    used.add('indented-first-statement')
  i = 0
  wild = rng.choice([0.0, 0.3, 0.7])

  def eq():
    k = rng.random()
    if k < 0.5:
      return ' = '
    if k < 0.65:
      used.add('no-space-eq')
      return '='
    if k < 0.8:
      used.add('tab-eq')
      return '\t=\t'
    if k < 0.9:
      used.add('cont-before-eq')
      return ' \\\n      = '
    used.add('cont-after-eq')
    return ' = \\\n   '

  def ctl():
    # a comment may contain characters that str.splitlines() treats as line boundaries; to the parser they are ordinary characters
    s = ''
    if rng.random() < 0.25:
      used.add('comment-with-raw-control-char')
      s = rng.choice(gen.RAW_CONTROL) + 'tail_macro = 7'
    if rng.random() < 0.12:
      # a backslash at the end of a comment continues nothing
      used.add('comment-ending-in-backslash')
      s += rng.choice([' \\', '\\'])
    return s

  def filler(ind):
    for _ in range(rng.choice([0, 0, 0, 1, 2])):
      if rng.random() < 0.5:
        used.add('blank-lines')
        lines.append(rng.choice(['', '', '   ', '\t']))
      else:
        used.add('comment-line')
        lines.append(rng.choice(['', ind, ' ' * 7]) + '# comment: x.y = [1, (\n'.rstrip('\n') + ctl())

  def trailing():
    if rng.random() < 0.2:
      used.add('trailing-comment')
      return '  # trailing = 3' + ctl()
    return ''

  def deeper(ind, widths):
    return ind + rng.choice([' ' * w for w in widths] + ['\t'])

  def emit(text, ind):
    """Emit a possibly multi-line statement text at indentation ind; returns its start line (1-based)."""
    start = len(lines) + 1
    parts = text.split('\n')
    if '\t' in ind:
      used.add('tab-indentation')
    lines.append(ind + parts[0])
    lines.extend(parts[1:])
    return start

  def gap(feature):
    k = rng.random()
    if k < 0.66:
      return ' '
    if k < 0.8:
      return rng.choice(['  ', '\t'])
    used.add(feature)
    return rng.choice([' \\\n', '\\\n', ' \\\n   ', ' \\\n\t', '\\\n '])

  prev_was_block = False
  while i < len(stmts):
    st = stmts[i]
    ind = indent_stack[-1]
    filler(ind)
    if st[0] == 'bind':
      # a run of bindings sharing (scope, selector) may be written as a block
      j = i
      while j < len(stmts) and stmts[j][0] == 'bind' and stmts[j][1:3] == st[1:3]:
        j += 1
      if rng.random() < 0.45:
        run = stmts[i:j] if rng.random() < 0.8 else stmts[i:i + 1]
        used.add('block')
        if prev_was_block:
          used.add('block-then-block')
        hdr = (st[1] + '/' if st[1] else '') + st[2]
        if not st[1].isascii():
          used.add('name:non-ascii-scope-in-block-header')
        k = rng.random()
        if k < 0.12:
          used.add('space-before-block-colon')
          hdr += rng.choice([' ', '  ', '\t'])
        elif k < 0.22:
          used.add('cont-before-block-colon')
          hdr += rng.choice([' \\\n', '\\\n', ' \\\n    ', '\\\n\t'])
        hdr += ':'
        if rng.random() < 0.3:
          used.add('block-header-comment')
          hdr += '   # header comment' + ctl()
        emit(hdr, ind)
        mind = deeper(ind, [1, 2, 4, 8])
        for m in run:
          for _ in range(rng.choice([0, 0, 1])):
            if rng.random() < 0.5:
              used.add('block-inner-blank')
              lines.append(rng.choice(['', '', mind, '\t']))
            else:
              used.add('block-inner-comment')
              lines.append(rng.choice(['', mind, ind]) + '# inner comment' + ctl())
          e = eq()
          if '\\' in e:
            used.add('block-member-continuation')
          if not m[3].isascii():
            used.add('name:non-ascii-param-in-block')
          start = emit(m[3] + e + value_text(rng, m[4], used, wild) + trailing(), mind)
          expect.append((abstract(m), start))
        i += len(run)
        prev_was_block = True
        # after a block: possibly dedent two levels at once
        if len(indent_stack) > 1 and rng.random() < 0.5:
          indent_stack.pop()
          used.add('dedent-two-levels')
        continue
      if prev_was_block:
        used.add('block-then-flat')
      key = (st[1] + '/' if st[1] else '') + st[2] + '.' + st[3]
      if not st[1].isascii():
        used.add('name:non-ascii-scope-in-key')
      if not st[3].isascii():
        used.add('name:non-ascii-param-flat')
      start = emit(key + eq() + value_text(rng, st[4], used, wild) + trailing(), ind)
      expect.append((abstract(st), start))
    elif st[0] == 'macro':
      msc, _, mname = st[1].rpartition('/')
      if not msc.isascii():
        used.add('name:non-ascii-scope-in-macro-key')
      if not mname.isascii():
        used.add('name:non-ascii-macro-name')
      start = emit(st[1] + eq() + value_text(rng, st[2], used, wild) + trailing(), ind)
      expect.append((abstract(st), start))
    elif st[0] == 'import':
      form, mod, alias = st[1], st[2], st[3]
      if form.startswith('from'):
        a, _, b = mod.rpartition('.')
        toks = ['from', a, 'import', b]
      else:
        toks = ['import', mod]
      if alias:
        toks += ['as', alias]
        if not alias.isascii():
          used.add('name:non-ascii-import-alias')
      if not mod.isascii():
        used.add('name:non-ascii-from-name' if form.startswith('from') and not mod.rpartition('.')[2].isascii() else 'name:non-ascii-module-component')
      text = toks[0]
      for t in toks[1:]:
        text += gap('cont-in-import') + t
      start = emit(text + trailing(), ind)
      expect.append((abstract(st), start))
    else:
      q = '"' if "'" in st[1] else rng.choice(["'", '"'])
      start = emit('include' + gap('cont-after-include') + q + st[1] + q + trailing(), ind)
      expect.append((abstract(st), start))
    prev_was_block = False
    i += 1
    # indentation of the following flat run: deeper, same, or back to an enclosing level
    k = rng.random()
    if k < 0.12:
      indent_stack.append(deeper(indent_stack[-1], [2, 4]))
      used.add('indented-flat-run')
    elif k < 0.3 and len(indent_stack) > 1:
      indent_stack.pop()
  filler('')
  text = '\n'.join(lines)
  if final_newline is None:
    final_newline = rng.random() < 0.5
  if final_newline:
    text += '\n'
  else:
    used.add('no-final-newline')
    if prev_was_block and not lines[-1].lstrip().startswith('#') and lines[-1].strip():
      used.add('block-at-eof-no-newline')
  return text, expect, used


def parser_stream(text):
  from gin import config_parser

  class Rec(config_parser.ParserDelegate):

    def configurable_reference(self, name, evaluate):
      return ('@ref', name, bool(evaluate))

    def macro(self, name):
      return ('%macro', name)

  out = []
  for st in config_parser.ConfigParser(text, Rec()):
    if isinstance(st, config_parser.BindingStatement):
      out.append((('bind', st.scope, st.selector, st.arg_name, canon(st.value)), st.location.line_num))
    elif isinstance(st, config_parser.ImportStatement):
      out.append((('import', st.module, bool(st.is_from), st.alias), st.location.line_num))
    elif isinstance(st, config_parser.IncludeStatement):
      out.append((('include', st.filename), st.location.line_num))
    elif isinstance(st, config_parser.BlockDeclaration):
      pass
  return out


# ---------------------------------------------------------------------------
# entry forms of parse_config


def _utf8_files():
  try:
    return locale.getpreferredencoding(False).lower().replace('-', '') == 'utf8'
  except Exception:  # pylint: disable=broad-except
    return False


def effective_form(text, form):
  """Falls back to a form that does not depend on the platform where the requested one would (newline translation / locale encoding of open())."""
  if form == 'file' and ('\r' in text or not (text.isascii() or _utf8_files())):
    form = 'bytesio'
  if form in ('file', 'bytesio'):
    try:
      text.encode('utf-8')
    except UnicodeError:
      form = 'stringio'
  return form


def parse_via(gin, text, form, **kw):
  """parse_config of the same text through one of the documented input forms; returns (includes, imported module names)."""
  if form == 'string':
    return gin.parse_config(text, **kw)
  assert not kw, kw
  if form == 'list-of-lines':
    return gin.parse_config(text.split('\n'))
  if form == 'tuple-of-lines':
    return gin.parse_config(tuple(text.split('\n')))
  if form == 'stringio':
    return gin.parse_config(io.StringIO(text))
  if form == 'bytesio':
    return gin.parse_config(io.BytesIO(text.encode('utf-8')))
  assert form == 'file', form
  fd, path = tempfile.mkstemp(prefix='c03-', suffix='.gin')
  try:
    with os.fdopen(fd, 'w', encoding='utf-8', newline='') as f:
      f.write(text)
    r = gin.parse_config_file(path)
    return r.includes, r.imports
  finally:
    os.unlink(path)


def observe(gin, gc, text, form, **kw):
  gin.clear_config()
  ret = parse_via(gin, text, form, **kw)
  return {'store': snap.store_nonempty(gc), 'imports': sorted({(s.module, bool(s.is_from), s.alias or '') for s in gc._IMPORTS}), 'str': gin.config_str(),
          # the returned module names as a set: whether parse_config reports a module imported twice once or twice is not pinned down
          'ret_imports': sorted(set(ret[1])), 'ret_includes': list(ret[0]), 'text': text}


def stmt_has_unorderable_dict(s):
  from vf.checks import c06
  v = s[-1]
  if s[0] not in ('bind', 'macro'):
    return False
  if v[0] == 'lit':
    return c06.has_unorderable_dict(v[1])
  if v[0] == 'mix':
    return c06.has_unorderable_dict(mix_skeleton(v[1]))
  return False


def compare_observations(ctx, a, b, stmts, key_cfg, key_str, what):
  ctx.check(a['store'] == b['store'] and a['imports'] == b['imports'] and a['ret_imports'] == b['ret_imports'], key_cfg,
            '%s give different stores/imports: %r' % (what, snap.diff(a['store'], b['store']) or (a['imports'], b['imports'], a['ret_imports'], b['ret_imports'])),
            {'a': b['text'], 'b': a['text']})
  if a['str'] != b['str']:
    from vf.checks import c06
    if c06.only_line_order_differs(a['str'], b['str']) and any(stmt_has_unorderable_dict(s) for s in stmts):
      ctx.count('config_str_differs_only_in_unorderable_dict_item_order')  # C06's known finding (pprint falls back to object ids), not a layout effect
    else:
      ctx.check(False, key_str, 'config_str differs between %s' % what, {'a': b['text'], 'b': a['text']})
  else:
    ctx.count('oracle_evals')


def model_store(stmts):
  """The store the abstract program describes (last writer wins)."""
  exp = {}
  for s in stmts:
    if s[0] == 'bind':
      exp.setdefault((s[1], SELECTORS[s[2]]), {})[s[3]] = store_canon(s[4])
    elif s[0] == 'macro':
      exp.setdefault((s[1], 'gin.macro'), {})['value'] = store_canon(s[2])
  return exp


# ---------------------------------------------------------------------------
# skip_unknown: only bindings / blocks of unregistered configurables (and imports of missing modules) may be left out


def skip_unknown_plan(stmts, mode, seed):
  """Returns (statements with bindings of unregistered configurables interleaved, skip_unknown value, tags).

  The interleaved statements are the only ones skip_unknown is about: every statement of `stmts` (macro definitions, imports, bindings of the
  registered probes) is still spelled by the text and has to be read as without skip_unknown."""
  rng = random.Random(seed)
  out = [s for s in stmts if s[0] != 'include']
  tags = set()
  unknown = []
  for _ in range(rng.choice([0, 1, 1, 2, 3])):
    sel = rng.choice(UNKNOWN_SELECTORS)
    scope = rng.choice(['', '', 'a', 'x/y/z'])
    if ENABLE_NON_ASCII_NAMES and rng.random() < 0.15:
      scope = uni_scope(rng)
    names = rng.sample(PARAMS + (UNI_PARAMS if ENABLE_NON_ASCII_NAMES else []) + ['anything'], rng.choice([1, 1, 2, 3]))
    at = rng.randrange(len(out) + 1)
    # literal values only: what happens to references inside a skipped binding is C15's subject
    out[at:at] = [['bind', scope, sel, n, ['lit', gen.gen_value(rng, depth=rng.choice([0, 0, 1]))]] for n in names]
    unknown.append(sel)
  macro_names = sorted({s[1].rpartition('/')[2] for s in out if s[0] == 'macro'})
  if macro_names:
    tags.add('skip-unknown:text-has-macro-definition')
  if not unknown:
    tags.add('skip-unknown:nothing-unknown')
  if mode == 'True':
    return out, True, tags
  # the names "to skip if unknown": the unregistered selectors as written, and names that are no unknown configurable of the text at all
  # (a registered one, an unrelated one, the name of a macro the text defines - a macro definition is not a binding of a configurable of that name)
  names = set(unknown)
  for n in macro_names:
    if rng.random() < 0.6:
      names.add(n)
      tags.add('skip-unknown:macro-name-listed')
  names.update(rng.sample(['c3f', 'c3.m.c3g', 'zz_unrelated', 'gin.macro', 'value', 'macro', 'a'], rng.choice([0, 1, 2])))
  names = sorted(names)
  rng.shuffle(names)
  return out, {'list': list, 'tuple': tuple, 'set': set}[mode](names), tags


def run_skip_unknown(ctx, case, gin, gc, stmts, base, want_imports):
  """One more rendering, read with skip_unknown set."""
  plan, value, tags = skip_unknown_plan(stmts, case['skip'], case['skip_seed'])
  text, _, used = render(plan, case['skip_seed'])
  shapes = set()      # how the bindings of the unregistered configurables came out (bookkeeping only)
  for l in text.split('\n'):
    key = l.split('#')[0].split('=')[0].strip()
    if key.endswith(':') and key[:-1].rstrip().rpartition('/')[2] in UNKNOWN_SELECTORS:
      shapes.add('skip-unknown:unknown-binding-in-block')
    elif key.rpartition('/')[2].rpartition('.')[0] in UNKNOWN_SELECTORS:
      shapes.add('skip-unknown:unknown-binding-flat')
  try:
    obs = observe(gin, gc, text, 'string', skip_unknown=value)
  except Exception as e:  # pylint: disable=broad-except
    ctx.check(False, 'valid-layout-rejected-under-skip_unknown', 'parse_config(skip_unknown=%r) raised %s: %s\n%s' % (value, type(e).__name__, str(e)[:300], text[:1500]),
              {'text': text, 'skip_unknown': repr(value)})
    return
  ctx.bucket('skip-unknown:' + case['skip'])
  for t in tags:
    ctx.bucket(t)
  for t in shapes:
    ctx.bucket(t)
  ctx.count('skip_unknown_parses_compared')
  exp = model_store(stmts)
  ctx.check(obs['store'] == exp, 'skip_unknown-drops-or-alters-statements-of-known-targets',
            'skip_unknown=%r: store vs abstract program of the statements that target no unknown configurable: %r' % (value, snap.diff(obs['store'], exp)),
            {'text': text, 'skip_unknown': repr(value)})
  ctx.check(obs['imports'] == want_imports, 'skip_unknown-alters-recorded-imports', 'skip_unknown=%r: recorded imports %r, the text spells %r'
            % (value, obs['imports'], want_imports), {'text': text, 'skip_unknown': repr(value)})
  compare_observations(ctx, obs, base, stmts, 'skip_unknown-gives-different-configuration', 'skip_unknown-gives-different-config_str',
                       'the statements read plainly and (with bindings of unregistered configurables interleaved) with skip_unknown=%r' % (value,))


# ---------------------------------------------------------------------------
# generated negatives


def malform(rng, name, op, dotted_scope_ok):
  """One malformation of a valid scoped name: whitespace next to an inner separator, an empty component, a misplaced separator."""
  seps = [i for i, ch in enumerate(name) if ch in '/.']
  p = rng.choice(seps)
  if op in ('inner-whitespace', 'form-feed', 'continuation'):
    w = {'inner-whitespace': rng.choice([' ', '  ', '\t', ' \t']), 'form-feed': rng.choice(['\x0c', ' \x0c', '\x0c\x0c']),
         'continuation': rng.choice(['', ' ']) + '\\\n' + ' ' * rng.randrange(0, 14)}[op]
    at = p if rng.random() < 0.5 else p + 1
    return name[:at] + w + name[at:]
  if op == 'empty-component':
    k = rng.randrange(3)
    if k == 0:
      return name[:p] + name[p] + name[p:]      # doubled separator
    if k == 1:
      return rng.choice('/.') + name
    return name + rng.choice('/.')
  assert op == 'misplaced-separator', op
  k = rng.randrange(3)
  slashes = [i for i in seps if name[i] == '/']
  if k == 2 and not dotted_scope_ok and len(slashes) >= 2:
    q = rng.choice(slashes[:-1])                 # a period inside the scope of a statement key: a.b/c3f.x
    return name[:q] + '.' + name[q + 1:]
  return name[:p] + ('./' if k == 0 else '/.') + name[p + 1:]


BLOCK_MEMBER_NAMES = {
    'inner-whitespace': ['a /x', 'a/ x', 'a\t/x', 'a/b /x'],
    'form-feed': ['a\x0c/x', 'a/\x0cx'],
    'continuation': ['a/\\\n    x', 'a\\\n  /x', 'a/\\\nx'],
    'empty-component': ['/x', 'x/', 'a//x', '.x', 'x.'],
    'misplaced-separator': ['a/x', 'a./x', 'a/.x', 'a/b/x'],
}


def render_negative(case):
  """Returns (text, prefix statements, the malformed statement's text)."""
  rng = random.Random(case['seed'])
  ctx_, op = case['ctx'], case['op']
  prefix = case['prefix']
  ptext = render(prefix, rng.randrange(1 << 30), final_newline=True)[0] if prefix else ''

  def eq():
    return rng.choice([' = ', ' = ', '=', '\t=\t', ' \\\n      = ', ' = \\\n   '])

  use_macro = ctx_ == 'macro-value' or (ctx_ not in ('ref-value',) and rng.random() < 0.35)
  if use_macro:
    sig, base, tail = '%', rng.choice(['a/c3mac', 'a.b/mm', 'a/b/mm', 'x.y/c3.mac']), ''
  else:
    sig, base, tail = '@', rng.choice(['a/c3g', 'a/b/c3h', 'c3.m.c3g', 'x.y/c3g', 'a/m.c3h']), rng.choice(['', '()'])
  key = rng.choice(['c3f.x', 'a/c3g.y', 'c3.m.c3f.zz'])
  if ctx_ == 'flat-key':
    bad = malform(rng, rng.choice(['a/c3f.x', 'a/b/c3f.y', 'c3.m.c3f.x', 'x/y/z/m.c3h.zz', 'c3f.w_1']), op, False)
    stmt = bad + eq() + '1'
  elif ctx_ == 'macro-def-key':
    bad = malform(rng, rng.choice(['a/c3mac', 'a/b/mm', 'x/y/z/UPPER']), op, False)
    stmt = bad + eq() + rng.choice(['1', "'s'", '[1, 2]'])
  elif ctx_ == 'block-header':
    bad = malform(rng, rng.choice(['a/c3f', 'a/b/c3.m.c3f', 'c3.m.c3g', 'x/y/z/m.c3h']), op, False)
    stmt = bad + rng.choice(['', '', ' ']) + ':' + rng.choice(['', '  # c']) + '\n' + rng.choice(['  ', '\t', ' ']) + 'x = 1'
  elif ctx_ == 'block-member':
    bad = rng.choice(BLOCK_MEMBER_NAMES[op])
    stmt = rng.choice(['c3f', 'a/c3g', 'c3.m.c3f']) + ':\n' + rng.choice(['  ', '\t', '    ']) + bad + eq() + '1'
  else:
    bad = sig + malform(rng, base, op, True) + tail
    if ctx_ in ('ref-value', 'macro-value'):
      val = bad
    elif ctx_ == 'in-list':
      val = rng.choice(['[1, %s, 2]', '[%s]', '(%s,)', '[[%s], 2]', '(1, [2, %s])']) % bad
    elif ctx_ == 'dict-key':
      val = rng.choice(['{%s: 1}', "{'k': 0, %s: 1}", '{ %s : [1] }', '[{%s: 1}]']) % bad
    elif ctx_ == 'dict-value':
      val = rng.choice(["{'k': %s}", "{'k': %s, 'l': 1}", "{1: [%s]}", "{'k': {'l': %s}}"]) % bad
    elif ctx_ == 'later-line':
      val = rng.choice(['[\n  1,\n  %s\n]', '[1,  # c\n %s]', "{'k':\n     %s}", '(\n\n\t%s,\n)']) % bad
    else:
      assert ctx_ == 'after-triple-quoted', ctx_
      val = rng.choice(["['''a\nb''', %s]", '["""x\n""",\n %s]', "{'''k\n''': %s}"]) % bad
    stmt = key + eq() + val
  text = ptext
  if rng.random() < 0.3:
    text += rng.choice(['# comment\n', '\n', '   \n', '# c \\\n'])
  text += stmt + rng.choice(['', '', '  # trailing'])
  k = rng.random()
  if k < 0.5:
    text += '\nc3g.x = 6\n'
  elif k < 0.75:
    text += '\n'
  return text, prefix, stmt


# ---------------------------------------------------------------------------
# oracle


def run_negative_list(ctx, case, gin, gc):
  bucket, text = NEGATIVES[case['which']]
  ctx.bucket(bucket)
  full = ('c3g.y = 5\n' if case['prefix'] else '') + text + '\nc3g.x = 6\n'
  gin.clear_config()
  try:
    gin.parse_config(full)
    ctx.check(False, 'malformed-name-accepted', 'text %r accepted; store %r' % (text, dict(gc._CONFIG)))
  except Exception as e:  # pylint: disable=broad-except
    # "rejected rather than silently repaired": any error will do (usually SyntaxError; '//' is one token, so `@a//g` is
    # read as reference `@a` followed by junk and may surface as the unknown-reference ValueError first)
    ctx.count('negatives_rejected')
    ctx.bucket('neg-exception:' + type(e).__name__)
    got_store = snap.store_nonempty(gc)
    if bucket == 'neg:spelling-valid-elsewhere-first':
      # everything before the malformed (last) statement is valid and applied
      gin.clear_config()
      lines = text.split('\n')
      cut = max(i for i, l in enumerate(lines) if l and not l.startswith(' '))
      gin.parse_config(('c3g.y = 5\n' if case['prefix'] else '') + '\n'.join(lines[:cut]) + '\n')
      exp = snap.store_nonempty(gc)
    else:
      exp = {('', 'c3.m.c3g'): {'y': canon(5)}} if case['prefix'] else {}
    ctx.check(got_store == exp, 'malformed-name-bound-something', 'after rejecting %r the store is %r' % (text, got_store))
  ctx.fp('neg', text)


def run_negative_generated(ctx, case, gin, gc):
  text, prefix, stmt = render_negative(case)
  ctx.bucket('neg-ctx:' + case['ctx'])
  ctx.bucket('neg-op:' + case['op'])
  ctx.bucket({'inner-whitespace': 'neg:inner-whitespace', 'form-feed': 'neg:form-feed', 'continuation': 'neg:continuation-inside-name',
              'empty-component': 'neg:empty-component', 'misplaced-separator': 'neg:misplaced-separator'}[case['op']])
  if prefix:
    ctx.bucket('neg-after-rendered-prefix')
  gin.clear_config()
  try:
    gin.parse_config(text)
    ctx.check(False, 'malformed-name-accepted', 'statement %r (%s, %s) accepted; store %r' % (stmt, case['ctx'], case['op'], dict(gc._CONFIG)), {'text': text})
  except Exception as e:  # pylint: disable=broad-except
    ctx.count('generated_negatives_rejected')
    ctx.bucket('neg-exception:' + type(e).__name__)
    got_store = snap.store_nonempty(gc)
    # the statements before the malformed one are valid and applied; the malformed one binds nothing (under no repaired name either)
    exp = model_store(prefix)
    ctx.check(got_store == exp, 'malformed-name-bound-something', 'after rejecting %r (%s, %s) store vs prefix program: %r'
              % (stmt, case['ctx'], case['op'], snap.diff(got_store, exp)), {'text': text})
  ctx.fp('neg2', case['ctx'], case['op'], stmt)


def empty_text(case):
  k = case['shape']
  if k < len(EMPTY_SHAPES):
    return EMPTY_SHAPES[k]
  return render([], case['seed'])[0]      # blank / comment lines of the layout randomiser


def run_empty(ctx, case, gin, gc):
  text = empty_text(case)
  ctx.bucket('shape:empty-text' if text == '' else 'shape:whitespace-only' if not text.strip() else 'shape:comment-only')
  try:
    got = parser_stream(text)
    ctx.check(got == [], 'statement-stream-differs', 'statement-free text %r read as %r' % (text, got), {'text': text})
  except Exception as e:  # pylint: disable=broad-except
    ctx.check(False, 'valid-layout-rejected', 'statement-free text %r raised %s: %s' % (text, type(e).__name__, str(e)[:300]), {'text': text})
  form = effective_form(text, case['entry'])
  ctx.bucket('empty-entry:' + form)
  gin.clear_config()
  if case['onto']:
    gin.parse_config('import os.path as c3al\nc3g.y = 5\na/c3mac = [1]\n')
  before = (snap.store_nonempty(gc), sorted({(s.module, bool(s.is_from), s.alias or '') for s in gc._IMPORTS}), gin.config_str())
  try:
    ret = parse_via(gin, text, form)
  except Exception as e:  # pylint: disable=broad-except
    ctx.check(False, 'valid-layout-rejected-by-parse_config', 'statement-free text %r (as %s) raised %s: %s' % (text, form, type(e).__name__, str(e)[:300]),
              {'text': text, 'form': form})
    return
  ctx.count('empty_texts_parsed')
  after = (snap.store_nonempty(gc), sorted({(s.module, bool(s.is_from), s.alias or '') for s in gc._IMPORTS}), gin.config_str())
  ctx.check(after == before and list(ret[0]) == [] and list(ret[1]) == [], 'statement-free-text-changes-configuration',
            'text %r (as %s) spells no statement but changed the configuration / returned %r' % (text, form, ret), {'text': text, 'form': form})
  ctx.fp('empty', text, form)


def run_case(ctx, case):
  import gin
  from gin import config as gc
  if case['kind'] == 'neg':
    return run_negative_list(ctx, case, gin, gc)
  if case['kind'] == 'neg2':
    return run_negative_generated(ctx, case, gin, gc)
  if case['kind'] == 'empty':
    return run_empty(ctx, case, gin, gc)

  stmts = case['stmts']
  kinds = []
  for st in stmts:
    if (st[0] == 'bind' and (st[2] == 'include' or st[1] in ('import', 'from/include'))) or (st[0] == 'macro' and st[1].split('/')[-1] in ('from', 'import', 'include')):
      ctx.bucket('stmt:keyword-named')
    if st[0] == 'bind':
      ctx.bucket('stmt:bind')
      ctx.bucket({'ref': 'value:reference', 'macro': 'value:macro', 'mix': 'value:container'}.get(st[4][0], 'value:literal'))
    elif st[0] == 'macro':
      ctx.bucket('stmt:scoped-macro' if '/' in st[1] else 'stmt:macro')
    elif st[0] == 'import':
      ctx.bucket('stmt:' + st[1])
    else:
      ctx.bucket('stmt:include')
    if st[0] in ('bind', 'macro') and st[-1][0] == 'mix' and mix_has_reference(st[-1][1]):
      ctx.bucket('value:container-with-references')
    kinds.append(st[0])
  if len(case['seeds']) >= 3:
    ctx.bucket('renderings:3+')
  want = [abstract(s) for s in stmts]
  # what the consumer must have recorded: every import statement with its form and alias
  want_imports = sorted({(w[1], bool(w[2]), w[3] or '') for w in want if w[0] == 'import'})
  want_modules = sorted({w[1] for w in want if w[0] == 'import'})
  results = []
  allused = set()
  for seed in case['seeds']:
    text, expect, used = render(stmts, seed)
    allused |= used
    for u in used:
      ctx.bucket(u if u.startswith('name:') else 'layout:' + u)
    assert [e[0] for e in expect] == want
    ctx.count('streams_compared')
    try:
      got = parser_stream(text)
    except Exception as e:  # pylint: disable=broad-except
      ctx.check(False, 'valid-layout-rejected', 'rendering raised %s: %s\n%s' % (type(e).__name__, str(e)[:300], text[:1500]), {'text': text, 'used': sorted(used)})
      continue
    if [g[0] for g in got] != want:
      ctx.check(False, 'statement-stream-differs', 'parser read %r\nexpected %r\n%s' % ([g[0] for g in got][:6], want[:6], text[:1200]), {'text': text})
      continue
    ctx.count('oracle_evals')
    ctx.check([g[1] for g in got] == [e[1] for e in expect], 'statement-line-numbers-differ',
              'line numbers %r, renderer %r\n%s' % ([g[1] for g in got], [e[1] for e in expect], text[:1200]), {'text': text})
    # (b) real parse (includes removed: they need files, covered by C14)
    noinc = [s for s in stmts if s[0] != 'include']
    text2, _, _ = render(noinc, seed)
    try:
      obs = observe(gin, gc, text2, 'string')
    except Exception as e:  # pylint: disable=broad-except
      ctx.check(False, 'valid-layout-rejected-by-parse_config', 'parse_config raised %s: %s\n%s' % (type(e).__name__, str(e)[:300], text2[:1500]), {'text': text2})
      continue
    ctx.count('renderings_parsed')
    results.append(obs)
  for r in results[1:]:
    compare_observations(ctx, r, results[0], stmts, 'layouts-give-different-configuration', 'layouts-give-different-config_str', 'two layouts of the same statements')
  if results:
    # the store must be what the abstract program says (last writer wins)
    exp = model_store(stmts)
    ctx.check(results[0]['store'] == exp, 'store-differs-from-abstract-program', 'store vs abstract program: %r' % (snap.diff(results[0]['store'], exp),),
              {'text': results[0]['text']})
    # ... and so must the imports: the recorded statements (module, from-form, alias) and the returned module names
    ctx.check(results[0]['imports'] == want_imports, 'recorded-imports-differ-from-abstract-program',
              'recorded imports %r, the text spells %r' % (results[0]['imports'], want_imports), {'text': results[0]['text']})
    ctx.check(results[0]['ret_imports'] == want_modules and results[0]['ret_includes'] == [], 'returned-imports-differ-from-abstract-program',
              'parse_config returned imports %r, the text spells %r' % (results[0]['ret_imports'], want_modules), {'text': results[0]['text']})
    if any(a for _, _, a in want_imports):
      ctx.bucket('imports:alias-recorded')
    # (c) the same text through another documented input form of parse_config
    if ENABLE_ENTRY_FORMS:
      base = results[-1]
      form = effective_form(base['text'], case.get('entry', 'list-of-lines'))
      ctx.bucket('entry:' + form)
      try:
        alt = observe(gin, gc, base['text'], form)
      except Exception as e:  # pylint: disable=broad-except
        ctx.check(False, 'valid-layout-rejected-via-entry-form:' + form, 'parse_config of the text as %s raised %s: %s\n%s'
                  % (form, type(e).__name__, str(e)[:300], base['text'][:1500]), {'text': base['text'], 'form': form})
      else:
        ctx.count('entry_forms_compared')
        compare_observations(ctx, alt, base, stmts, 'entry-form-gives-different-configuration:' + form, 'entry-form-gives-different-config_str:' + form,
                             'the string and the %s form of one text' % form)
    if ENABLE_SKIP_UNKNOWN and case.get('skip'):
      run_skip_unknown(ctx, case, gin, gc, stmts, results[0], want_imports)
  ctx.fp(tuple(kinds), tuple(sorted(allused)))
  ctx.sample({'statements': stmts[:4], 'one_rendering': render(stmts, case['seeds'][0])[0][:600]}, cap=3)


def mix_store(node):
  """teq.canon of the stored value, built from the abstract tree (references as stored ConfigurableReferences)."""
  k = node[0]
  if k == 'L':
    return ('list', tuple(mix_store(x) for x in node[1]))
  if k == 'T':
    return ('tuple', tuple(mix_store(x) for x in node[1]))
  if k == 'D':
    return ('dict', tuple((mix_store(a), mix_store(b)) for a, b in node[1]))
  if k in ('lit', 'tq'):
    return canon(node[1])
  return store_canon(node)


def store_canon(v):
  if v[0] == 'lit':
    return canon(v[1])
  if v[0] == 'mix':
    return mix_store(v[1])
  if v[0] == 'ref':
    scopes, _, sel = v[1].rpartition('/')
    full = {'c3g': 'c3.m.c3g', 'c3.m.c3g': 'c3.m.c3g', 'c3h': 'c3.m.c3h', 'm.c3h': 'c3.m.c3h'}[sel]
    return ('ref', (scopes + '/' if scopes else '') + full, bool(v[2]))
  if v[1] == 'gin.REQUIRED_not':
    return ('ref', 'gin.REQUIRED_not/gin.macro', True)
  return ('ref', v[1] + '/gin.macro', True)


LEVEL_TEXT = ('Runtime metamorphic monitor: each generated abstract statement list is rendered in 2-5 randomised layouts; the real parser\'s statement '
              'stream (with line numbers) is compared with the abstract list (the generator, not a second parse, is the oracle) and the real '
              'parse_config results (store, recorded imports, config_str) are compared across layouts, across the input forms of parse_config (string, '
              'list/tuple of lines, StringIO, BytesIO, file) and with the abstract program; statement-free texts must change nothing; malformed scoped '
              'names (a fixed list and malformations generated from valid names in every syntactic position, after a rendered valid prefix) must raise '
              'and bind nothing. Names with non-ASCII word characters are generated in every role a name plays (parameter flat / in a block, scope, '
              'macro, reference, import alias, from-imported name, module component). One more rendering with bindings of unregistered configurables '
              'interleaved is read with skip_unknown=True / list / tuple / set and must give the abstract program of the other statements.')
LEVEL_NOTE = ('Trusted: the renderer in this file (it only emits layouts Python\'s tokenizer rules allow: indentation levels that extend the enclosing '
              'level\'s string, no CRLF); dicts hold at most one reference-like key (two cannot be ordered by pprint: C06\'s finding).')
TECHNIQUE = 'runtime metamorphic monitor (layout A vs layout B vs abstract program vs input form) over a layout randomiser'
DESIGN_REF = 'DESIGN.md section 4, C03'
