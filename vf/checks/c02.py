"""C02 — literal values parse to exactly what Python evaluates them to.

Differential monitor: CPython's ast.literal_eval is the oracle for every string of
the literal grammar (layout-randomised), an independent AST/token classifier
decides which strings are in the grammar / near-misses / grey.

The text reaches the real parser through every way gin accepts config text: a
str, a list / tuple of str (also through parse_config_files_and_bindings), a
text file object, a binary file object, a file on disk (parse_config_file,
`include`), gin.config.parse_value; as a flat / scoped / block / macro
statement, with and without neighbouring statements.
"""
import ast
import atexit
import io
import locale
import os
import random
import shutil
import tempfile
import tokenize
import warnings

from vf import gen
from vf.teq import teq

ID = 'C02'
LEVEL = 'exploration'
RULE = ('random literal values (scalars, str/bytes with prefixes/escapes/adjacent pieces, nested list/tuple/dict) '
        'rendered by a layout randomiser, plus named near-miss mutation operators; each text fed to the real parser '
        'through parse_value / flat binding / scoped binding / block member (first, second) / macro definition, alone or '
        'between other statements, given as str / list of str / text or binary file object / file on disk / include; oracle = '
        'ast.literal_eval + typed equality for in-grammar text, SyntaxError|TokenError + no binding for near-misses '
        '(parse_value: only the value of a literal the text starts with may ever be returned). '
        'One case in four starts from a configuration in which the parameter already holds a value that compares equal to the literal\'s but has another type. '
        'distinct = distinct (entry path, classifier class, set of layout features | mutation operator, value-kind set)')
TIERS = {
    'quick': {'workers': 8, 'cases': 10000, 'timeout': 600},
    'thorough': {'workers': 16, 'cases': 60000, 'timeout': 3000},
}
# statement forms a text is embedded in (all given to gin.parse_config as one str) ...
FORMS = ['flat', 'scoped', 'block', 'macro', 'flat-noeol', 'flat-followed', 'block-second']
# ... and the other ways the same statement text can reach the parser (case['form'] says which statement form is used)
PATH_ENTRIES = ['list', 'bindings-arg', 'stringio', 'binary-fileobj', 'file', 'include']
PATH_GROUP = {'list': 'list', 'bindings-arg': 'list', 'stringio': 'filelike', 'binary-fileobj': 'binary',
              'file': 'file', 'include': 'file'}
ENTRIES = ['parse_value'] + FORMS + PATH_ENTRIES

# literal shapes the shared renderer (vf/gen.py) never writes; every text is evaluated by CPython, never by a model
SPECIALS = {
    'esc-N': ["'\\N{LATIN SMALL LETTER A}'", '"\\N{SNOWMAN}x"', "'\\N{GREEK SMALL LETTER ALPHA}\\N{DIGIT ONE}'",
              "u'a\\N{EM DASH}b'", "'''\\N{BLACK STAR}\n\\N{WHITE STAR}'''", "r'\\N{SNOWMAN}'", "'\\N{latin small letter e with acute}'"],
    'str-backslash-nl': ["'ab\\\ncd'", '"\\\n"', "'''x\\\ny'''", "b'a\\\nb'", "r'a\\\nb'", "'a\\\n  b'", '"""p \\\n\\\nq"""',
                         "rb'''k\\\n'''", "'one' 'two\\\nthree'"],
    'esc-abfv': ["'\\a\\b\\f\\v'", "b'\\a\\b\\f\\v'", '"x\\vy"', "'\\b'", "'''\\f'''", "B'\\a'"],
    'esc-unknown': ["'\\d'", "'\\ '", '"a\\qb"', "b'\\d'", "'\\8'", "'\\_'", "b'\\N{x}'", "b'\\u1234'", "'''\\w+\\.'''", "'\\%'", "'\\9x'"],
    'esc-oct-short': ["'\\1'", "'\\12x'", "b'\\7'", "'\\0'", "'\\08'", "b'\\18'", "'\\400'"],
    'int-prefix-upper': ['0O17', '0B11', '0XfF', '-0O7', '0b_1', '0x_f', '0o_7', '-0B0', '0XDEAD_beef', '- 0O10'],
    'int-leading-zeros': ['00', '0_0', '000', '-00', '0_000', '- 0_0', '00_0'],
    'float-overflow': ['1e400', '-1e400', '1E+999', '1e-400', '-1e-400', '1_0e4_0_0', '- 1e999'],
    'imag-forms': ['.5j', '5.j', '1e3j', '1_0j', '-.5J', '1e400j', '0J', '-0j', '1.e-2j', '00j', '0_1j', '- 1_0.0_1e1J'],
    'float-us-exp': ['1_0.5e1_0', '1_0.0_1', '1_000.', '1e0_1', '.0_5', '-1_0.e-0_1', '0_0.0', '1E1_0', '00.5', '0_9.', '09.5', '0e0'],
    'big-number': ['123456789012345678901234567890123456789', '-0xFFFFFFFFFFFFFFFFFFFFFFFFF', '0.1000000000000000055511151231257827',
                   '9007199254740993.0', '1' + '0' * 300, '0.' + '0' * 330 + '1', '-9223372036854775809', '0b' + '1' * 70,
                   '179769313486231580793728971405303415079934132710037826936173778980444968292764750946649017977587207096330286416692887910946555547851940402630657488671505820681908902000708383676273854845817711531764475730270069855571366959622842914819860834936475292719074168444365510704342711559699508093042880177904174497792'],
    'quote-corner': ["''''a'''", '"""a\\""""', "'''a''b'''", "'\"'", '"\'"', "''' '' '''", '"" ""', "'''\n'''", "r'\\''", "r'\\\\'",
                     'r"\\""', "b''", "Rb'\\n'", "u''", "bR\"\"\"\\\"\"\"\"", "'#'", "'a # not a comment'", "'''a\n# b\n'''"],
}
SPECIAL_LABELS = sorted(SPECIALS) + ['deep-nesting', 'triple-ws-nl', 'minus-split']
SPECIAL_WEIGHTED = SPECIAL_LABELS + ['triple-ws-nl'] * 3 + ['minus-split', 'deep-nesting']
SPECIAL_EMBED = ['%s', '%s', '%s', '[%s]', '(%s,)', '[0, %s, None]', '{%s: %t}', "{'k': %s}", '[\n  %s,\n]', '(1, [%s])', '((%s))',
                 '{%s: [%t, %u]}', '[%s, %t]', '(%s\n ,\n %t)']
RELAYOUT_LABELS = ['minus-nl', 'minus-comment', 'minus-backslash', 'backslash-in-bracket']

# near-miss operators beyond gen.NEAR_OPS (they need line breaks, which gen.near_miss never writes)
EXTRA_NEAR_OPS = ['missing-comma-nl', 'minus-nonnumber-nl']
# a near-miss placed deep inside / in key position of an otherwise valid container; line breaks only BEFORE the near-miss,
# so that an early closing bracket in it can never put a line break (= end of statement) outside all brackets
DEEP_TEMPLATES = ['[[%s]]', '[1, [2, %s]]', "{'a': [%s]}", "({'k': (%s,)},)", '[[[%s, 1]]]', '[\n  [1,\n   %s]]',
                  "{'a': {'b': %s}}", '[(%s)]', "[{'k': [0, (%s)]}]", '((%s, 2), 3)', '[[\n# c\n %s], []]', '[0, (1, {2: %s})]']
KEY_TEMPLATES = ['{%s: 1}', '[{%s: 1}]', '{1: 2, %s: 3}', "{'a': {%s: None}}", '{\n %s: 1}', '({%s: []},)', '{(%s, 1): 2}', '{(%s): 0}']

try:
  _LOCALE_IS_UNICODE = '\xe9\u2603\U0001f600'.encode(locale.getpreferredencoding(False)) is not None
except (UnicodeError, LookupError):
  _LOCALE_IS_UNICODE = False  # open() cannot read such a file back: non-ASCII texts go through the binary file object instead
REQUIRED_BUCKETS = (['entry:' + e for e in ENTRIES] + ['history:earlier-equal-value-of-another-type', 'entry:parse_value-near', 'parse_value-near:must-reject', 'parse_value-near:prefix-exempt'] +
                    ['class:in', 'class:near', 'class:invalid', 'class:grey'] +
                    ['near-op:' + o for o in gen.NEAR_OPS + EXTRA_NEAR_OPS] +
                    ['must-reject:' + o for o in EXTRA_NEAR_OPS + ['embed-deep', 'embed-dict-key']] +
                    ['layout:' + l for l in ['adjacent-empty-piece', 'adjacent-2', 'adjacent-3', 'prefix-raw', 'prefix-u',
                                             'bytes', 'quote-tsq', 'quote-tdq', 'quote-sq', 'quote-dq', 'esc-hex', 'esc-oct',
                                             'esc-u', 'esc-named', 'int-hex', 'int-oct', 'int-bin', 'int-us', 'float-exp',
                                             'imag', 'minus', 'one-tuple', 'trailing-comma', 'nl-in-bracket',
                                             'comment-in-bracket', 'backslash-cont', 'parenthesised', 'parenthesised-nested', 'empty-list',
                                             'empty-tuple', 'empty-dict', 'adjacent-nosep', 'literal-newline-in-triple', 'raw-control-char', 'dict-duplicate-key'] +
                                            SPECIAL_LABELS + RELAYOUT_LABELS] +
                    ['path-feature:%s:triple-ws-nl' % g for g in ['list', 'filelike', 'binary', 'file']] +
                    ['path-feature:%s:non-ascii' % g for g in ['list', 'filelike', 'binary'] + ['file'] * _LOCALE_IS_UNICODE] +
                    ['neighbours-checked:' + f for f in ['flat-noeol', 'flat-followed', 'block-second']])
ORACLE_COUNTERS = ['oracle_evals', 'accepted_equal', 'rejected_as_required']
ASSUMPTIONS = ['ast.literal_eval of CPython is the reference for the value of a literal',
               'grey strings (set displays, Ellipsis, unary +, -(1), bare tuples, real+imag) may be rejected or accepted-equal',
               'gin.config.parse_value reads ONE value: text after a complete value is not looked at there (DESIGN 8.3); '
               'it must still never return anything but the value of a literal that the text starts with',
               'a binary file object holds UTF-8 (what CPython assumes for source bytes); a file on disk is written in the '
               'locale encoding that the default reader open() decodes with']

_SKIP_TOKENS = (tokenize.NL, tokenize.NEWLINE, tokenize.COMMENT, tokenize.INDENT, tokenize.DEDENT, tokenize.ENDMARKER)
_STATE = {'tmp': None}


def setup(ctx):
  import gin
  # invalid escape sequences ('\\d') are literals that come with a SyntaxWarning: not printed 100k times (default action
  # is to print, never to raise, so this does not change what gin or the reference do)
  warnings.filterwarnings('ignore', category=SyntaxWarning)
  warnings.filterwarnings('ignore', category=DeprecationWarning, message='invalid .*escape')

  def C02P(p=None, q=None, r=None):
    return p

  def REF():
    return 1

  gin.external_configurable(C02P, 'C02P', module='vf.c02')
  gin.external_configurable(REF, 'REF', module='vf.c02')


def _tmpdir():
  if _STATE['tmp'] is None:
    # (a memory file system where there is one: creating files under /tmp costs ~1 ms each on some hosts)
    shm = os.environ.get('VF_SHM_DIR') or ('/dev/shm' if os.path.isdir('/dev/shm') and os.access('/dev/shm', os.W_OK | os.X_OK) else None)
    _STATE['tmp'] = tempfile.mkdtemp(prefix='vf-c02-', dir=shm)
    atexit.register(shutil.rmtree, _STATE['tmp'], True)
  return _STATE['tmp']


def finish(ctx):
  if _STATE['tmp'] is not None:
    shutil.rmtree(_STATE['tmp'], ignore_errors=True)
    _STATE['tmp'] = None


# ---------------------------------------------------------------------------
# generator


def _tokens(text):
  """([(type, string, start, end)], complete): the non-layout tokens with absolute character offsets."""
  offs = [0]
  for l in text.split('\n'):
    offs.append(offs[-1] + len(l) + 1)
  out, complete = [], True
  try:
    for t in tokenize.generate_tokens(io.StringIO(text).readline):
      if t.type in _SKIP_TOKENS:
        continue
      a, b = offs[t.start[0] - 1] + t.start[1], offs[t.end[0] - 1] + t.end[1]
      if text[a:b] != t.string:
        return out, False  # offsets not trustworthy for this text: use only what was mapped correctly
      out.append((t.type, t.string, a, b))
  except (tokenize.TokenError, SyntaxError, IndentationError, IndexError):
    complete = False
  return out, complete


def _py_value(text):
  """(True, value) if CPython evaluates the text as a literal."""
  try:
    return True, ast.literal_eval(text.strip())
  except Exception:  # pylint: disable=broad-except
    return False, None


def _same_literal(new, old):
  if gen.classify(new) != 'in':
    return False
  ok1, v1 = _py_value(new)
  ok2, v2 = _py_value(old)
  return ok1 and ok2 and teq(v1, v2)


def _relayout(rng, text, used):
  """Put a line break / comment / backslash continuation between a minus and its number (or, failing that, a
  backslash continuation between two tokens inside brackets).  CPython must evaluate the result to the same value."""
  toks, ok = _tokens(text)
  if not ok or len(toks) < 2:
    return text
  depth, minus, other = 0, [], []
  for i, (ty, s, _, b) in enumerate(toks[:-1]):
    if ty == tokenize.OP and s in ('(', '[', '{'):
      depth += 1
    elif ty == tokenize.OP and s in (')', ']', '}'):
      depth -= 1
    if ty == tokenize.OP and s == '-' and toks[i + 1][0] == tokenize.NUMBER:
      minus.append((b, depth))
    elif depth > 0:
      other.append((b, depth))
  if minus:
    at, d = rng.choice(minus)
    kind = rng.choice(['minus-nl', 'minus-comment', 'minus-backslash']) if d > 0 else 'minus-backslash'
  elif other:
    at, d = rng.choice(other)
    kind = 'backslash-in-bracket'
  else:
    return text
  pad = ' ' * rng.randrange(0, 5)
  if kind == 'minus-nl':
    ins = rng.choice(['\n', ' \n', '\n\n']) + pad
  elif kind == 'minus-comment':
    ins = rng.choice(['# neg\n', '  # c [(\n', ' #\n']) + pad
  else:
    ins = rng.choice([' \\\n', '\\\n']) + pad
  new = text[:at] + ins + text[at:]
  if not _same_literal(new, text):
    return text
  used.add(kind)
  return new


def _gen_deep(rng):
  """A scalar under 30..60 levels of list / tuple / dict / redundant parentheses."""
  text = rng.choice(['1', "'x'", 'None', '-2.5', '[]', '()', '{}', "b'\\x00'", 'True'])
  hashable = text not in ('[]', '{}')
  for _ in range(rng.randrange(30, 61)):
    nl = rng.choice(['', '', '', '', '\n', ' ', '\n  '])
    k = rng.randrange(9)
    if k == 0:
      text, hashable = '[' + nl + text + ']', False
    elif k == 1:
      text, hashable = '[' + text + ',' + nl + ']', False
    elif k == 2:
      text = '(' + text + nl + ',)'
    elif k == 3:
      text = '(' + nl + text + ')'
    elif k == 4 and hashable:
      text, hashable = '{' + text + ':' + nl + ' 0}', False
    elif k == 5:
      text, hashable = '{1: ' + nl + text + '}', False
    elif k == 6:
      text, hashable = '[0, ' + text + nl + ']', False
    elif k == 7:
      text = '(' + text + ', None)'
    else:
      text, hashable = '[' + text + ']', False
  return text


def _gen_triple_ws(rng):
  """A triple-quoted str/bytes literal whose physical lines end and/or start with blanks."""
  prefix = rng.choice(['', '', 'r', 'b', 'u', 'rb', 'R'])
  q = rng.choice(["'''", '"""'])
  alphabet = ['a', 'b', 'Z', '0', '.', ',', '=', '#', ' ', '[', '(']
  if 'b' not in prefix.lower():
    alphabet += ['\xe9', '\u2603']
  lines = []
  for _ in range(rng.randrange(2, 5)):
    core = ''.join(rng.choice(alphabet) for _ in range(rng.randrange(0, 5)))
    lines.append(rng.choice(['', ' ', '  ', '\t', '   ']) + core + rng.choice([' ', '  ', '\t', ' \t ', '']))
  body = '\n'.join(lines)
  if not any((a.endswith((' ', '\t')) or b.startswith((' ', '\t'))) for a, b in zip(lines, lines[1:])):
    body = lines[0] + '  \n  ' + '\n'.join(lines[1:])
  return prefix + q + body + q


def _gen_minus_split(rng, used):
  items = [rng.choice(['-1', '- 2.5', '-3j', '-0.0', '-0x1F', '-1_000', '-.5', '-1e-3', '- 0', '-10000000000000000000000'])
           for _ in range(rng.randrange(1, 4))]
  text = rng.choice(['[%s]', '(%s,)', '{0: [%s]}', '[[%s], 1]', '{%s: None}', '((%s))']).replace('%s', ', '.join(items))
  if text.startswith('{-') and len(items) > 1:
    text = '[' + ', '.join(items) + ']'
  for _ in range(rng.randrange(1, 3)):
    text = _relayout(rng, text, used)
  return text


def _gen_special(rng, label):
  """(text, used-labels).  The text is kept only if CPython evaluates it as a literal of the property's grammar."""
  used = {label}
  if label == 'deep-nesting':
    text = _gen_deep(rng)
  elif label == 'triple-ws-nl':
    text = _gen_triple_ws(rng)
    if rng.random() < 0.4:
      text = rng.choice(['[%s]', "['x', %s]", '{%s: 1}', '(%s, )', "'' %s"]).replace('%s', text)
  elif label == 'minus-split':
    text = _gen_minus_split(rng, used)
  else:
    pool = SPECIALS[label]
    text = rng.choice(SPECIAL_EMBED).replace('%s', rng.choice(pool))
    for slot in ('%t', '%u'):
      if slot in text:
        other = rng.choice(SPECIAL_LABELS[:len(SPECIALS)])
        used.add(other)
        text = text.replace(slot, rng.choice(SPECIALS[other]))
  if gen.classify(text) != 'in' or not _py_value(text)[0]:
    return None, None
  return text, used


def _single_line_literal(rng, depth):
  text, _ = gen.render_value(rng, gen.gen_value(rng, depth=depth), wild=0.2, multiline=False)
  return '1' if '\n' in text else text


def _extra_near(rng, op):
  if op == 'missing-comma-nl':
    brk = rng.choice(['\n', '\n ', '\n    ', '  # c\n ', ' \n\n'])
    kind = rng.randrange(3)
    if kind < 2:
      n = rng.randrange(2, 5)
      items = [_single_line_literal(rng, rng.choice([0, 0, 1])) for _ in range(n)]
      miss = rng.randrange(n - 1)
      body = ''
      for i, it in enumerate(items):
        body += it
        if i < n - 1:
          body += brk if i == miss else ', '
      text = ('[%s]' if kind == 0 else '(%s)').replace('%s', body)
    else:
      keys = rng.sample(["'a'", '1', 'None', "b'k'", '(1, 2)', '-2', "'b'", '2.5', 'True'], 3)
      n = rng.randrange(2, 4)
      miss = rng.randrange(n - 1)
      body = ''
      for i in range(n):
        body += keys[i] + ': ' + _single_line_literal(rng, rng.choice([0, 0, 1]))
        if i < n - 1:
          body += brk if i == miss else ', '
      text = '{' + body + '}'
    if rng.random() < 0.3:
      text = rng.choice(DEEP_TEMPLATES).replace('%s', text)
    return text
  if op == 'minus-nonnumber-nl':
    core = rng.choice(['-\n ', '- # c\n ', '- \\\n', '-\n\n', '-\\\n ']) + rng.choice(
        ['None', "'a'", '[1]', '(1, 2)', '{}', "b'x'", 'x', 'True', 'False', "''", '@REF()', '%MACRO', 'inf'])
    if '\\\n' in core and rng.random() < 0.3:
      return core  # a backslash continuation needs no bracket
    return rng.choice(['[%s]', '[1, %s]', "{'k': %s}", '(%s,)', '{%s: 1}', '[[%s]]']).replace('%s', core)
  raise ValueError(op)


def iter_cases(ctx, rng, n):
  n_old = len(gen.NEAR_OPS)
  n_special = 0
  for i in range(n):
    entry = ENTRIES[i % len(ENTRIES)]
    case = {'entry': entry, 'form': None, 'variant': rng.randrange(1 << 30), 'op': None, 'embed': None, 'used': [], 'kinds': []}
    if entry in PATH_ENTRIES:
      case['form'] = rng.choice(FORMS)
    r = rng.random()
    if r < 0.44:
      v = gen.gen_value(rng, depth=rng.choice([0, 1, 2, 3, 4]))
      wild = rng.choice([0.0, 0.3, 0.6, 0.9])
      text, used = gen.render_value(rng, v, wild=wild, multiline=True, dup_keys=True)
      if rng.random() < 0.15:
        text = _relayout(rng, text, used)
      case.update(text=text, used=sorted(used), kinds=sorted(gen.kinds_in(v)))
    elif r < 0.58:
      n_special += 1
      label = SPECIAL_WEIGHTED[n_special % len(SPECIAL_WEIGHTED)] if n_special % 2 else rng.choice(SPECIAL_WEIGHTED)
      text, used = _gen_special(rng, label)
      if text is None:
        ctx.count('generator_skips')
        text, used = '1', set()
      case.update(text=text, used=sorted(used), kinds=['special'])
    elif r < 0.9:
      base = _single_line_literal(rng, rng.choice([0, 0, 1]))
      text, op = gen.near_miss(rng, base, gen.NEAR_OPS[i % n_old] if r < 0.86 else None)
      e = rng.random()
      if e < 0.15 and '\n' not in text:
        text, case['embed'] = rng.choice(DEEP_TEMPLATES).replace('%s', text), 'deep'
      elif e < 0.25 and '\n' not in text:
        text, case['embed'] = rng.choice(KEY_TEMPLATES).replace('%s', text), 'dict-key'
      case.update(text=text, op=op)
    else:
      op = EXTRA_NEAR_OPS[i % len(EXTRA_NEAR_OPS)] if rng.random() < 0.5 else rng.choice(EXTRA_NEAR_OPS)
      case.update(text=_extra_near(rng, op), op=op)
    yield case


# ---------------------------------------------------------------------------
# driving the real parser


def _statement(form, text):
  """(config text, key to query, {key: value} of the neighbouring statements)."""
  if form == 'flat':
    return 'C02P.p = ' + text + '\n', 'C02P.p', {}
  if form == 'flat-noeol':
    return 'C02P.q = 0\nC02P.p =' + text, 'C02P.p', {'C02P.q': 0}
  if form == 'scoped':
    return 's1/s2/vf.c02.C02P.p\t=\t' + text + '  # trailing comment\n', 's1/s2/C02P.p', {}
  if form == 'block':
    return 's1/C02P:\n  # block\n  p = ' + text + '\n', 's1/C02P.p', {}
  if form == 'macro':
    return 'C02M = ' + text + '\n', '%C02M', {}
  if form == 'flat-followed':
    return 'C02P.p = ' + text + '\nC02P.q = -77\ns9/C02P.r = (79)\n', 'C02P.p', {'C02P.q': -77, 's9/C02P.r': 79}
  if form == 'block-second':
    return 's1/C02P:\n  q = (76,)\n  p = ' + text + "\n  r = 'a' 'b'\n", 's1/C02P.p', {'s1/C02P.q': (76,), 's1/C02P.r': 'ab'}
  raise ValueError(form)


def _split_lines(stmt, variant):
  """A list (or tuple) of strings whose '\\n'.join is exactly `stmt`; elements may themselves span lines."""
  r = random.Random(variant)
  parts = stmt.split('\n')
  out = [parts[0]]
  p_merge = r.choice([0.0, 0.0, 0.3, 0.6])
  for part in parts[1:]:
    if r.random() < p_merge:
      out[-1] += '\n' + part
    else:
      out.append(part)
  assert '\n'.join(out) == stmt
  return tuple(out) if variant % 3 == 0 else out


def _effective_entry(case, cls, stmt_text):
  """Some (entry, text) pairs cannot be driven faithfully; route them to an equivalent entry (decided before any bucket)."""
  entry = case['entry']
  if entry in ('file', 'include') and not (stmt_text.isascii() and '\r' not in stmt_text):
    enc = locale.getpreferredencoding(False)
    try:
      same = stmt_text.encode(enc).decode(enc) == stmt_text
    except (UnicodeError, LookupError):
      same = False
    if not same or '\r' in stmt_text:  # open() would hand gin another text (universal newlines / undecodable)
      entry = 'binary-fileobj'
  if entry == 'binary-fileobj' and not stmt_text.isascii():
    try:
      stmt_text.encode('utf8')
    except UnicodeError:
      entry = 'stringio'
  return entry


def _write(name, data, mode, **kw):
  path = os.path.join(_tmpdir(), name)
  with open(path, mode, **kw) as f:
    f.write(data)
  return path


def _confuse(v):
  """(changed?, a value comparing equal to v in which numbers have another type)."""
  t = type(v)
  if t is bool:
    return True, int(v)
  if t is int:
    if v in (0, 1):
      return True, bool(v)
    return (True, float(v)) if abs(v) < 2 ** 52 else (False, v)
  if t is float:
    return (True, int(v)) if v == v and abs(v) < 2 ** 52 and v.is_integer() else (False, v)
  if t in (list, tuple):
    items = [_confuse(x) for x in v]
    return any(c for c, _ in items), t(x for _, x in items)
  if t is dict:
    items = [(k, _confuse(x)) for k, x in v.items()]
    return any(c for _, (c, _) in items), {k: x for k, (_, x) in items}
  return False, v


def _drive(case, entry, text):
  import gin
  from gin import config as gc
  if entry in ('parse_value', 'parse_value-near'):
    return gc.parse_value(text.strip()), {}
  stmt, qkey, others = _statement(case.get('form') or entry, text)
  variant = case.get('variant') or 0
  if entry in FORMS:
    gin.parse_config(stmt)
  elif entry == 'list':
    gin.parse_config(_split_lines(stmt, variant))
  elif entry == 'bindings-arg':
    gin.parse_config_files_and_bindings(None, _split_lines(stmt, variant), finalize_config=False)
  elif entry == 'stringio':
    gin.parse_config(io.StringIO(stmt))
  elif entry == 'binary-fileobj':
    if variant % 2:
      gin.parse_config(io.BytesIO(stmt.encode('utf8')))
    else:
      with open(_write('c02b.gin', stmt.encode('utf8'), 'wb'), 'rb') as f:
        gin.parse_config(f)
  elif entry == 'file':
    path = _write('c02f.gin', stmt, 'w', encoding=locale.getpreferredencoding(False), newline='')
    if variant % 2:
      gin.parse_config_file(path)
    else:
      gin.parse_config_files_and_bindings([path], None, finalize_config=False)
  elif entry == 'include':
    path = _write('c02i.gin', stmt, 'w', encoding=locale.getpreferredencoding(False), newline='')
    # (C02P.r without scope is not used by any statement form)
    gin.parse_config(["include '%s'" % path, 'C02P.r = 74'] if variant % 2 else "include '%s'\n" % path)
  else:
    raise ValueError(entry)
  got = gin.query_parameter(qkey)
  return got, {k: gin.query_parameter(k) for k in others}


def _prefix_values(src):
  """Values of every in-grammar (or grey) literal that `src` STARTS with, cut at token boundaries.

  parse_value() reads one value and does not look at what follows, so for text outside the grammar the only values
  it may return are these; if there is none, it has to raise."""
  toks, _ = _tokens(src)
  vals = []
  for _, _, _, end in toks:
    prefix = src[:end]
    if gen.classify(prefix) in ('in', 'grey'):
      ok, v = _py_value(prefix)
      if ok:
        vals.append(v)
  return vals


def classify_violation(case, what, entry=None):
  """Mechanism keys (for known_findings.json): keyed by construct, never by value."""
  used = set(case.get('used') or [])
  text = case['text']
  if what in ('rejected-valid', 'wrong-value') and (used & {'adjacent-2', 'adjacent-3', 'adjacent-4'}):
    return what + ':adjacent-string-pieces'
  if what in ('rejected-valid', 'wrong-value') and PATH_GROUP.get(entry):
    return what + ':via-' + PATH_GROUP[entry]
  if what == 'accepted-near-miss' and case.get('op') == 'minus-nonnumber' and ('@' in text or '%' in text):
    return what + ':minus-before-reference-or-macro'
  if what == 'accepted-near-miss':
    return what + ':' + str(case.get('op'))
  return what


def run_case(ctx, case):
  import gin
  from gin import config as gc
  text, entry = case['text'], case['entry']
  cls = gen.classify(text)
  if entry == 'parse_value' and cls != 'in':
    # parse_value() reads one value and, by design, does not look at what follows: decided by the prefix oracle below
    # (references and macros are values too, but not literals: texts containing them go through a statement instead)
    entry = 'flat' if ('@' in text or '%' in text) else 'parse_value-near'
  if entry in PATH_ENTRIES:
    entry = _effective_entry(case, cls, _statement(case.get('form') or 'flat', text)[0])
  form = None if entry in ('parse_value', 'parse_value-near') else (case.get('form') or entry)
  used = case.get('used') or []
  ctx.bucket('entry:' + entry)
  ctx.bucket('class:' + cls)
  if case['op']:
    ctx.bucket('near-op:' + case['op'])
  for u in used:
    ctx.bucket('layout:' + u)
  group = PATH_GROUP.get(entry)
  if group and cls == 'in':
    if 'triple-ws-nl' in used:
      ctx.bucket('path-feature:%s:triple-ws-nl' % group)
    if not text.isascii():
      ctx.bucket('path-feature:%s:non-ascii' % group)
  if cls in ('near', 'invalid'):
    if case.get('op') in EXTRA_NEAR_OPS:
      ctx.bucket('must-reject:' + case['op'])
    if case.get('embed'):
      ctx.bucket('must-reject:embed-' + case['embed'])
  ctx.fp(entry, form, cls, case['op'], case.get('embed'), tuple(used), tuple(case['kinds']))
  ctx.sample({'entry': entry, 'form': form, 'class': cls, 'op': case['op'], 'text': text[:200]}, cap=6)

  expected = None
  if cls in ('in', 'grey'):
    has_expected, expected = _py_value(text)  # False: Python cannot evaluate it as a literal (e.g. set of unhashables)
  else:
    has_expected = False

  gin.clear_config()
  if cls == 'in' and has_expected and entry not in ('parse_value', 'parse_value-near') and ctx.case_no % 4 == 1:
    # the parameter may hold an earlier value: one that COMPARES EQUAL to the literal's but is of another type (1 / True / 1.0) - the literal
    # is stored all the same
    changed, earlier = _confuse(expected)
    if changed:
      try:
        gin.bind_parameter(_statement(case.get('form') or entry, text)[1], earlier)
        ctx.bucket('history:earlier-equal-value-of-another-type')
      except Exception:  # pylint: disable=broad-except
        gin.clear_config()
  exc, got, others = None, None, {}
  try:
    got, others = _drive(case, entry, text)
  except BaseException as e:  # pylint: disable=broad-except
    exc = e

  if entry == 'parse_value-near':
    allowed = _prefix_values(text.strip())
    ctx.bucket('parse_value-near:' + ('prefix-exempt' if allowed else 'must-reject'))
    if exc is None:
      ctx.check(any(teq(got, v) for v in allowed), 'parse-value-returned-non-literal:' + str(case.get('op') or cls),
                'parse_value(%r) returned %r, which is not the value of any literal the text starts with (%s)' %
                (text, got, ', '.join(repr(v) for v in allowed[:4]) or 'there is none: it had to raise'),
                {'text': text, 'gin': repr(got)})
      return
    if ctx.check(isinstance(exc, (SyntaxError, tokenize.TokenError)), 'wrong-exception-type',
                 'parse_value(%r) raised %s (%s), not a syntax/tokenizer error' % (text, type(exc).__name__, str(exc)[:300])):
      if not allowed:
        ctx.count('rejected_as_required')
    return

  if cls == 'in':
    if not has_expected:
      ctx.count('generator_skips')
      return
    if exc is not None:
      ctx.check(False, classify_violation(case, 'rejected-valid', entry),
                'in-grammar literal rejected (entry %s, form %s): %r -> %s: %s' % (entry, form, text, type(exc).__name__, str(exc)[:200]),
                {'text': text, 'python_value': repr(expected)})
      return
    ok = ctx.check(teq(got, expected), classify_violation(case, 'wrong-value', entry),
                   'literal %r parsed to %r but Python evaluates it to %r (entry %s, form %s)' % (text, got, expected, entry, form),
                   {'text': text, 'gin': repr(got), 'python': repr(expected)})
    if ok:
      ctx.count('accepted_equal')
    if others:
      # the statements around the literal are literals too (hand-evaluated above): each must still hold its own value
      _, _, want = _statement(form, text)
      ctx.bucket('neighbours-checked:' + form)
      ctx.check(all(teq(others[k], want[k]) for k in want), 'neighbour-statement-changed',
                'statements next to the literal %r (form %s, entry %s) now hold %r, written as %r' % (text, form, entry, others, want),
                {'text': text})
    return

  if cls == 'grey':
    ctx.count('oracle_evals')
    if exc is None:
      if not (has_expected and teq(got, expected)):
        ctx.violation('grey-accepted-other-value', 'text %r accepted as %r; Python: %s' %
                      (text, got, repr(expected) if has_expected else 'not a literal'))
    elif not isinstance(exc, (SyntaxError, tokenize.TokenError)):
      ctx.violation('wrong-exception-type', 'text %r raised %s: %s' % (text, type(exc).__name__, exc))
    return

  # near / invalid: must be rejected with a syntax or tokenizer error, and nothing bound
  if exc is None:
    ctx.check(False, classify_violation(case, 'accepted-near-miss'),
              'text outside the literal grammar accepted: %r -> %r (entry %s, form %s)' % (text, got, entry, form),
              {'text': text, 'gin': repr(got)})
    return
  if not ctx.check(isinstance(exc, (SyntaxError, tokenize.TokenError)), 'wrong-exception-type',
                   'text %r raised %s (%s), not a syntax/tokenizer error' % (text, type(exc).__name__, str(exc)[:300])):
    return
  ctx.count('rejected_as_required')
  bound = {k: v for k, v in gc._CONFIG.items() if 'p' in v or 'value' in v}
  ctx.check(not bound, 'binding-left-after-rejection',
            'rejected statement %r left a binding: %r' % (text, bound))

LEVEL_TEXT = ('Differential runtime monitor: ~28k (quick) / ~1.3M (thorough) generated literal texts and near-misses per run are '
              'fed to the real parser through five entry paths and compared with CPython (ast.literal_eval, typed equality); '
              'every layout feature, string prefix/escape kind and mutation operator is a required coverage bucket.')
LEVEL_NOTE = 'Trusted: CPython ast/tokenize as reference; the independent in-grammar classifier in vf/gen.py; sampling, not enumeration.'
TECHNIQUE = 'runtime differential monitor against ast.literal_eval over generated layouts and near-miss mutations'
DESIGN_REF = 'DESIGN.md section 4, C02'
