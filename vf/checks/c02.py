"""C02 — literal values parse to exactly what Python evaluates them to.

Differential monitor: CPython's ast.literal_eval is the oracle for every string of
the literal grammar (layout-randomised), an independent AST/token classifier
decides which strings are in the grammar / near-misses / grey.
"""
import ast
import tokenize

from vf import gen
from vf.teq import teq

ID = 'C02'
LEVEL = 'exploration'
RULE = ('random literal values (scalars, str/bytes with prefixes/escapes/adjacent pieces, nested list/tuple/dict) '
        'rendered by a layout randomiser, plus named near-miss mutation operators; each text fed to the real parser '
        'through parse_value / flat binding / scoped binding / block member / macro definition; oracle = '
        'ast.literal_eval + typed equality for in-grammar text, SyntaxError|TokenError + no binding for near-misses. '
        'distinct = distinct (entry path, classifier class, set of layout features | mutation operator, value-kind set)')
TIERS = {
    'quick': {'workers': 8, 'cases': 10000, 'timeout': 600},
    'thorough': {'workers': 16, 'cases': 60000, 'timeout': 3000},
}
ENTRIES = ['parse_value', 'flat', 'scoped', 'block', 'macro', 'flat-noeol']
REQUIRED_BUCKETS = (['entry:' + e for e in ENTRIES] + ['class:in', 'class:near', 'class:invalid', 'class:grey'] +
                    ['near-op:' + o for o in gen.NEAR_OPS] +
                    ['layout:' + l for l in ['adjacent-empty-piece', 'adjacent-2', 'adjacent-3', 'prefix-raw', 'prefix-u',
                                             'bytes', 'quote-tsq', 'quote-tdq', 'quote-sq', 'quote-dq', 'esc-hex', 'esc-oct',
                                             'esc-u', 'esc-named', 'int-hex', 'int-oct', 'int-bin', 'int-us', 'float-exp',
                                             'imag', 'minus', 'one-tuple', 'trailing-comma', 'nl-in-bracket',
                                             'comment-in-bracket', 'backslash-cont', 'parenthesised', 'parenthesised-nested', 'empty-list',
                                             'empty-tuple', 'empty-dict', 'adjacent-nosep', 'literal-newline-in-triple', 'raw-control-char', 'dict-duplicate-key']])
ORACLE_COUNTERS = ['oracle_evals', 'accepted_equal', 'rejected_as_required']
ASSUMPTIONS = ['ast.literal_eval of CPython is the reference for the value of a literal',
               'grey strings (set displays, Ellipsis, unary +, -(1), bare tuples, real+imag) may be rejected or accepted-equal']


def setup(ctx):
  import gin

  def C02P(p=None, q=None):
    return p

  def REF():
    return 1

  gin.external_configurable(C02P, 'C02P', module='vf.c02')
  gin.external_configurable(REF, 'REF', module='vf.c02')


def iter_cases(ctx, rng, n):
  for i in range(n):
    entry = ENTRIES[i % len(ENTRIES)]
    r = rng.random()
    if r < 0.58:
      v = gen.gen_value(rng, depth=rng.choice([0, 1, 2, 3, 4]))
      wild = rng.choice([0.0, 0.3, 0.6, 0.9])
      text, used = gen.render_value(rng, v, wild=wild, multiline=True, dup_keys=True)
      yield {'entry': entry, 'text': text, 'op': None, 'used': sorted(used), 'kinds': sorted(gen.kinds_in(v))}
    else:
      base_v = gen.gen_value(rng, depth=rng.choice([0, 0, 1]))
      base, _ = gen.render_value(rng, base_v, wild=0.2, multiline=False)
      if '\n' in base:
        base = '1'
      text, op = gen.near_miss(rng, base, gen.NEAR_OPS[i % len(gen.NEAR_OPS)] if r < 0.9 else None)
      if entry == 'parse_value':
        entry = 'flat'
      yield {'entry': entry, 'text': text, 'op': op, 'used': [], 'kinds': []}


def _statement(entry, text):
  if entry == 'flat':
    return 'C02P.p = ' + text + '\n', 'C02P.p'
  if entry == 'flat-noeol':
    return 'C02P.q = 0\nC02P.p =' + text, 'C02P.p'
  if entry == 'scoped':
    return 's1/s2/vf.c02.C02P.p\t=\t' + text + '  # trailing comment\n', 's1/s2/C02P.p'
  if entry == 'block':
    return 's1/C02P:\n  # block\n  p = ' + text + '\n', 's1/C02P.p'
  if entry == 'macro':
    return 'C02M = ' + text + '\n', '%C02M'
  raise ValueError(entry)


def classify_violation(case, what):
  """Mechanism keys (for known_findings.json): keyed by construct, never by value."""
  used = set(case.get('used') or [])
  text = case['text']
  if what in ('rejected-valid', 'wrong-value') and (used & {'adjacent-2', 'adjacent-3', 'adjacent-4'}):
    return what + ':adjacent-string-pieces'
  if what == 'accepted-near-miss' and case.get('op') == 'minus-nonnumber' and ('@' in text or '%' in text):
    return what + ':minus-before-reference-or-macro'
  if what == 'accepted-near-miss':
    return what + ':' + str(case.get('op'))
  return what


def run_case(ctx, case):
  import gin
  from gin import config as gc
  text, entry = case['text'], case['entry']
  cls = gen.classify(text)
  if entry == 'parse_value' and cls != 'in':
    entry = 'flat'  # parse_value() reads one value and, by design, does not look at what follows
  ctx.bucket('entry:' + entry)
  ctx.bucket('class:' + cls)
  if case['op']:
    ctx.bucket('near-op:' + case['op'])
  for u in case['used']:
    ctx.bucket('layout:' + u)
  ctx.fp(entry, cls, case['op'], tuple(case['used']), tuple(case['kinds']))
  ctx.sample({'entry': entry, 'class': cls, 'op': case['op'], 'text': text[:200]}, cap=6)

  expected = None
  if cls in ('in', 'grey'):
    try:
      expected = ast.literal_eval(text.strip())
      has_expected = True
    except Exception:  # pylint: disable=broad-except
      has_expected = False  # Python cannot evaluate it as a literal (e.g. set of unhashables)
  else:
    has_expected = False

  gin.clear_config()
  exc = None
  try:
    if entry == 'parse_value':
      got = gc.parse_value(text.strip())
    else:
      stmt, qkey = _statement(entry, text)
      gin.parse_config(stmt)
      got = gin.query_parameter(qkey)
  except BaseException as e:  # pylint: disable=broad-except
    exc = e

  if cls == 'in':
    if not has_expected:
      ctx.count('generator_skips')
      return
    if exc is not None:
      ctx.check(False, classify_violation(case, 'rejected-valid'),
                'in-grammar literal rejected: %r -> %s: %s' % (text, type(exc).__name__, str(exc)[:200]),
                {'text': text, 'python_value': repr(expected)})
      return
    ok = ctx.check(teq(got, expected), classify_violation(case, 'wrong-value'),
                   'literal %r parsed to %r but Python evaluates it to %r' % (text, got, expected),
                   {'text': text, 'gin': repr(got), 'python': repr(expected)})
    if ok:
      ctx.count('accepted_equal')
    return

  if cls == 'grey':
    ctx.count('oracle_evals')
    if exc is None:
      if not (has_expected and teq(got, expected)):
        ctx.violation('grey-accepted-other-value', 'text %r accepted as %r; Python: %s' %
                      (text, got, repr(expected) if has_expected else 'not a literal'))
    elif not isinstance(exc, (SyntaxError, tokenize.TokenError)):
      ctx.violation('wrong-exception-type', 'text %r raised %s: %s' % (text, type(exc).__name__, exc))
    return

  # near / invalid: must be rejected with a syntax or tokenizer error, and nothing bound
  if exc is None:
    ctx.check(False, classify_violation(case, 'accepted-near-miss'),
              'text outside the literal grammar accepted: %r -> %r (entry %s)' % (text, got, entry),
              {'text': text, 'gin': repr(got)})
    return
  if not ctx.check(isinstance(exc, (SyntaxError, tokenize.TokenError)), 'wrong-exception-type',
                   'text %r raised %s (%s), not a syntax/tokenizer error' % (text, type(exc).__name__, str(exc)[:300])):
    return
  ctx.count('rejected_as_required')
  if entry != 'parse_value':
    bound = {k: v for k, v in gc._CONFIG.items() if 'p' in v or 'value' in v}
    ctx.check(not bound, 'binding-left-after-rejection',
              'rejected statement %r left a binding: %r' % (text, bound))

LEVEL_TEXT = ('Differential runtime monitor: ~28k (quick) / ~1.3M (thorough) generated literal texts and near-misses per run are '
              'fed to the real parser through five entry paths and compared with CPython (ast.literal_eval, typed equality); '
              'every layout feature, string prefix/escape kind and mutation operator is a required coverage bucket.')
LEVEL_NOTE = 'Trusted: CPython ast/tokenize as reference; the independent in-grammar classifier in vf/gen.py; sampling, not enumeration.'
TECHNIQUE = 'runtime differential monitor against ast.literal_eval over generated layouts and near-miss mutations'
DESIGN_REF = 'DESIGN.md section 4, C02'
