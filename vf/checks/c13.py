"""C13 — registration is transparent to the registered function or class."""
import abc
import collections
import functools
import inspect
import itertools
import pickle
import sys
import types
import typing

from vf import probes

ID = 'C13'
LEVEL = 'exploration'
RULE = ('callable kinds (function, lambda, builtin sum, method descriptor str.split, slot wrapper dict.__init__, method-wrapper {}.__init__, callable '
        'instance, functools.partial, function under 1-2 functools.wraps-style decorators, functools.lru_cache wrapper) and class shapes (__init__, __new__, both, neither, custom '
        'metaclass with __call__, __slots__, collections.namedtuple, typing.NamedTuple, ABC subclass, class with registered methods, class holding a '
        'registered plain function as attribute, __init__/__new__ under a wraps-style decorator, constructor inherited from a @gin.configurable base) '
        'x optional valid allow/deny list x {configurable, '
        'register, external_configurable, config text under dynamic registration} x decorator/call form x name/module overrides x access path (returned '
        'object, original object (also looked up inside an active scope), selector, scoped selector, @reference, scoped @reference); oracles: original untouched and direct calls receive nothing '
        '(register/external/dynamic; re-checked after the registry versions were used and inside an active scope), the '
        'registry version receives bindings (registered methods of a class through its instances), metadata/signature preserved, every class version '
        '(scoped ones too) is a subclass with the same name/module/doc, instance/type identity, pickle round trip whenever the original '
        'pickles, rejected registrations (5 kinds x function/class/class with registered methods/decorated function/class with decorated or inherited-configurable constructor x 3 APIs, outside and inside interactive mode) leave '
        'the registry and the target unchanged, re-registration (function or class, 3 APIs) only inside interactive mode (block exit by return, '
        'Class shapes include a class that replaces an inherited registered method by a non-method attribute (nothing left to override: exact class, pickles). '
        'Exception, KeyboardInterrupt, SystemExit, GeneratorExit). distinct = (kind, api, form, overrides, access path)')
TIERS = {
    'quick': {'workers': 8, 'cases': 1750, 'timeout': 600},
    'thorough': {'workers': 16, 'cases': 9000, 'timeout': 3000},
}
KINDS = ['function', 'lambda', 'builtin', 'callable-instance', 'partial', 'cls-init', 'cls-new', 'cls-both', 'cls-neither', 'cls-meta', 'cls-slots',
         'cls-namedtuple', 'cls-typing-namedtuple', 'cls-abc', 'cls-methods', 'cls-final', 'cls-meta-kwargs',
         'method-descriptor', 'wrapper-descriptor', 'method-wrapper', 'cls-helper-attr', 'cls-shadows-registered-method',
         # shapes whose function (or construction function) is itself the product of a functools.wraps-style decorator, i.e. carries `__wrapped__`
         # and a (*args, **kwargs) signature of its own; and a class that inherits its constructor from a @gin.configurable base class
         'function-wrapped', 'lru-cache', 'cls-init-wrapped', 'cls-new-wrapped', 'cls-inherits-configurable']
WRAPPED_KINDS = ('function-wrapped', 'lru-cache', 'cls-init-wrapped', 'cls-new-wrapped', 'cls-inherits-configurable')
# kinds whose original carries no usable __module__ / __name__ of its own: registered under an explicit name (and module)
NAMELESS_KINDS = ('builtin', 'partial', 'callable-instance', 'method-descriptor', 'wrapper-descriptor', 'method-wrapper')
UNSUBCLASSABLE = ('cls-final', 'cls-meta-kwargs')
REJECTS = ['invalid-name', 'invalid-module', 'different-object-same-name', 'unknown-in-list', 'both-lists']
REJECT_TARGETS = ['function', 'class', 'class-with-registered-method', 'wrapped-function', 'class-with-wrapped-constructor',
                  'class-inheriting-configurable-constructor']
INTERACTIVE = ['context-manager', 'enter-exit', 'exit-by-exception', 'exit-by-KeyboardInterrupt', 'exit-by-SystemExit', 'exit-by-GeneratorExit']
APIS = ['configurable', 'register', 'external']
# dynamic registration (config text `import m` / `m.K.x = 3`) registers like gin.register; kinds reachable as a module attribute with a parameter
DYNAMIC_KINDS = ('function', 'lambda', 'callable-instance', 'partial', 'cls-init', 'cls-new', 'cls-both', 'cls-meta', 'cls-slots', 'cls-namedtuple',
                 'cls-typing-namedtuple', 'cls-abc', 'cls-methods', 'cls-helper-attr', 'cls-shadows-registered-method') + WRAPPED_KINDS
ENABLE_DYNAMIC_REGISTRATION = True
REQUIRED_BUCKETS = (['kind:' + k for k in KINDS] + ['api:configurable', 'api:register', 'api:external', 'form:decorator', 'form:call', 'override:name',
                    'override:module', 'override:dotted-name', 'path:returned', 'path:object', 'path:selector', 'path:scoped-selector', 'path:reference',
                    'path:scoped-reference', 'pickle:roundtrip', 'direct-call:no-injection', 'reject:invalid-name', 'reject:invalid-module',
                    'reject:different-object-same-name', 'reject:unknown-in-list', 'reject:both-lists', 'interactive:context-manager',
                    'interactive:enter-exit', 'interactive:exit-by-exception', 'type-identity', 'reject:class-with-registered-method',
                    'interactive:exit-by-KeyboardInterrupt', 'interactive:exit-by-SystemExit', 'interactive:exit-by-GeneratorExit',
                    'interactive-target:class', 'interactive-api:configurable', 'interactive-api:external',
                    'reject:inside-interactive-mode', 'scoped-class-version:metadata', 'registered-method:through-registry-version',
                    'recheck:after-registry-use', 'recheck:inside-active-scope', 'metadata:non-function-callable', 'api:dynamic-registration'] +
                    ['reject-target:' + t for t in REJECT_TARGETS] + ['reject-cell:unknown-in-list:%s:plain' % t for t in REJECT_TARGETS] +
                    ['path:object-in-active-scope', 'lists:valid-allowlist', 'lists:valid-denylist'])
ORACLE_COUNTERS = ['oracle_evals', 'registrations', 'rejections_checked']
_n = itertools.count(1)
_S = {}


def setup(ctx):
  import gin
  mod = types.ModuleType('vfc13mod')
  sys.modules['vfc13mod'] = mod
  _S['mod'] = mod
  _S['cons'] = probes.build({'shape': 'fn', 'api': 'configurable', 'name': 'c13cons', 'module': 'c13', 'pos': [], 'dflt': [['v', None]], 'varargs': False,
                             'kwonly': [], 'varkw': False})


class Spec:
  """One original: the object, the parameter bound through gin, how to call it and what a call must deliver."""

  def __init__(self, orig, param, extract, is_class, explicit, call=None, vals=(41, 42), expect=None, direct=0, shared=False):
    self.orig, self.param, self.extract, self.is_class, self.explicit = orig, param, extract, is_class, explicit
    self.call = call or (lambda fn: fn())
    self.vals = vals                      # values bound at the root and in scope sc/ope
    self.expect = expect or (lambda v: v)  # bound value -> what extract(call(version)) must give
    self.direct = direct                  # what extract(call(original)) gives without injection
    self.shared = shared                  # the same object in every case (a builtin): no identity-based lookups

  def __iter__(self):    # (original, param, extract, is_class, needs_explicit_name)
    return iter((self.orig, self.param, self.extract, self.is_class, self.explicit))

  def __getitem__(self, i):
    return tuple(self)[i]


def _traced(fn):
  """An ordinary third-party style decorator: the result has the signature (*args, **kwargs) and links to `fn` through `__wrapped__`."""
  @functools.wraps(fn)
  def wrapper(*args, **kwargs):
    return fn(*args, **kwargs)
  return wrapper


def _traced_by_hand(fn):
  """The same without functools.wraps: metadata copied and `__wrapped__` set by hand."""
  def wrapper(*args, **kwargs):
    return fn(*args, **kwargs)
  for a in ('__name__', '__qualname__', '__doc__', '__module__'):
    setattr(wrapper, a, getattr(fn, a))
  wrapper.__wrapped__ = fn
  return wrapper


def make_original(kind, name, variant=0):
  """Returns a Spec (iterable as (original, param name or None, extract(result)->value of param, is_class, needs_explicit_name)).

  `variant` varies what a shape leaves open (decorator depth and style, constructor of the inherited base)."""
  mod = _S['mod']
  g = mod.__dict__
  g.setdefault('functools', functools)
  g['traced'] = _traced if variant % 4 < 2 else _traced_by_hand
  deco = '@traced\n' * (1 + variant % 2)
  if kind == 'function-wrapped':
    exec('%sdef %s(x=0, y="d"):\n  """doc of %s"""\n  return ("fw", x, y)\n' % (deco, name, name), g)
    return Spec(g[name], 'x', lambda r: r[1], False, False)
  if kind == 'lru-cache':      # a C-level callable object with __name__, __module__ and __wrapped__ (optionally over a decorated function)
    exec('@functools.lru_cache(maxsize=None)\n%sdef %s(x=0, y="d"):\n  """doc of %s"""\n  return ("lru", x, y)\n' % (
        deco if variant % 4 >= 2 else '', name, name), g)
    return Spec(g[name], 'x', lambda r: r[1], False, False)
  if kind == 'cls-init-wrapped':
    ind = deco.replace('@', '  @')
    exec('class %s:\n  """doc of %s"""\n%s  def __init__(self, x=0, y="d"):\n    self.x = x\n    self.y = y\n' % (name, name, ind), g)
    return Spec(g[name], 'x', lambda r: r.x, True, False)
  if kind == 'cls-new-wrapped':
    ind = deco.replace('@', '  @')
    exec('class %s:\n  """doc of %s"""\n%s  def __new__(cls, x=0, y="d"):\n    o = object.__new__(cls)\n    o.x = x\n    return o\n' % (name, name, ind), g)
    return Spec(g[name], 'x', lambda r: r.x, True, False)
  if kind == 'cls-inherits-configurable':
    # the base class is @gin.configurable (Gin wrapped its constructor in place, nothing is bound for it); the class under test inherits that constructor
    import gin
    ctor = ('  def __init__(self, x=0, y="d"):\n    self.x = x\n' if variant % 2 == 0 else
            '  def __new__(cls, x=0, y="d"):\n    o = object.__new__(cls)\n    o.x = x\n    return o\n')
    exec('class %sBase:\n%s' % (name, ctor), g)
    if variant % 4 < 2:
      g[name + 'Base'] = gin.configurable(g[name + 'Base'])
    else:
      g[name + 'Base'] = gin.configurable('B' + name, module='c13.bases')(g[name + 'Base'])
    exec('class %s(%sBase):\n  """doc of %s"""\n' % (name, name, name), g)
    return Spec(g[name], 'x', lambda r: r.x, True, False)
  g.setdefault('abc', abc)
  g.setdefault('collections', collections)
  g.setdefault('typing', typing)
  if kind == 'function':
    exec('def %s(x=0, y="d"):\n  """doc of %s"""\n  return ("f", x, y)\n' % (name, name), g)
    return Spec(g[name], 'x', lambda r: r[1], False, False)
  if kind == 'lambda':
    exec('%s = lambda x=0: ("lam", x)\n' % name, g)
    return Spec(g[name], 'x', lambda r: r[1], False, True)
  if kind == 'builtin':
    return Spec(sum, 'start', lambda r: r, False, True, call=lambda fn: fn([1, 2]), expect=lambda v: v + 3, direct=3, shared=True)
  if kind == 'method-descriptor':     # type(str.split): not a builtin function, no __module__
    return Spec(str.split, 'sep', tuple, False, True, call=lambda fn: fn('a-b+c'), vals=('-', '+'),
                expect=lambda v: tuple('a-b+c'.split(v)), direct=('a-b+c',), shared=True)
  if kind == 'wrapper-descriptor':    # type(object.__init__): a slot wrapper; dict.__init__(d, x=..) stores x in d
    box = {}

    def call_wd(fn):
      box.clear()
      return fn(box)
    return Spec(dict.__init__, 'x', lambda r: box.get('x', 0), False, True, call=call_wd, shared=True)
  if kind == 'method-wrapper':        # type(object().__str__): a slot wrapper bound to an instance
    box = {}
    g[name] = box

    def call_mw(fn):
      box.clear()
      return fn()
    return Spec(box.__init__, 'x', lambda r: box.get('x', 0), False, True, call=call_mw)
  if kind == 'callable-instance':
    exec('class %sC:\n  """doc of %sC"""\n  def __call__(self, x=0):\n    return ("inst", x)\n%s = %sC()\n' % (name, name, name, name), g)
    return Spec(g[name], 'x', lambda r: r[1], False, True)
  if kind == 'partial':
    exec('def %s_base(a, x=0):\n  return ("part", a, x)\n' % name, g)
    g[name] = functools.partial(g[name + '_base'], 'A')
    return Spec(g[name], 'x', lambda r: r[2], False, True)
  if kind == 'cls-init':
    src = 'class %s:\n  """doc of %s"""\n  def __init__(self, x=0, y="d"):\n    self.x = x\n    self.y = y\n'
  elif kind == 'cls-new':
    src = 'class %s:\n  """doc of %s"""\n  def __new__(cls, x=0):\n    o = object.__new__(cls)\n    o.x = x\n    return o\n'
  elif kind == 'cls-both':
    src = ('class %s:\n  """doc of %s"""\n  def __new__(cls, *a, **k):\n    o = object.__new__(cls)\n    o.new_called = True\n    return o\n'
           '  def __init__(self, x=0):\n    self.x = x\n')
  elif kind == 'cls-neither':
    src = 'class %s:\n  """doc of %s"""\n  x = 0\n'
  elif kind == 'cls-meta':
    src = ('class %sMeta(type):\n  def __call__(cls, *a, **k):\n    o = super().__call__(*a, **k)\n    o.meta_called = True\n    return o\n'
           'class %s(metaclass=%sMeta):\n  """doc of %s"""\n  def __init__(self, x=0):\n    self.x = x\n') % (name, name, name, name)
    exec(src, g)
    return Spec(g[name], 'x', lambda r: r.x, True, False)
  elif kind == 'cls-slots':
    src = 'class %s:\n  """doc of %s"""\n  __slots__ = ("x",)\n  def __init__(self, x=0):\n    self.x = x\n'
  elif kind == 'cls-namedtuple':
    exec('%s = collections.namedtuple(%r, ["x", "y"], defaults=[0, "d"])\n%s.__module__ = "vfc13mod"\n' % (name, name, name), g)
    return Spec(g[name], 'x', lambda r: r.x, True, False)
  elif kind == 'cls-typing-namedtuple':
    src = 'class %s(typing.NamedTuple):\n  """doc of %s"""\n  x: int = 0\n  y: str = "d"\n'
  elif kind == 'cls-abc':
    src = ('class %sBase(abc.ABC):\n  @abc.abstractmethod\n  def go(self):\n    pass\n'
           'class %s(%sBase):\n  """doc of %s"""\n  def __init__(self, x=0):\n    self.x = x\n  def go(self):\n    return self.x\n') % (name, name, name, name)
    exec(src, g)
    return Spec(g[name], 'x', lambda r: r.x, True, False)
  elif kind == 'cls-final':
    src = ('class %s:\n  \"\"\"doc of %s\"\"\"\n  def __init__(self, x=0):\n    self.x = x\n'
           '  def __init_subclass__(cls, **kw):\n    raise TypeError("this class must not be subclassed")\n')
  elif kind == 'cls-meta-kwargs':
    src = ('class %sMeta(type):\n  def __new__(mcs, name, bases, ns, *, flavour):\n    return super().__new__(mcs, name, bases, ns)\n'
           '  def __init__(cls, name, bases, ns, *, flavour):\n    super().__init__(name, bases, ns)\n'
           'class %s(metaclass=%sMeta, flavour="x"):\n  \"\"\"doc of %s\"\"\"\n  def __init__(self, x=0):\n    self.x = x\n') % (name, name, name, name)
    exec(src, g)
    return Spec(g[name], 'x', lambda r: r.x, True, False)
  elif kind == 'cls-methods':
    import gin
    src = 'class %s:\n  """doc of %s"""\n  def __init__(self, x=0):\n    self.x = x\n  def meth_%s(self, m=0):\n    return ("meth", m)\n'
    exec(src % (name, name, name), g)
    cls = g[name]
    gin.register(cls.__dict__['meth_' + name])
    return Spec(cls, 'x', lambda r: r.x, True, False)
  elif kind == 'cls-shadows-registered-method':
    # the (unregistered) base class has a Gin-registered method; the class under test replaces that name by something that is no method
    # (None, a property, a class attribute): it has no registered method left, so nothing needs overriding
    import gin
    shadow = ('None', 'property(lambda self: ("shadow", 0))', '("plain", "attribute")', 'classmethod(lambda cls: ("cm", 0))')[variant % 4]
    src = ('class %sBase:\n  def __init__(self, x=0):\n    self.x = x\n  def sm_%s(self, m=0):\n    return ("meth", m)\n'
           'class %s(%sBase):\n  """doc of %s"""\n  sm_%s = %s\n')
    exec(src % (name, name, name, name, name, name, shadow), g)
    gin.register(g[name + 'Base'].__dict__['sm_' + name])
    return Spec(g[name], 'x', lambda r: r.x, True, False)
  elif kind == 'cls-helper-attr':
    # a plain function known to gin that is merely stored on the class: not a method of it, so nothing needs overriding
    import gin
    src = ('def h_%s(a=0):\n  return ("helper", a)\n'
           'class %s:\n  """doc of %s"""\n  h_%s = staticmethod(h_%s)\n  def __init__(self, x=0):\n    self.x = x\n')
    exec(src % (name, name, name, name, name), g)
    gin.register(g['h_' + name])
    return Spec(g[name], 'x', lambda r: r.x, True, False)
  exec(src % (name, name), g)
  cls = g[name]
  return Spec(cls, ('x' if kind != 'cls-neither' else None), (lambda r: r.x), True, False)


def snapshot(obj, is_class):
  if is_class:
    # ('__slotnames__' is a cache copyreg stores on a class when this harness pickles an instance)
    return {k: v for k, v in vars(obj).items() if k != '__slotnames__'}, obj.__bases__, type(obj)
  if isinstance(obj, types.FunctionType):
    return dict(vars(obj)), obj.__code__, obj.__defaults__, obj.__kwdefaults__, obj.__name__, obj.__doc__
  try:
    return repr(type(obj)), dict(vars(obj))     # a callable object: its own attributes (`__wrapped__` of an lru_cache wrapper among them)
  except TypeError:
    return (repr(type(obj)),)


def snap_equal(a, b):
  if len(a) != len(b):
    return False
  for x, y in zip(a, b):
    if isinstance(x, dict):
      if set(x) != set(y) or any(x[k] is not y[k] for k in x):
        return False
    elif x is not y and x != y:
      return False
  return True


def iter_cases(ctx, rng, n):
  for i in range(n):
    kind = KINDS[i % len(KINDS)]
    api = APIS[(i // len(KINDS)) % 3]
    yield {'kind': kind, 'api': api, 'form': rng.choice(['decorator', 'call']), 'name_override': rng.choice([None, None, 'plain', 'dotted']),
           'module_override': rng.random() < 0.5, 'paths': rng.sample(['returned', 'object', 'selector', 'scoped-selector', 'reference', 'scoped-reference'], 3),
           'reject': rng.choice(REJECTS + [None]),
           'reject_target': rng.choice(REJECT_TARGETS), 'reject_interactive': rng.random() < 0.4, 'reject_variant': rng.randrange(6),
           'interactive': rng.choice(INTERACTIVE + [None, None, None, None]),
           'interactive_api': rng.choice(APIS), 'interactive_target': rng.choice(['function', 'class']),
           'again': rng.random() < 0.33, 'equal_callables': rng.random() < 0.5, 'dynamic': rng.random() < 0.2,
           'shape_variant': rng.randrange(4), 'lists': rng.choice([None, None, None, None, 'allow', 'deny'])}


def do_register(gin, api, form, orig, name, module, explicit_name, **lists):
  kw = dict(lists)
  if module is not None:
    kw['module'] = module
  if api == 'external':
    return gin.external_configurable(orig, name=name, **kw) if name is not None else gin.external_configurable(orig, **kw)
  dec = gin.configurable if api == 'configurable' else gin.register
  if name is None and not kw and form == 'decorator' and not explicit_name:
    return dec(orig)           # bare decorator form
  return dec(name, **kw)(orig)   # parametrised form


def sig_of(obj):
  try:
    return inspect.signature(obj)
  except (ValueError, TypeError):
    return None


def class_version_ok(ver, orig):
  """A configurable version of a class is a class, a subclass of the original, with its name, module and docstring."""
  return (inspect.isclass(ver) and issubclass(ver, orig) and ver.__name__ == orig.__name__ and ver.__module__ == orig.__module__ and
          ver.__doc__ == orig.__doc__)


def run_case(ctx, case):
  import gin
  gin.clear_config()
  n = next(_n)
  kind, api = case['kind'], case['api']
  base = 'T%d_%s' % (n, ctx.uid)
  spec = make_original(kind, base, case.get('shape_variant', 0))
  orig, param, extract, is_class, explicit = spec
  call = spec.call
  ctx.bucket('kind:' + kind)
  ctx.bucket('api:' + api)
  ctx.bucket('form:' + case['form'])
  name = None
  if case['name_override'] == 'plain':
    name = 'N' + base
    ctx.bucket('override:name')
  elif case['name_override'] == 'dotted':
    name = 'dm.sub.N' + base
    ctx.bucket('override:dotted-name')
  elif explicit:
    name = 'N' + base
  module = None
  if case['module_override'] or (kind in NAMELESS_KINDS and name is not None and '.' not in name):
    module = 'c13.over'
    ctx.bucket('override:module')
  reg_name = name if name is not None else getattr(orig, '__name__', base)
  if module is not None:
    full = module + '.' + reg_name
  elif '.' in reg_name:
    full = reg_name
  else:
    full = (getattr(orig, '__module__', None) or '') + ('.' if getattr(orig, '__module__', None) else '') + reg_name
  before = snapshot(orig, is_class)
  orig_name, orig_doc, orig_mod = getattr(orig, '__name__', None), getattr(orig, '__doc__', None), getattr(orig, '__module__', None)
  orig_qual = getattr(orig, '__qualname__', None)
  orig_sig = sig_of(orig)
  # a valid allow/deny list (naming real parameters only) accompanies the registration: accepted, and the bound parameter stays configurable
  lists = {}
  if case.get('lists') and param is not None and orig_sig is not None and kind not in UNSUBCLASSABLE:
    names = [p for p in orig_sig.parameters if orig_sig.parameters[p].kind in (inspect.Parameter.POSITIONAL_OR_KEYWORD, inspect.Parameter.KEYWORD_ONLY)]
    if case['lists'] == 'allow' and param in names:
      lists = {'allowlist': [param]}
      ctx.bucket('lists:valid-allowlist')
    elif case['lists'] == 'deny' and [p for p in names if p != param]:
      lists = {'denylist': [p for p in names if p != param][-1:]}
      ctx.bucket('lists:valid-denylist')
  ctx.count('registrations')
  if kind in UNSUBCLASSABLE and api in ('register', 'external'):
    # a class that cannot be subclassed dynamically: registration may be refused, but must never fall back to altering the class
    try:
      ret = do_register(gin, api, case['form'], orig, name, module, explicit)
    except (TypeError, ValueError):
      ctx.bucket('unsubclassable:registration-refused')
      ctx.check(snap_equal(before, snapshot(orig, is_class)), 'registration-altered-original', 'refused registration of %s altered the class' % kind)
      ctx.check(extract(orig()) == 0, 'direct-call-received-injected-value', 'direct construction after refused registration')
      try:
        gin.get_configurable(orig)
        ctx.check(False, 'rejected-registration-left-inverse-entry', 'refused registration left %s known to the registry' % kind)
      except ValueError:
        ctx.count('oracle_evals')
      ctx.fp(kind, api, 'refused')
      return
  else:
    try:
      ret = do_register(gin, api, case['form'], orig, name, module, explicit, **lists)
    except Exception as e:  # pylint: disable=broad-except
      ctx.check(False, 'registration-failed', 'gin.%s of a %s (%r) as %s %sraised %s: %s' % (
          api, kind, type(orig).__name__, full, ('with %r ' % (lists,)) if lists else '', type(e).__name__, str(e)[:200]))
      return
  ctx.fp(kind, api, case['form'], case['name_override'], case['module_override'], tuple(sorted(case['paths'])), case['reject'], case['interactive'])
  ctx.sample({'kind': kind, 'api': api, 'registered_as': full, 'paths': case['paths']}, cap=4)

  # ---- what registration returns / leaves alone
  if api == 'register':
    ctx.check(ret is orig, 'register-returned-other-object', 'gin.register returned %r, not the original' % (ret,))
  if api in ('register', 'external') and not spec.shared:
    ctx.check(snap_equal(before, snapshot(orig, is_class)), 'registration-altered-original',
              '%s altered the %s it was given: %r -> %r' % (api, kind, before, snapshot(orig, is_class)))
  try:
    conf = ret if api != 'register' else gin.get_configurable(orig)
  except Exception as e:  # pylint: disable=broad-except
    ctx.check(False, 'registry-version-lookup-failed', 'after gin.register of a %s, gin.get_configurable(<the original object>) raised %s: %s' % (
        kind, type(e).__name__, str(e)[:200]))
    return
  if api == 'configurable' and not is_class:
    # name (when the original has one), docstring and signature (when the original has one)
    if kind not in ('function', 'lambda'):
      ctx.bucket('metadata:non-function-callable')
    name_ok = orig_name is None or getattr(conf, '__name__', None) == orig_name
    conf_sig = sig_of(conf)
    ctx.check(name_ok and getattr(conf, '__doc__', None) == orig_doc and (orig_sig is None or conf_sig == orig_sig),
              'configurable-metadata-differs', 'gin.configurable result for a %s (%s) has name %r doc %r signature %s; original %r %r %s' %
              (kind, type(orig).__name__, getattr(conf, '__name__', None), getattr(conf, '__doc__', None), conf_sig, orig_name, orig_doc, orig_sig))
  if api == 'configurable' and is_class and orig_sig is not None:
    ctx.check(conf.__name__ == orig_name and conf.__doc__ == orig_doc and inspect.signature(conf) == orig_sig,
              'configurable-metadata-differs' if kind != 'cls-neither' else 'configurable-class-without-constructor-changes-signature',
              'gin.configurable class: name %r doc %r signature %s; original %r %r %s' % (conf.__name__, conf.__doc__, inspect.signature(conf), orig_name, orig_doc, orig_sig))
  if is_class:
    ctx.check(issubclass(conf, orig) and conf.__name__ == orig_name and conf.__module__ == orig_mod and conf.__doc__ == orig_doc and
              conf.__qualname__ == orig_qual, 'configurable-class-metadata',
              'configurable class: subclass=%s name=%r module=%r doc=%r qualname=%r (original %r %r %r %r)' %
              (issubclass(conf, orig), conf.__name__, conf.__module__, conf.__doc__, conf.__qualname__, orig_name, orig_mod, orig_doc, orig_qual))

  # ---- bindings reach the registry version only
  if param is not None:
    v_root, v_scoped = spec.vals
    gin.bind_parameter((u'', full, param), v_root)
    gin.bind_parameter(('sc/ope', full, param), v_scoped)
    meth = None
    if kind == 'cls-methods' and api in ('register', 'external'):
      # the class's registered method was renamed to <class selector>.<method>; instances built through the registry's class version call the
      # registry's version of the method (which receives bindings), instances of the original class call the original function
      meth = 'meth_' + base
      gin.bind_parameter((u'', full + '.' + meth, 'm'), 7)
      gin.bind_parameter(('sc/ope', full + '.' + meth, 'm'), 8)
    if api in ('register', 'external'):
      ctx.bucket('direct-call:no-injection')
      direct = extract(call(orig))
      ctx.check(direct == spec.direct, 'direct-call-received-injected-value', 'direct call of the original %s saw %r' % (kind, direct))
      if meth:
        got = getattr(orig(), meth)()
        ctx.check(got == ('meth', 0), 'direct-call-received-injected-value', 'a registered method called on a directly built instance returned %r' % (got,))
    for path in case['paths']:
      if kind in UNSUBCLASSABLE and path in ('scoped-selector', 'scoped-reference'):
        continue  # a scoped version needs a dynamic subclass, which these shapes forbid (outside the stated shapes)
      ctx.bucket('path:' + path)
      want = v_root
      if path == 'returned' and api == 'register':
        continue
      try:
        if path == 'returned':
          obj = ret
        elif path == 'object':
          obj = gin.get_configurable(orig if api != 'configurable' or not is_class else ret) if not spec.shared else gin.get_configurable(full)
        elif path == 'selector':
          obj = gin.get_configurable(full)
        elif path == 'scoped-selector':
          obj = gin.get_configurable('sc/ope/' + full)
          want = v_scoped
        elif path == 'reference':
          gin.parse_config('c13cons.v = @%s' % full)
          obj = _S['cons'].conf()[0:0] or probes.RECORDER.log[-1].received['v']
        else:
          want = v_scoped
          gin.parse_config('c13cons.v = @sc/ope/%s' % full)
          _S['cons'].conf()
          obj = probes.RECORDER.log[-1].received['v']
      except Exception as e:  # pylint: disable=broad-except
        ctx.check(False, 'registry-version-lookup-failed', 'the registry version of a %s (%s) could not be reached via %s: %s: %s' % (
            kind, api, path, type(e).__name__, str(e)[:200]))
        continue
      if is_class:
        if want == v_scoped:
          ctx.bucket('scoped-class-version:metadata')
        ctx.check(class_version_ok(obj, orig), 'configurable-class-metadata',
                  'the version of a %s class reached via %s is %r (class=%s, subclass of the original=%s, name %r module %r doc %r; original %r %r %r)' % (
                      kind, path, obj, inspect.isclass(obj), inspect.isclass(obj) and issubclass(obj, orig), getattr(obj, '__name__', None),
                      getattr(obj, '__module__', None), getattr(obj, '__doc__', None), orig_name, orig_mod, orig_doc))
      try:
        res = call(obj)
      except Exception as e:  # pylint: disable=broad-except
        ctx.check(False, 'registry-version-call-failed', '%s/%s via %s raised %s: %s' % (kind, api, path, type(e).__name__, str(e)[:200]))
        continue
      got = extract(res)
      ctx.check(got == spec.expect(want), 'registry-version-not-injected', '%s/%s via %s received %r, bound value %r' % (kind, api, path, got, spec.expect(want)))
      if is_class:
        ctx.check(isinstance(res, orig), 'instance-not-of-original-class', '%s via %s built a %r' % (kind, path, type(res)))
        if meth:
          ctx.bucket('registered-method:through-registry-version')
          try:
            mgot = getattr(res, meth)()
          except Exception as e:  # pylint: disable=broad-except
            mgot = 'raised %s: %s' % (type(e).__name__, str(e)[:200])
          # (whether a method of an instance built through a *scoped* class version runs in that scope is not pinned down: there, the
          # scope's value and the root value both count as injected)
          m_ok = [('meth', 7)] if want == v_root else [('meth', 8), ('meth', 7)]
          ctx.check(mgot in m_ok, 'registered-method-not-injected',
                    'registered method called on an instance built via %s (%s) returned %r, bound value %r' % (path, api, mgot, m_ok[0][1]))
        if kind != 'cls-methods':
          ctx.bucket('type-identity')
          ctx.check(type(res) is orig, 'instance-type-not-exactly-original', '%s/%s via %s: type(instance) is %r' % (kind, api, path, type(res)))
          try:
            ref = pickle.dumps(orig() if kind != 'cls-neither' else orig())
            pick_ok = True
          except Exception:  # pylint: disable=broad-except
            pick_ok = False
          if pick_ok:
            ctx.bucket('pickle:roundtrip')
            try:
              back = pickle.loads(pickle.dumps(res))
              ctx.check(type(back) is orig and extract(back) == got, 'pickle-roundtrip-differs', 'unpickled %r' % (back,))
            except Exception as e:  # pylint: disable=broad-except
              ctx.check(False, 'instance-does-not-pickle', '%s/%s via %s: instance does not pickle (%s) although the original does' % (kind, api, path, e))
        if kind == 'cls-meta':
          ctx.check(getattr(res, 'meta_called', False), 'metaclass-call-bypassed', 'custom metaclass __call__ not run')

    # ---- the same oracles once more, after the registry's versions (scoped ones too) were built and used, and inside an active scope
    if api in ('register', 'external'):
      ctx.bucket('recheck:after-registry-use')
      if kind not in UNSUBCLASSABLE:
        try:
          got = extract(call(gin.get_configurable('sc/ope/' + full)))
          ctx.check(got == spec.expect(v_scoped), 'registry-version-not-injected', '%s/%s via a scoped selector received %r' % (kind, api, got))
        except Exception as e:  # pylint: disable=broad-except
          ctx.check(False, 'registry-version-call-failed', '%s/%s via a scoped selector raised %s: %s' % (kind, api, type(e).__name__, str(e)[:200]))
      if not spec.shared:
        ctx.check(snap_equal(before, snapshot(orig, is_class)), 'registration-altered-original',
                  'using the registry versions (selector, scoped selector, reference) of a %s registered by %s altered the original: %r -> %r' % (
                      kind, api, before, snapshot(orig, is_class)))
      direct = extract(call(orig))
      ctx.check(direct == spec.direct, 'direct-call-received-injected-value',
                'direct call of the original %s after its registry versions were used saw %r' % (kind, direct))
      ctx.bucket('recheck:inside-active-scope')
      via_obj = None
      with gin.config_scope('sc/ope'):
        direct = extract(call(orig))
        inside = extract(call(conf))
        if not spec.shared:
          # the registry's version reached through the original object while a scope is active, called in that scope
          ctx.bucket('path:object-in-active-scope')
          try:
            via_obj = extract(call(gin.get_configurable(orig)))
          except Exception as e:  # pylint: disable=broad-except
            via_obj = 'raised %s: %s' % (type(e).__name__, str(e)[:200])
      if not spec.shared:
        ctx.check(via_obj == spec.expect(v_scoped), 'registry-version-not-injected',
                  'the registry version of a %s (%s) looked up through the original object and called inside the active scope sc/ope gave %r, bound value %r' % (
                      kind, api, via_obj, spec.expect(v_scoped)))
      ctx.check(direct == spec.direct, 'direct-call-received-injected-value',
                'direct call of the original %s inside the active scope sc/ope (which has a binding) saw %r' % (kind, direct))
      ctx.check(inside == spec.expect(v_scoped), 'registry-version-not-injected',
                'the registry version of a %s called inside the active scope sc/ope received %r, bound value %r' % (kind, inside, spec.expect(v_scoped)))
  elif is_class:
    inst = conf()
    ctx.check(isinstance(inst, orig) and type(inst) is orig, 'instance-type-not-exactly-original', 'cls-neither: %r' % type(inst))
    ctx.bucket('type-identity')
    if kind not in UNSUBCLASSABLE:
      ctx.bucket('scoped-class-version:metadata')
      sver = gin.get_configurable('sc/ope/' + full)
      ctx.check(class_version_ok(sver, orig), 'configurable-class-metadata', 'the scoped version of a %s class is %r' % (kind, sver))
      ctx.check(type(sver()) is orig, 'instance-type-not-exactly-original', 'scoped cls-neither: %r' % type(sver()))

  # ---- two distinct callable objects that compare (and hash) equal are two objects: registering one does not make the other known
  if kind == 'callable-instance' and case.get('equal_callables', n % 2 == 0):
    ctx.bucket('kind:callable-instances-comparing-equal')

    class EqCallable:
      def __init__(self, tag):
        self.tag = tag

      def __call__(self, x=0):
        return (self.tag, x)

      def __eq__(self, other):
        return isinstance(other, EqCallable)

      def __hash__(self):
        return 13
    ea, eb = EqCallable('a'), EqCallable('b')
    gin.external_configurable(ea, name='eqa' + base, module='c13')
    gin.external_configurable(eb, name='eqb' + base, module='c13')
    gin.bind_parameter('c13.eqa%s.x' % base, 1)
    gin.bind_parameter('c13.eqb%s.x' % base, 2)
    try:
      got = (gin.get_configurable(ea)(), gin.get_configurable(eb)())
    except Exception as e:  # pylint: disable=broad-except
      got = 'raised %r' % (e,)
    ctx.check(got == (('a', 1), ('b', 2)), 'registry-identifies-callables-by-equality', 'two distinct callable objects a and b that compare equal, registered under two names: '
              'the versions reached through the original objects returned %r, expected ((a, 1), (b, 2))' % (got,))
    gin.clear_config()

  # ---- the same object registered once more under the same name (accepted, also outside interactive mode): lookups through the object keep working
  if api in ('register', 'external') and kind not in UNSUBCLASSABLE and param is not None and case.get('again', n % 3 == 0):
    ctx.bucket('history:same-object-registered-again')
    try:
      do_register(gin, api, case['form'], orig, name, module, explicit, **lists)
      again_ok = True
    except Exception as e:  # pylint: disable=broad-except
      again_ok = False
      ctx.count('same_object_again_refused')      # refusing is not constrained; losing the object is
    try:
      c2 = gin.get_configurable(orig)
      gin.get_bindings(orig)
      ctx.count('oracle_evals')
    except Exception as e:  # pylint: disable=broad-except
      ctx.check(False, 'registered-object-lost-after-registering-it-again', 'after %s the object is unknown to get_configurable/get_bindings: %s: %s' % (
          'registering the same object again under the same name' if again_ok else 'a refused second registration', type(e).__name__, str(e)[:200]))
    try:
      gin.bind_parameter(full + '.' + param, spec.vals[0])
      got = extract(call(gin.get_configurable(orig)))
      ctx.check(got == spec.expect(spec.vals[0]), 'registered-object-lost-after-registering-it-again', 'after the second registration a binding through %s delivered %r' % (full, got))
    except Exception as e:  # pylint: disable=broad-except
      ctx.check(False, 'registered-object-lost-after-registering-it-again', 'after the second registration binding/calling through %s raised %s: %s' % (full, type(e).__name__, str(e)[:200]))
    gin.clear_config()

  # ---- rejected registrations leave the registry unchanged
  rej = case['reject']
  if rej:
    ctx.bucket('reject:' + rej)
    ctx.count('rejections_checked')

    def other(x=0):
      return x
    other.__name__ = 'other' + base
    tries = []
    if rej == 'invalid-name':
      tries = [lambda: gin.register('bad name', module='c13')(other), lambda: gin.external_configurable(other, name='1abc'),
               lambda: gin.configurable('a..b')(other), lambda: gin.register('a/b')(other),
               # an explicitly given empty name is an invalid name, not "no name given"
               lambda: gin.register('')(other), lambda: gin.configurable('')(other), lambda: gin.external_configurable(other, name=''),
               lambda: gin.register('', module='c13')(other),
               # a trailing newline does not belong to a name
               lambda: gin.register('abc\n')(other), lambda: gin.configurable('ok' + base + '\n', module='c13')(other), lambda: gin.external_configurable(other, name='a.b\n')]
    elif rej == 'invalid-module':
      tries = [lambda: gin.register('okname' + base, module='bad module')(other), lambda: gin.external_configurable(other, module='a..b'),
               lambda: gin.configurable(module='1x')(other),
               # a dotted name together with an invalid module
               lambda: gin.register('pkg.okname' + base, module='not a module')(other), lambda: gin.external_configurable(other, name='pkg.ok' + base, module='a..b'),
               lambda: gin.configurable('pkg.ok' + base, module='1abc')(other),
               lambda: gin.register('nl' + base, module='mod\n')(other), lambda: gin.external_configurable(other, name='nl' + base, module='a.b\n')]
      # ... applied to a class (its constructor must not have been replaced) that has a Gin-registered method (which must stay registered)
      mcls = make_original('cls-methods', 'IM' + base)[0]
      msel = 'vfc13mod.meth_IM' + base
      ctor_before = (mcls.__dict__.get('__init__'), mcls.__dict__.get('__new__'))
      for label, reg in (('configurable', lambda: gin.configurable('pkg.im' + base, module='a..b')(mcls)), ('register', lambda: gin.register('pkg.im' + base, module='not a module')(mcls)),
                         ('external_configurable', lambda: gin.external_configurable(mcls, name='pkg.im' + base, module='1abc')),
                         ('configurable (module ends in a newline)', lambda: gin.configurable('im' + base, module='mod\n')(mcls)),
                         ('register (module ends in a newline)', lambda: gin.register('im' + base, module='mod\n')(mcls)),
                         ('configurable (name ends in a newline)', lambda: gin.configurable('im' + base + '\n', module='c13')(mcls)),
                         ('register (name ends in a newline)', lambda: gin.register('im' + base + '\n')(mcls))):
        try:
          reg()
          ctx.check(False, 'bad-registration-accepted', '%s of a class under a dotted name with an invalid module succeeded' % label)
        except (ValueError, TypeError):
          ctx.count('oracle_evals')
        ctx.check((mcls.__dict__.get('__init__'), mcls.__dict__.get('__new__')) == ctor_before, 'registration-altered-original',
                  'a refused %s (dotted name, invalid module) replaced the class constructor' % label)
        ctx.check(gin.config._REGISTRY.get(msel) is not None, 'rejected-registration-changed-registry',
                  'a refused %s (dotted name, invalid module) lost the registered method %s' % (label, msel))
      ctx.bucket('reject:class-with-registered-method-invalid-module')
    elif rej == 'different-object-same-name':
      mod_, nm_ = full.rsplit('.', 1) if '.' in full else (None, full)
      tries = [lambda: gin.register(nm_, module=mod_)(other), lambda: gin.external_configurable(other, name=nm_, module=mod_)]

      def known(x=0):
        return ('known', x)
      known.__name__ = 'known' + base
      gin.register('known' + base, module='c13')(known)     # an object Gin already knows under another name ...
      tries.append(lambda: gin.register(nm_, module=mod_)(known))   # ... is still a different object for this name
      tries.append(lambda: gin.external_configurable(gin.get_configurable(known), name=nm_, module=mod_))
    elif rej == 'unknown-in-list':
      tries = [lambda: gin.register('ul' + base, module='c13', allowlist=['nope'])(other), lambda: gin.external_configurable(other, name='ul' + base, module='c13', denylist=['x', 'nope'])]
      # a class with a Gin-registered method: a refused class registration must not have renamed the method in the registry
      mcls = make_original('cls-methods', 'RM' + base)[0]
      msel = 'vfc13mod.meth_RM' + base
      ctx.check(gin.config._REGISTRY.get(msel) is not None, 'harness', 'method not registered under %s' % msel)
      try:
        gin.register('rm' + base, module='c13', allowlist=['nope'])(mcls)
        ctx.check(False, 'bad-registration-accepted', 'class registration with an unknown allowlist entry succeeded')
      except (ValueError, TypeError):
        ctx.count('oracle_evals')
      ctx.bucket('reject:class-with-registered-method')
      ctx.check(gin.config._REGISTRY.get(msel) is not None and gin.config._REGISTRY.get('c13.rm%s.meth_RM%s' % (base, base)) is None,
                'rejected-registration-changed-registry', 'a refused class registration renamed its registered method: %s gone' % msel)
    elif rej == 'both-lists':
      tries = [lambda: gin.register('bl' + base, module='c13', allowlist=['x'], denylist=['x'])(other)]
    for t in tries:
      reg_before = registry_view(gin, full, base)
      other_before = dict(vars(other))
      try:
        t()
        ctx.check(False, 'bad-registration-accepted', 'registration that must be rejected (%s) succeeded' % rej)
      except (ValueError, TypeError):
        ctx.count('oracle_evals')
      ctx.check(registry_view(gin, full, base) == reg_before and dict(vars(other)) == other_before, 'rejected-registration-changed-registry',
                'after a rejected registration (%s) the registry view changed: %r -> %r' % (rej, reg_before, registry_view(gin, full, base)))
      try:
        gin.get_configurable(other)
        ctx.check(False, 'rejected-registration-left-inverse-entry', 'the rejected object is known to the registry')
      except ValueError:
        pass
    reject_product(ctx, gin, case, rej, base, full)

  # ---- interactive mode
  im = case['interactive']
  if im and '.' in full:
    interactive_section(ctx, gin, case, im, base, full)

  # ---- dynamic registration: config text naming an importable object registers it like gin.register does
  if ENABLE_DYNAMIC_REGISTRATION and case.get('dynamic') and kind in DYNAMIC_KINDS:
    dynamic_section(ctx, gin, kind, base)


def make_target(tkind, tag, variant=0):
  """A fresh object no registration has seen: (target, is_class, selector of its registered method or None)."""
  if tkind == 'function':
    def target(x=0):
      return x
    target.__name__ = 'tf' + tag
    return target, False, None
  if tkind == 'class':
    return make_original('cls-init', 'TC' + tag).orig, True, None
  if tkind == 'wrapped-function':
    return make_original(('function-wrapped', 'lru-cache')[variant // 4 % 2], 'TW' + tag, variant).orig, False, None
  if tkind == 'class-with-wrapped-constructor':
    return make_original(('cls-init-wrapped', 'cls-new-wrapped')[variant // 4 % 2], 'TW' + tag, variant).orig, True, None
  if tkind == 'class-inheriting-configurable-constructor':
    return make_original('cls-inherits-configurable', 'TI' + tag, variant).orig, True, None
  return make_original('cls-methods', 'TM' + tag).orig, True, 'vfc13mod.meth_TM' + tag


def reject_product(ctx, gin, case, rej, base, full):
  """Every rejection kind x (function, class, class with a registered method) x three APIs, outside or inside interactive mode.

  "Without registering anything": the call raises, no name appears in the registry, the target stays unknown to the registry, a class target keeps
  its constructor (gin.configurable replaces it on success) and its registered method keeps its selector (class registration renames it on success).
  """
  tkind = case.get('reject_target', 'function')
  variant = case.get('reject_variant', 0)
  inside = bool(case.get('reject_interactive')) and rej != 'different-object-same-name'   # the one rejection interactive mode waives
  ctx.bucket('reject-target:' + tkind)
  ctx.bucket('reject-cell:%s:%s:%s' % (rej, tkind, 'interactive' if inside else 'plain'))
  if inside:
    ctx.bucket('reject:inside-interactive-mode')
  good = 'rp' + base
  kw = {}
  if rej == 'invalid-name':
    nm, md = ['bad name', '1abc', 'a..b', 'a/b', '', 'abc\n'][variant % 6], ('c13' if variant % 2 else None)
  elif rej == 'invalid-module':
    nm, md = [good, 'pkg.' + good][variant % 2], ['bad module', 'a..b', '1x', 'mod\n', 'a.'][variant % 5]
  elif rej == 'different-object-same-name':
    md, nm = full.rsplit('.', 1) if '.' in full else (None, full)
  elif rej == 'unknown-in-list':
    nm, md = good, 'c13'
    kw = [{'allowlist': ['nope']}, {'denylist': ['x', 'nope']}, {'allowlist': ('x', 'nope')}][variant % 3]
  else:
    nm, md = good, 'c13'
    kw = {'allowlist': ['x'], 'denylist': ['x']}
  would_be = (md + '.' + nm) if md else nm
  if md is not None:
    kw = dict(kw, module=md)
  # one fresh target serves the three APIs: every rejected attempt must leave it as it was
  target, t_is_class, msel = make_target(tkind, base, case.get('shape_variant', 0) + 4 * variant)
  t_before = snapshot(target, t_is_class)
  mfn = target.__dict__[msel.rsplit('.', 1)[1]] if msel else None
  for api in APIS:

    def view():
      reg = gin.config._REGISTRY
      v = {'len': len(reg), 'method': msel and reg.get(msel) is not None and id(reg.get(msel).wrapped)}
      if rej == 'different-object-same-name':
        v['existing'] = reg.get(full) is not None and (id(reg.get(full).wrapped), id(reg.get(full).wrapper))
      else:
        try:
          v['would-be'] = reg.get(would_be) is not None
        except Exception:  # pylint: disable=broad-except
          v['would-be'] = 'unresolvable'
      if msel:
        try:
          v['renamed-method'] = reg.get(would_be + '.' + msel.rsplit('.', 1)[1]) is not None
        except Exception:  # pylint: disable=broad-except
          v['renamed-method'] = 'unresolvable'
      return v
    v_before = view()
    accepted = False
    try:
      if inside:
        with gin.config.interactive_mode():
          if api == 'external':
            gin.external_configurable(target, name=nm, **kw)
          else:
            getattr(gin, api)(nm, **kw)(target)
      elif api == 'external':
        gin.external_configurable(target, name=nm, **kw)
      else:
        getattr(gin, api)(nm, **kw)(target)
      accepted = True
    except Exception:  # pylint: disable=broad-except
      pass
    where = ' inside interactive mode' if inside else ''
    ctx.check(not accepted, 'bad-registration-accepted', 'gin.%s of a %s that must be rejected (%s: name %r, %r)%s succeeded' % (api, tkind, rej, nm, kw, where))
    if accepted:
      continue
    ctx.check(snap_equal(t_before, snapshot(target, t_is_class)), 'registration-altered-original',
              'a rejected gin.%s (%s)%s altered the %s it was given (for a class: its constructor was replaced)' % (api, rej, where, tkind))
    v_after = view()
    ctx.check(v_after == v_before, 'rejected-registration-changed-registry',
              'a rejected gin.%s (%s) of a %s%s changed the registry: %r -> %r' % (api, rej, tkind, where, v_before, v_after))
    try:
      gin.get_configurable(target)
      ctx.check(False, 'rejected-registration-left-inverse-entry', 'after a rejected gin.%s (%s)%s the %s is known to the registry' % (api, rej, where, tkind))
    except ValueError:
      ctx.count('oracle_evals')
    if mfn is not None:
      # the registered method is still reachable through its function and still bound under its own selector
      try:
        gin.bind_parameter(msel + '.m', 5)
        got = gin.get_configurable(mfn)(None)
      except Exception as e:  # pylint: disable=broad-except
        got = 'raised %s: %s' % (type(e).__name__, str(e)[:200])
      ctx.check(got == ('meth', 5), 'rejected-registration-changed-registry',
                'after a rejected gin.%s (%s)%s of its class the registered method, bound through %s, returned %r' % (api, rej, where, msel, got))
  if inside:
    gin.exit_interactive_mode()    # (already off on a correct tree) keep one case's leak from spreading


def make_replacement(tkind, nm_, tag):
  """A replacement object named nm_ and a predicate telling whether a call result came from it."""
  if tkind == 'class':
    def __init__(self, x=0):
      self.x = x
      self.tag = tag
    cls = type(nm_, (), {'__init__': __init__, '__module__': 'vfc13repl', '__doc__': 'replacement'})
    return cls, (lambda r: isinstance(r, cls) and r.tag == tag and r.x == 0)

  def repl(x=0):
    return (tag, x)
  repl.__name__ = nm_
  return repl, (lambda r: r == (tag, 0))


def register_as(gin, api, obj, nm_, mod_):
  if api == 'external':
    return gin.external_configurable(obj, name=nm_, module=mod_)
  return getattr(gin, api)(nm_, module=mod_)(obj)


def interactive_section(ctx, gin, case, im, base, full):
  ctx.bucket('interactive:' + im)
  iapi = case.get('interactive_api', 'register')
  itarget = case.get('interactive_target', 'function')
  ctx.bucket('interactive-api:' + iapi)
  ctx.bucket('interactive-target:' + itarget)
  mod_, nm_ = full.rsplit('.', 1)
  repl, from_repl = make_replacement(itarget, nm_, 'repl')
  flip = case.get('reject_variant', 0)

  def must_fail(label, tag, product=True):
    # after the block: every API, alternating function / class candidates (all six combinations occur over the cases)
    for k, api in enumerate(APIS if product else [iapi]):
      for tkind in ([('function', 'class')[(k + flip) % 2]] if product else [itarget]):
        cand, _ = make_replacement(tkind, nm_, tag)
        c_before = snapshot(cand, tkind == 'class')
        try:
          register_as(gin, api, cand, nm_, mod_)
          ctx.check(False, 'reregistration-outside-interactive-mode', 're-registering %s with another %s through gin.%s %s was accepted' % (full, tkind, api, label))
        except Exception:  # pylint: disable=broad-except
          ctx.count('oracle_evals')
          ctx.check(snap_equal(c_before, snapshot(cand, tkind == 'class')), 'registration-altered-original',
                    'a refused re-registration (gin.%s, %s) altered the %s it was given' % (api, label, tkind))
          try:
            gin.get_configurable(cand)
            ctx.check(False, 'rejected-registration-left-inverse-entry', 'the %s rejected %s (gin.%s) is in the registry' % (tkind, label, api))
          except ValueError:
            pass
  must_fail('before interactive mode', 'early', product=False)
  try:
    gin.get_configurable('sc/ope/' + full)    # a scoped version exists before the name is re-registered
    gin.parse_config('c13cons.v = @sc/ope/%s' % full)
    _S['cons'].conf()
  except Exception:  # pylint: disable=broad-except
    pass
  if im == 'context-manager':
    with gin.config.interactive_mode():
      register_as(gin, iapi, repl, nm_, mod_)
  elif im == 'enter-exit':
    gin.enter_interactive_mode()
    register_as(gin, iapi, repl, nm_, mod_)
    gin.exit_interactive_mode()
  else:
    exc = {'exit-by-exception': KeyError, 'exit-by-KeyboardInterrupt': KeyboardInterrupt, 'exit-by-SystemExit': SystemExit,
           'exit-by-GeneratorExit': GeneratorExit}[im]
    try:
      with gin.config.interactive_mode():
        register_as(gin, iapi, repl, nm_, mod_)
        raise exc('leave')
    except exc:
      pass
  gin.clear_config()
  how = 'gin.%s of a %s in interactive mode (%s)' % (iapi, itarget, im)

  def resolves_to_replacement(get):
    try:
      return from_repl(get()())
    except Exception:  # pylint: disable=broad-except
      return False     # (the old object, called without the arguments it needs)
  ctx.check(resolves_to_replacement(lambda: gin.get_configurable(full)), 'interactive-reregistration-not-effective',
            'after %s %s still resolves to the old object' % (how, full))
  ctx.check(resolves_to_replacement(lambda: gin.get_configurable('sc/ope/' + full)), 'interactive-reregistration-not-effective',
            'after %s the scoped selector sc/ope/%s still resolves to the old object' % (how, full))
  gin.parse_config('c13cons.v = @sc/ope/%s' % full)
  _S['cons'].conf()
  ctx.check(resolves_to_replacement(lambda: probes.RECORDER.log[-1].received['v']), 'interactive-reregistration-not-effective',
            'after %s a scoped reference to %s still delivers the old object' % (how, full))
  gin.clear_config()
  must_fail('after interactive mode ended (%s)' % im, 'late')
  gin.exit_interactive_mode()    # (already off on a correct tree) keep one case's leak from spreading


def dynamic_section(ctx, gin, kind, base):
  """`import m` + `m.K.x = v` under dynamic registration registers m.K: K itself stays as it was and direct calls receive nothing."""
  ctx.bucket('api:dynamic-registration')
  ctx.bucket('dynamic-kind:' + kind)
  nm = 'D' + base
  spec = make_original(kind, nm)
  orig, param, extract, is_class, _ = spec
  before = snapshot(orig, is_class)
  gin.clear_config()
  sel = 'vfc13mod.' + nm
  try:
    gin.parse_config('from __gin__ import dynamic_registration\nimport vfc13mod\n%s.%s = 41\nsc/ope/%s.%s = 42\n' % (sel, param, sel, param))
  except Exception as e:  # pylint: disable=broad-except
    ctx.check(False, 'registration-failed', 'dynamic registration of a %s through config text raised %s: %s' % (kind, type(e).__name__, str(e)[:200]))
    gin.clear_config()
    return

  def observe(when):
    ctx.check(snap_equal(before, snapshot(orig, is_class)), 'registration-altered-original',
              'dynamic registration (config text `%s.%s = 41`) altered the %s %s: %r -> %r' % (sel, param, kind, when, before, snapshot(orig, is_class)))
    direct = extract(spec.call(orig))
    ctx.check(direct == 0, 'direct-call-received-injected-value', 'direct call of a dynamically registered %s %s saw %r' % (kind, when, direct))
  observe('right after parsing')
  versions = []
  try:
    versions.append(('the original object', gin.get_configurable(orig), 41))
    versions.append(('a scoped selector', gin.get_configurable('sc/ope/' + sel), 42))
    gin.parse_config('c13cons.v = @%s' % sel)
    _S['cons'].conf()
    versions.append(('a reference', probes.RECORDER.log[-1].received['v'], 41))
  except Exception as e:  # pylint: disable=broad-except
    ctx.check(False, 'registry-version-call-failed', 'dynamically registered %s: looking up its registry version raised %s: %s' % (kind, type(e).__name__, str(e)[:200]))
  for label, ver, want in versions:
    try:
      res = spec.call(ver)
    except Exception as e:  # pylint: disable=broad-except
      ctx.check(False, 'registry-version-call-failed', 'dynamically registered %s via %s raised %s: %s' % (kind, label, type(e).__name__, str(e)[:200]))
      continue
    ctx.check(extract(res) == want, 'registry-version-not-injected', 'dynamically registered %s via %s received %r, bound value %r' % (kind, label, extract(res), want))
    if is_class:
      ctx.check(class_version_ok(ver, orig), 'configurable-class-metadata', 'dynamically registered %s: the version reached via %s is %r' % (kind, label, ver))
      ctx.check(isinstance(res, orig), 'instance-not-of-original-class', 'dynamically registered %s via %s built a %r' % (kind, label, type(res)))
      if kind != 'cls-methods':
        ctx.check(type(res) is orig, 'instance-type-not-exactly-original', 'dynamically registered %s via %s: type(instance) is %r' % (kind, label, type(res)))
  observe('after its registry versions were used')
  with gin.config_scope('sc/ope'):
    observe('inside the active scope sc/ope')
  gin.clear_config()


def registry_view(gin, full, base):
  view = {}
  for sel in (full, 'c13.ul' + base, 'c13.bl' + base, 'c13.okname' + base, 'c13.bad name', '1abc'):
    try:
      view[sel] = id(gin.get_configurable(sel)) if False else gin.config._REGISTRY.get(sel) is not None and id(gin.config._REGISTRY.get(sel).wrapped)
    except Exception:  # pylint: disable=broad-except
      view[sel] = 'unresolvable'
  view['__len__'] = len(gin.config._REGISTRY)
  return view


LEVEL_TEXT = ('Runtime monitor over the product (26 callable/class shapes x 3 registration APIs (+ config text under dynamic registration) x forms x '
              'name/module overrides x 6 access paths): '
              'identity/attribute snapshots of the original around registration and again after the registry versions were used, direct vs registry '
              'calls under root and scoped bindings (also inside an active scope), metadata and '
              'signature comparison (builtins, slot wrappers, callable instances, partials too), isinstance/issubclass/type identity of every class '
              'version reached, pickle round trip, registry views around rejected registrations (5 kinds x 6 targets x 3 APIs, outside and inside '
              'interactive mode) and around interactive-mode blocks left normally or by Exception / KeyboardInterrupt / SystemExit / GeneratorExit.')
LEVEL_NOTE = 'Trusted: the per-shape source templates in this file. Only the shapes listed are covered; each case uses fresh names (the registry is append-only).'
TECHNIQUE = 'runtime differential monitor (original vs registry version) over a product of callable shapes, APIs and access paths'
DESIGN_REF = 'DESIGN.md section 4, C13'
