"""C13 — registration is transparent to the registered function or class."""
import abc
import collections
import functools
import inspect
import itertools
import pickle
import sys
import types
import typing

from vf import probes

ID = 'C13'
LEVEL = 'exploration'
RULE = ('callable kinds (function, lambda, builtin sum, callable instance, functools.partial) and class shapes (__init__, __new__, both, neither, custom '
        'metaclass with __call__, __slots__, collections.namedtuple, typing.NamedTuple, ABC subclass, class with registered methods) x {configurable, '
        'register, external_configurable} x decorator/call form x name/module overrides x access path (returned object, original object, selector, '
        'scoped selector, @reference, scoped @reference); oracles: original untouched and direct calls receive nothing (register/external), the '
        'registry version receives bindings, metadata/signature preserved, subclass/instance/type identity, pickle round trip whenever the original '
        'pickles, rejected registrations leave the registry unchanged, re-registration only inside interactive mode (block exit by return or '
        'exception). distinct = (kind, api, form, overrides, access path)')
TIERS = {
    'quick': {'workers': 8, 'cases': 1750, 'timeout': 600},
    'thorough': {'workers': 16, 'cases': 9000, 'timeout': 3000},
}
KINDS = ['function', 'lambda', 'builtin', 'callable-instance', 'partial', 'cls-init', 'cls-new', 'cls-both', 'cls-neither', 'cls-meta', 'cls-slots',
         'cls-namedtuple', 'cls-typing-namedtuple', 'cls-abc', 'cls-methods', 'cls-final', 'cls-meta-kwargs']
REQUIRED_BUCKETS = (['kind:' + k for k in KINDS] + ['api:configurable', 'api:register', 'api:external', 'form:decorator', 'form:call', 'override:name',
                    'override:module', 'override:dotted-name', 'path:returned', 'path:object', 'path:selector', 'path:scoped-selector', 'path:reference',
                    'path:scoped-reference', 'pickle:roundtrip', 'direct-call:no-injection', 'reject:invalid-name', 'reject:invalid-module',
                    'reject:different-object-same-name', 'reject:unknown-in-list', 'reject:both-lists', 'interactive:context-manager',
                    'interactive:enter-exit', 'interactive:exit-by-exception', 'type-identity', 'reject:class-with-registered-method'])
ORACLE_COUNTERS = ['oracle_evals', 'registrations', 'rejections_checked']
_n = itertools.count(1)
_S = {}


def setup(ctx):
  import gin
  mod = types.ModuleType('vfc13mod')
  sys.modules['vfc13mod'] = mod
  _S['mod'] = mod
  _S['cons'] = probes.build({'shape': 'fn', 'api': 'configurable', 'name': 'c13cons', 'module': 'c13', 'pos': [], 'dflt': [['v', None]], 'varargs': False,
                             'kwonly': [], 'varkw': False})


def make_original(kind, name):
  """Returns (original, param name or None, extract(result)->value of param, is_class, needs_explicit_name)."""
  mod = _S['mod']
  g = mod.__dict__
  g.setdefault('abc', abc)
  g.setdefault('collections', collections)
  g.setdefault('typing', typing)
  if kind == 'function':
    exec('def %s(x=0, y="d"):\n  """doc of %s"""\n  return ("f", x, y)\n' % (name, name), g)
    return g[name], 'x', lambda r: r[1], False, False
  if kind == 'lambda':
    exec('%s = lambda x=0: ("lam", x)\n' % name, g)
    return g[name], 'x', lambda r: r[1], False, True
  if kind == 'builtin':
    return sum, 'start', lambda r: r, False, True
  if kind == 'callable-instance':
    exec('class %sC:\n  def __call__(self, x=0):\n    return ("inst", x)\n%s = %sC()\n' % (name, name, name), g)
    return g[name], 'x', lambda r: r[1], False, True
  if kind == 'partial':
    exec('def %s_base(a, x=0):\n  return ("part", a, x)\n' % name, g)
    return functools.partial(g[name + '_base'], 'A'), 'x', lambda r: r[2], False, True
  if kind == 'cls-init':
    src = 'class %s:\n  """doc of %s"""\n  def __init__(self, x=0, y="d"):\n    self.x = x\n    self.y = y\n'
  elif kind == 'cls-new':
    src = 'class %s:\n  """doc of %s"""\n  def __new__(cls, x=0):\n    o = object.__new__(cls)\n    o.x = x\n    return o\n'
  elif kind == 'cls-both':
    src = ('class %s:\n  """doc of %s"""\n  def __new__(cls, *a, **k):\n    o = object.__new__(cls)\n    o.new_called = True\n    return o\n'
           '  def __init__(self, x=0):\n    self.x = x\n')
  elif kind == 'cls-neither':
    src = 'class %s:\n  """doc of %s"""\n  x = 0\n'
  elif kind == 'cls-meta':
    src = ('class %sMeta(type):\n  def __call__(cls, *a, **k):\n    o = super().__call__(*a, **k)\n    o.meta_called = True\n    return o\n'
           'class %s(metaclass=%sMeta):\n  """doc of %s"""\n  def __init__(self, x=0):\n    self.x = x\n') % (name, name, name, name)
    exec(src, g)
    return g[name], 'x', lambda r: r.x, True, False
  elif kind == 'cls-slots':
    src = 'class %s:\n  """doc of %s"""\n  __slots__ = ("x",)\n  def __init__(self, x=0):\n    self.x = x\n'
  elif kind == 'cls-namedtuple':
    exec('%s = collections.namedtuple(%r, ["x", "y"], defaults=[0, "d"])\n%s.__module__ = "vfc13mod"\n' % (name, name, name), g)
    return g[name], 'x', lambda r: r.x, True, False
  elif kind == 'cls-typing-namedtuple':
    src = 'class %s(typing.NamedTuple):\n  """doc of %s"""\n  x: int = 0\n  y: str = "d"\n'
  elif kind == 'cls-abc':
    src = ('class %sBase(abc.ABC):\n  @abc.abstractmethod\n  def go(self):\n    pass\n'
           'class %s(%sBase):\n  """doc of %s"""\n  def __init__(self, x=0):\n    self.x = x\n  def go(self):\n    return self.x\n') % (name, name, name, name)
    exec(src, g)
    return g[name], 'x', lambda r: r.x, True, False
  elif kind == 'cls-final':
    src = ('class %s:\n  \"\"\"doc of %s\"\"\"\n  def __init__(self, x=0):\n    self.x = x\n'
           '  def __init_subclass__(cls, **kw):\n    raise TypeError("this class must not be subclassed")\n')
  elif kind == 'cls-meta-kwargs':
    src = ('class %sMeta(type):\n  def __new__(mcs, name, bases, ns, *, flavour):\n    return super().__new__(mcs, name, bases, ns)\n'
           '  def __init__(cls, name, bases, ns, *, flavour):\n    super().__init__(name, bases, ns)\n'
           'class %s(metaclass=%sMeta, flavour="x"):\n  \"\"\"doc of %s\"\"\"\n  def __init__(self, x=0):\n    self.x = x\n') % (name, name, name, name)
    exec(src, g)
    return g[name], 'x', lambda r: r.x, True, False
  elif kind == 'cls-methods':
    import gin
    src = 'class %s:\n  """doc of %s"""\n  def __init__(self, x=0):\n    self.x = x\n  def meth_%s(self, m=0):\n    return ("meth", m)\n'
    exec(src % (name, name, name), g)
    cls = g[name]
    gin.register(cls.__dict__['meth_' + name])
    return cls, 'x', lambda r: r.x, True, False
  exec(src % (name, name), g)
  cls = g[name]
  return cls, ('x' if kind != 'cls-neither' else None), (lambda r: r.x), True, False


def snapshot(obj, is_class):
  if is_class:
    return {k: v for k, v in vars(obj).items()}, obj.__bases__, type(obj)
  if isinstance(obj, types.FunctionType):
    return dict(vars(obj)), obj.__code__, obj.__defaults__, obj.__kwdefaults__, obj.__name__, obj.__doc__
  return (repr(type(obj)),)


def snap_equal(a, b):
  if len(a) != len(b):
    return False
  for x, y in zip(a, b):
    if isinstance(x, dict):
      if set(x) != set(y) or any(x[k] is not y[k] for k in x):
        return False
    elif x is not y and x != y:
      return False
  return True


def iter_cases(ctx, rng, n):
  for i in range(n):
    kind = KINDS[i % len(KINDS)]
    api = ['configurable', 'register', 'external'][(i // len(KINDS)) % 3]
    yield {'kind': kind, 'api': api, 'form': rng.choice(['decorator', 'call']), 'name_override': rng.choice([None, None, 'plain', 'dotted']),
           'module_override': rng.random() < 0.5, 'paths': rng.sample(['returned', 'object', 'selector', 'scoped-selector', 'reference', 'scoped-reference'], 3),
           'reject': rng.choice(['invalid-name', 'invalid-module', 'different-object-same-name', 'unknown-in-list', 'both-lists', None]),
           'interactive': rng.choice(['context-manager', 'enter-exit', 'exit-by-exception', None])}


def do_register(gin, api, form, orig, name, module, explicit_name, **lists):
  kw = dict(lists)
  if module is not None:
    kw['module'] = module
  if api == 'external':
    return gin.external_configurable(orig, name=name, **kw) if name is not None else gin.external_configurable(orig, **kw)
  dec = gin.configurable if api == 'configurable' else gin.register
  if name is None and not kw and form == 'decorator' and not explicit_name:
    return dec(orig)           # bare decorator form
  return dec(name, **kw)(orig)   # parametrised form


def run_case(ctx, case):
  import gin
  gin.clear_config()
  n = next(_n)
  kind, api = case['kind'], case['api']
  base = 'T%d_%s' % (n, ctx.uid)
  orig, param, extract, is_class, explicit = make_original(kind, base)
  ctx.bucket('kind:' + kind)
  ctx.bucket('api:' + api)
  ctx.bucket('form:' + case['form'])
  name = None
  if case['name_override'] == 'plain':
    name = 'N' + base
    ctx.bucket('override:name')
  elif case['name_override'] == 'dotted':
    name = 'dm.sub.N' + base
    ctx.bucket('override:dotted-name')
  elif explicit or kind == 'builtin':
    name = 'N' + base
  module = None
  if case['module_override'] or (kind in ('builtin', 'partial', 'callable-instance') and name is not None and '.' not in name):
    module = 'c13.over'
    ctx.bucket('override:module')
  reg_name = name if name is not None else getattr(orig, '__name__', base)
  if module is not None:
    full = module + '.' + reg_name
  elif '.' in reg_name:
    full = reg_name
  else:
    full = (getattr(orig, '__module__', None) or '') + ('.' if getattr(orig, '__module__', None) else '') + reg_name
  before = snapshot(orig, is_class)
  orig_name, orig_doc, orig_mod = getattr(orig, '__name__', None), getattr(orig, '__doc__', None), getattr(orig, '__module__', None)
  orig_qual = getattr(orig, '__qualname__', None)
  orig_sig = None
  try:
    orig_sig = inspect.signature(orig)
  except (ValueError, TypeError):
    pass
  ctx.count('registrations')
  if kind in ('cls-final', 'cls-meta-kwargs') and api in ('register', 'external'):
    # a class that cannot be subclassed dynamically: registration may be refused, but must never fall back to altering the class
    try:
      ret = do_register(gin, api, case['form'], orig, name, module, explicit)
    except (TypeError, ValueError):
      ctx.bucket('unsubclassable:registration-refused')
      ctx.check(snap_equal(before, snapshot(orig, is_class)), 'registration-altered-original', 'refused registration of %s altered the class' % kind)
      ctx.check(extract(orig()) == 0, 'direct-call-received-injected-value', 'direct construction after refused registration')
      try:
        gin.get_configurable(orig)
        ctx.check(False, 'rejected-registration-left-inverse-entry', 'refused registration left %s known to the registry' % kind)
      except ValueError:
        ctx.count('oracle_evals')
      ctx.fp(kind, api, 'refused')
      return
  else:
    ret = do_register(gin, api, case['form'], orig, name, module, explicit)
  ctx.fp(kind, api, case['form'], case['name_override'], case['module_override'], tuple(sorted(case['paths'])), case['reject'], case['interactive'])
  ctx.sample({'kind': kind, 'api': api, 'registered_as': full, 'paths': case['paths']}, cap=4)

  # ---- what registration returns / leaves alone
  if api == 'register':
    ctx.check(ret is orig, 'register-returned-other-object', 'gin.register returned %r, not the original' % (ret,))
  if api in ('register', 'external') and kind != 'builtin':
    ctx.check(snap_equal(before, snapshot(orig, is_class)), 'registration-altered-original',
              '%s altered the %s it was given: %r -> %r' % (api, kind, before, snapshot(orig, is_class)))
  conf = ret if api != 'register' else gin.get_configurable(orig)
  if api == 'configurable' and not is_class and kind in ('function', 'lambda'):
    ctx.check(conf.__name__ == orig_name and conf.__doc__ == orig_doc and inspect.signature(conf) == orig_sig,
              'configurable-metadata-differs', 'gin.configurable result has name %r doc %r signature %s; original %r %r %s' %
              (conf.__name__, conf.__doc__, inspect.signature(conf), orig_name, orig_doc, orig_sig))
  if api == 'configurable' and is_class and orig_sig is not None:
    ctx.check(conf.__name__ == orig_name and conf.__doc__ == orig_doc and inspect.signature(conf) == orig_sig,
              'configurable-metadata-differs' if kind != 'cls-neither' else 'configurable-class-without-constructor-changes-signature',
              'gin.configurable class: name %r doc %r signature %s; original %r %r %s' % (conf.__name__, conf.__doc__, inspect.signature(conf), orig_name, orig_doc, orig_sig))
  if is_class:
    ctx.check(issubclass(conf, orig) and conf.__name__ == orig_name and conf.__module__ == orig_mod and conf.__doc__ == orig_doc and
              conf.__qualname__ == orig_qual, 'configurable-class-metadata',
              'configurable class: subclass=%s name=%r module=%r doc=%r qualname=%r (original %r %r %r %r)' %
              (issubclass(conf, orig), conf.__name__, conf.__module__, conf.__doc__, conf.__qualname__, orig_name, orig_mod, orig_doc, orig_qual))

  # ---- bindings reach the registry version only
  if param is not None:
    gin.bind_parameter((u'', full, param), 41)
    gin.bind_parameter(('sc/ope', full, param), 42)

    def call(fn):
      if kind == 'builtin':
        return fn([1, 2])
      return fn()
    base_expect = {41: 41, 42: 42}
    if kind == 'builtin':
      base_expect = {41: 44, 42: 45}
    if api in ('register', 'external'):
      ctx.bucket('direct-call:no-injection')
      direct = extract(call(orig))
      ctx.check(direct == (3 if kind == 'builtin' else 0), 'direct-call-received-injected-value', 'direct call of the original %s saw %r' % (kind, direct))
    for path in case['paths']:
      if kind in ('cls-final', 'cls-meta-kwargs') and path in ('scoped-selector', 'scoped-reference'):
        continue  # a scoped version needs a dynamic subclass, which these shapes forbid (outside the stated shapes)
      ctx.bucket('path:' + path)
      want = 41
      if path == 'returned':
        if api == 'register':
          continue
        obj = ret
      elif path == 'object':
        obj = gin.get_configurable(orig if api != 'configurable' or not is_class else ret) if kind != 'builtin' else gin.get_configurable(full)
      elif path == 'selector':
        obj = gin.get_configurable(full)
      elif path == 'scoped-selector':
        obj = gin.get_configurable('sc/ope/' + full)
        want = 42
      elif path == 'reference':
        gin.parse_config('c13cons.v = @%s' % full)
        obj = _S['cons'].conf()[0:0] or probes.RECORDER.log[-1].received['v']
      else:
        gin.parse_config('c13cons.v = @sc/ope/%s' % full)
        _S['cons'].conf()
        obj = probes.RECORDER.log[-1].received['v']
        want = 42
      try:
        res = call(obj)
      except Exception as e:  # pylint: disable=broad-except
        ctx.check(False, 'registry-version-call-failed', '%s/%s via %s raised %s: %s' % (kind, api, path, type(e).__name__, str(e)[:200]))
        continue
      got = extract(res)
      ctx.check(got == base_expect[want], 'registry-version-not-injected', '%s/%s via %s received %r, bound value %r' % (kind, api, path, got, base_expect[want]))
      if is_class:
        ctx.check(isinstance(res, orig), 'instance-not-of-original-class', '%s via %s built a %r' % (kind, path, type(res)))
        if kind != 'cls-methods':
          ctx.bucket('type-identity')
          ctx.check(type(res) is orig, 'instance-type-not-exactly-original', '%s/%s via %s: type(instance) is %r' % (kind, api, path, type(res)))
          try:
            ref = pickle.dumps(orig() if kind != 'cls-neither' else orig())
            pick_ok = True
          except Exception:  # pylint: disable=broad-except
            pick_ok = False
          if pick_ok:
            ctx.bucket('pickle:roundtrip')
            try:
              back = pickle.loads(pickle.dumps(res))
              ctx.check(type(back) is orig and extract(back) == got, 'pickle-roundtrip-differs', 'unpickled %r' % (back,))
            except Exception as e:  # pylint: disable=broad-except
              ctx.check(False, 'instance-does-not-pickle', '%s/%s via %s: instance does not pickle (%s) although the original does' % (kind, api, path, e))
        if kind == 'cls-meta':
          ctx.check(getattr(res, 'meta_called', False), 'metaclass-call-bypassed', 'custom metaclass __call__ not run')
  elif is_class:
    inst = conf()
    ctx.check(isinstance(inst, orig) and type(inst) is orig, 'instance-type-not-exactly-original', 'cls-neither: %r' % type(inst))
    ctx.bucket('type-identity')

  # ---- two distinct callable objects that compare (and hash) equal are two objects: registering one does not make the other known
  if kind == 'callable-instance' and n % 2 == 0:
    ctx.bucket('kind:callable-instances-comparing-equal')

    class EqCallable:
      def __init__(self, tag):
        self.tag = tag

      def __call__(self, x=0):
        return (self.tag, x)

      def __eq__(self, other):
        return isinstance(other, EqCallable)

      def __hash__(self):
        return 13
    ea, eb = EqCallable('a'), EqCallable('b')
    gin.external_configurable(ea, name='eqa' + base, module='c13')
    gin.external_configurable(eb, name='eqb' + base, module='c13')
    gin.bind_parameter('c13.eqa%s.x' % base, 1)
    gin.bind_parameter('c13.eqb%s.x' % base, 2)
    try:
      got = (gin.get_configurable(ea)(), gin.get_configurable(eb)())
    except Exception as e:  # pylint: disable=broad-except
      got = 'raised %r' % (e,)
    ctx.check(got == (('a', 1), ('b', 2)), 'registry-identifies-callables-by-equality', 'two distinct callable objects a and b that compare equal, registered under two names: '
              'the versions reached through the original objects returned %r, expected ((a, 1), (b, 2))' % (got,))
    gin.clear_config()

  # ---- the same object registered once more under the same name (accepted, also outside interactive mode): lookups through the object keep working
  if api in ('register', 'external') and kind not in ('cls-final', 'cls-meta-kwargs') and n % 3 == 0:
    ctx.bucket('history:same-object-registered-again')
    try:
      do_register(gin, api, case['form'], orig, name, module, explicit)
      again_ok = True
    except Exception as e:  # pylint: disable=broad-except
      again_ok = False
      ctx.count('same_object_again_refused')      # refusing is not constrained; losing the object is
    try:
      c2 = gin.get_configurable(orig)
      gin.get_bindings(orig)
      ctx.count('oracle_evals')
    except Exception as e:  # pylint: disable=broad-except
      ctx.check(False, 'registered-object-lost-after-registering-it-again', 'after %s the object is unknown to get_configurable/get_bindings: %s: %s' % (
          'registering the same object again under the same name' if again_ok else 'a refused second registration', type(e).__name__, str(e)[:200]))
    try:
      gin.bind_parameter(full + '.' + param, 41)
      got = extract(gin.get_configurable(orig)())
      ctx.check(got == 41, 'registered-object-lost-after-registering-it-again', 'after the second registration a binding through %s delivered %r' % (full, got))
    except Exception as e:  # pylint: disable=broad-except
      ctx.check(False, 'registered-object-lost-after-registering-it-again', 'after the second registration binding/calling through %s raised %s: %s' % (full, type(e).__name__, str(e)[:200]))
    gin.clear_config()

  # ---- rejected registrations leave the registry unchanged
  rej = case['reject']
  if rej:
    ctx.bucket('reject:' + rej)
    ctx.count('rejections_checked')

    def other(x=0):
      return x
    other.__name__ = 'other' + base
    tries = []
    if rej == 'invalid-name':
      tries = [lambda: gin.register('bad name', module='c13')(other), lambda: gin.external_configurable(other, name='1abc'),
               lambda: gin.configurable('a..b')(other), lambda: gin.register('a/b')(other),
               # an explicitly given empty name is an invalid name, not "no name given"
               lambda: gin.register('')(other), lambda: gin.configurable('')(other), lambda: gin.external_configurable(other, name=''),
               lambda: gin.register('', module='c13')(other),
               # a trailing newline does not belong to a name
               lambda: gin.register('abc\n')(other), lambda: gin.configurable('ok' + base + '\n', module='c13')(other), lambda: gin.external_configurable(other, name='a.b\n')]
    elif rej == 'invalid-module':
      tries = [lambda: gin.register('okname' + base, module='bad module')(other), lambda: gin.external_configurable(other, module='a..b'),
               lambda: gin.configurable(module='1x')(other),
               # a dotted name together with an invalid module
               lambda: gin.register('pkg.okname' + base, module='not a module')(other), lambda: gin.external_configurable(other, name='pkg.ok' + base, module='a..b'),
               lambda: gin.configurable('pkg.ok' + base, module='1abc')(other),
               lambda: gin.register('nl' + base, module='mod\n')(other), lambda: gin.external_configurable(other, name='nl' + base, module='a.b\n')]
      # ... applied to a class (its constructor must not have been replaced) that has a Gin-registered method (which must stay registered)
      mcls = make_original('cls-methods', 'IM' + base)[0]
      msel = 'vfc13mod.meth_IM' + base
      ctor_before = (mcls.__dict__.get('__init__'), mcls.__dict__.get('__new__'))
      for label, reg in (('configurable', lambda: gin.configurable('pkg.im' + base, module='a..b')(mcls)), ('register', lambda: gin.register('pkg.im' + base, module='not a module')(mcls)),
                         ('external_configurable', lambda: gin.external_configurable(mcls, name='pkg.im' + base, module='1abc')),
                         ('configurable (module ends in a newline)', lambda: gin.configurable('im' + base, module='mod\n')(mcls)),
                         ('register (module ends in a newline)', lambda: gin.register('im' + base, module='mod\n')(mcls)),
                         ('configurable (name ends in a newline)', lambda: gin.configurable('im' + base + '\n', module='c13')(mcls)),
                         ('register (name ends in a newline)', lambda: gin.register('im' + base + '\n')(mcls))):
        try:
          reg()
          ctx.check(False, 'bad-registration-accepted', '%s of a class under a dotted name with an invalid module succeeded' % label)
        except (ValueError, TypeError):
          ctx.count('oracle_evals')
        ctx.check((mcls.__dict__.get('__init__'), mcls.__dict__.get('__new__')) == ctor_before, 'registration-altered-original',
                  'a refused %s (dotted name, invalid module) replaced the class constructor' % label)
        ctx.check(gin.config._REGISTRY.get(msel) is not None, 'rejected-registration-changed-registry',
                  'a refused %s (dotted name, invalid module) lost the registered method %s' % (label, msel))
      ctx.bucket('reject:class-with-registered-method-invalid-module')
    elif rej == 'different-object-same-name':
      mod_, nm_ = full.rsplit('.', 1) if '.' in full else (None, full)
      tries = [lambda: gin.register(nm_, module=mod_)(other), lambda: gin.external_configurable(other, name=nm_, module=mod_)]

      def known(x=0):
        return ('known', x)
      known.__name__ = 'known' + base
      gin.register('known' + base, module='c13')(known)     # an object Gin already knows under another name ...
      tries.append(lambda: gin.register(nm_, module=mod_)(known))   # ... is still a different object for this name
      tries.append(lambda: gin.external_configurable(gin.get_configurable(known), name=nm_, module=mod_))
    elif rej == 'unknown-in-list':
      tries = [lambda: gin.register('ul' + base, module='c13', allowlist=['nope'])(other), lambda: gin.external_configurable(other, name='ul' + base, module='c13', denylist=['x', 'nope'])]
      # a class with a Gin-registered method: a refused class registration must not have renamed the method in the registry
      mcls = make_original('cls-methods', 'RM' + base)[0]
      msel = 'vfc13mod.meth_RM' + base
      ctx.check(gin.config._REGISTRY.get(msel) is not None, 'harness', 'method not registered under %s' % msel)
      try:
        gin.register('rm' + base, module='c13', allowlist=['nope'])(mcls)
        ctx.check(False, 'bad-registration-accepted', 'class registration with an unknown allowlist entry succeeded')
      except (ValueError, TypeError):
        ctx.count('oracle_evals')
      ctx.bucket('reject:class-with-registered-method')
      ctx.check(gin.config._REGISTRY.get(msel) is not None and gin.config._REGISTRY.get('c13.rm%s.meth_RM%s' % (base, base)) is None,
                'rejected-registration-changed-registry', 'a refused class registration renamed its registered method: %s gone' % msel)
    elif rej == 'both-lists':
      tries = [lambda: gin.register('bl' + base, module='c13', allowlist=['x'], denylist=['x'])(other)]
    for t in tries:
      reg_before = registry_view(gin, full, base)
      other_before = dict(vars(other))
      try:
        t()
        ctx.check(False, 'bad-registration-accepted', 'registration that must be rejected (%s) succeeded' % rej)
      except (ValueError, TypeError):
        ctx.count('oracle_evals')
      ctx.check(registry_view(gin, full, base) == reg_before and dict(vars(other)) == other_before, 'rejected-registration-changed-registry',
                'after a rejected registration (%s) the registry view changed: %r -> %r' % (rej, reg_before, registry_view(gin, full, base)))
      try:
        gin.get_configurable(other)
        ctx.check(False, 'rejected-registration-left-inverse-entry', 'the rejected object is known to the registry')
      except ValueError:
        pass

  # ---- interactive mode
  im = case['interactive']
  if im and '.' in full:
    ctx.bucket('interactive:' + im)
    mod_, nm_ = full.rsplit('.', 1)

    def repl(x=0):
      return ('repl', x)
    repl.__name__ = nm_

    def must_fail(label):
      try:
        gin.register(nm_, module=mod_)(repl)
        ctx.check(False, 'reregistration-outside-interactive-mode', 're-registering %s %s was accepted' % (full, label))
      except ValueError:
        ctx.count('oracle_evals')
    must_fail('before interactive mode')
    try:
      gin.get_configurable('sc/ope/' + full)    # a scoped version exists before the name is re-registered
      gin.parse_config('c13cons.v = @sc/ope/%s' % full)
      _S['cons'].conf()
    except Exception:  # pylint: disable=broad-except
      pass
    if im == 'context-manager':
      with gin.config.interactive_mode():
        gin.register(nm_, module=mod_)(repl)
    elif im == 'enter-exit':
      gin.enter_interactive_mode()
      gin.register(nm_, module=mod_)(repl)
      gin.exit_interactive_mode()
    else:
      try:
        with gin.config.interactive_mode():
          gin.register(nm_, module=mod_)(repl)
          raise KeyError('leave')
      except KeyError:
        pass
    gin.clear_config()
    ctx.check(gin.get_configurable(full)() == ('repl', 0), 'interactive-reregistration-not-effective',
              'after re-registration in interactive mode %s still resolves to the old object' % full)
    ctx.check(gin.get_configurable('sc/ope/' + full)() == ('repl', 0), 'interactive-reregistration-not-effective',
              'after re-registration in interactive mode the scoped selector sc/ope/%s still resolves to the old object' % full)
    gin.parse_config('c13cons.v = @sc/ope/%s' % full)
    _S['cons'].conf()
    ctx.check(probes.RECORDER.log[-1].received['v']() == ('repl', 0), 'interactive-reregistration-not-effective',
              'after re-registration a scoped reference to %s still delivers the old object' % full)
    gin.clear_config()

    def repl2(x=0):
      return ('repl2', x)
    repl2.__name__ = nm_
    repl = repl2
    must_fail('after interactive mode ended (%s)' % im)
    try:
      gin.get_configurable(repl2)
      ctx.check(False, 'rejected-registration-left-inverse-entry', 'object rejected after interactive mode is in the registry')
    except ValueError:
      pass


def registry_view(gin, full, base):
  view = {}
  for sel in (full, 'c13.ul' + base, 'c13.bl' + base, 'c13.okname' + base, 'c13.bad name', '1abc'):
    try:
      view[sel] = id(gin.get_configurable(sel)) if False else gin.config._REGISTRY.get(sel) is not None and id(gin.config._REGISTRY.get(sel).wrapped)
    except Exception:  # pylint: disable=broad-except
      view[sel] = 'unresolvable'
  view['__len__'] = len(gin.config._REGISTRY)
  return view


LEVEL_TEXT = ('Runtime monitor over the product (15 callable/class shapes x 3 registration APIs x forms x name/module overrides x 6 access paths): '
              'identity/attribute snapshots of the original around registration, direct vs registry calls under root and scoped bindings, metadata and '
              'signature comparison, isinstance/issubclass/type identity, pickle round trip, registry views around rejected registrations and around '
              'interactive-mode blocks left normally or by exception.')
LEVEL_NOTE = 'Trusted: the per-shape source templates in this file. Only the shapes listed are covered; each case uses fresh names (the registry is append-only).'
TECHNIQUE = 'runtime differential monitor (original vs registry version) over a product of callable shapes, APIs and access paths'
DESIGN_REF = 'DESIGN.md section 4, C13'
