"""C10 — REQUIRED parameters are filled from the config or the call fails cleanly."""
import ast
import contextlib
import re

from vf import models, probes
from vf.teq import teq

ID = 'C10'
LEVEL = 'exploration'
RULE = ('random signature shape (fn / class __init__ / class __new__ / registered method / callable object / bound method / function behind a non-Gin '
        'functools.wraps decorator whose own signature consumes, injects, re-names or hides leading positionals; pos, defaulted, *args, '
        'kw-only, **kw) x placement of gin.REQUIRED among positional slots, keywords, signature defaults, names absorbed by **kw, a *args slot, a '
        'surplus positional slot without *args and an unknown keyword without **kw x active scope (entered as list / string / nested with / scoped '
        'selector of get_configurable / scoped or unscoped @reference of a consumer) x subset of marked parameters with an applicable binding '
        '(others bound only under non-applicable scopes, incl. a suffix of the active scope; some bound at two prefix levels) x kind of bound value '
        '(string, falsy, container, @evaluated(), @unevaluated, %macro; bind_parameter or parse_config) x allow/deny lists; histories of one wrapper '
        'in which applicability changes between calls (scope change, bind after failure, clear_config); registration with several signature-level '
        'REQUIRED of which one is not configurable; oracle = REQUIRED model: ValueError for vararg marker, RuntimeError naming the configurable '
        '(suffix resolution over the selectors this worker registered) and exactly the unfilled names in signature order (body not run), else '
        'reception computed by CPython\'s binder with the marker replaced in place by what the binding delivers. '
        'Positional-only signatures f(a, b, /, c=..) with the marker in any subset of the positional-only slots. '
        'distinct = (shape, api, signature features, marker placement classes, filled/missing counts, scope depth, access path, value kinds)')
TIERS = {
    'quick': {'workers': 8, 'cases': 3600, 'timeout': 600},
    'thorough': {'workers': 16, 'cases': 30000, 'timeout': 3000},
}
REQUIRED_BUCKETS = ['posonly:filled', 'posonly:missing', 'shape:fn', 'shape:init', 'shape:new', 'shape:method', 'mark:positional', 'mark:keyword', 'mark:signature', 'mark:varkw-extra',
                    'mark:vararg-slot', 'outcome:filled', 'outcome:missing', 'outcome:missing-multiple', 'outcome:vararg-rejected',
                    'outcome:partially-filled', 'scope:nonapplicable-binding', 'scope:depth2+', 'reg:required-denylisted', 'reg:required-not-allowlisted',
                    'mark:signature-overridden-by-caller', 'outcome:missing-order-differs-from-call-order', 'name:ambiguous-bare-name', 'binding:falsy-value',
                    'history:unmarked-call-after-marked-call',
                    # value kinds delivered into a REQUIRED-marked parameter
                    'value:evaluated-reference-into-marked-positional', 'value:evaluated-reference-into-marked', 'value:unevaluated-reference-into-marked',
                    'value:macro-into-marked', 'value:container-into-marked', 'value:via-parse_config', 'value:container-mutated-then-recalled',
                    # histories of one wrapper
                    'history:filled-then-missing', 'history:missing-then-filled', 'history:clear_config-between-calls',
                    'history:scope-change-between-calls', 'history:signature-required-filled-then-missing',
                    # registration
                    'reg:two-or-more-signature-required', 'reg:offender-not-first-required', 'reg:method-shape',
                    # scope / access paths
                    'scope:string-config_scope', 'scope:nested-with', 'path:get_configurable-scoped-selector', 'path:scoped-reference',
                    'path:unscoped-reference', 'scope:marked-bound-at-two-levels', 'scope:suffix-of-active-binding',
                    # markers outside the signature
                    'mark:surplus-positional-no-varargs', 'mark:unknown-keyword-no-varkw', 'outcome:varkw-extra-filled',
                    # the configurable is a functools.wraps wrapper of a non-Gin decorator: the signature that counts is the one Gin calls
                    'shape:decorated', 'deco:pass-through-signature-hidden', 'deco:layout-shifted-consumes-leading', 'deco:layout-shifted-injects-leading',
                    'deco:marker-in-wrapper-varargs-slot-named-by-inner', 'deco:positional-marker-on-wrapper-named-param',
                    'deco:keyword-marker-on-inner-param', 'deco:wrapper-signature-required', 'deco:marker-on-consumed-leading-param',
                    'deco:filled', 'deco:missing', 'deco:vararg-rejected']
ORACLE_COUNTERS = ['oracle_evals', 'calls_compared', 'error_messages_parsed']
MSG = re.compile(r"Required bindings for `([^`]+)` not provided in config: (\[.*?\])", re.S)

SHAPES = ['fn', 'init', 'new', 'method', 'fn', 'callable', 'init', 'boundmethod']
MODES = ['list', 'list', 'list', 'str', 'str', 'nested', 'nested', 'selector']
FALSY = {'none': None, 'zero': 0, 'empty': '', 'false': False}
VK_LITERAL = ['s', 's', 's', 'none', 'zero', 'empty', 'false', 'list', 'list', 'dict']
VK_REFS = ['evalref', 'evalref', 'evalref', 'ref', 'macro', 'macro']  # only expressible in config text
UNKNOWN_KW = 'zz9'


# ---------------------------------------------------------------------------
# generator


def _ok_fn(spec):
  allow, deny = spec.get('allow'), spec.get('deny')
  return lambda x: (not allow or x in allow) and (not deny or x not in deny)


def mark_signature(rng, spec, ok, prob=0.3, force=False):
  """signature-level REQUIRED on some defaulted params (must be configurable, else registration fails: separate case kind)"""
  cands = [d for d in spec['dflt'] if ok(d[0])] + [k for k in spec['kwonly'] if k[1] and ok(k[0])]
  for c in cands:
    if rng.random() < prob:
      c[-1] = {'__required__': True}
  if force and cands and not any(isinstance(c[-1], dict) for c in cands):
    rng.choice(cands)[-1] = {'__required__': True}


def sig_marked_names(spec):
  return [d[0] for d in spec['dflt'] if isinstance(d[1], dict)] + [k[0] for k in spec['kwonly'] if isinstance(k[2], dict)]


def gen_call_shape(rng, spec, extras=True):
  pos = probes.positional_names(spec)
  names = probes.all_named(spec)
  nP = rng.randrange(0, len(pos) + 1)
  # ensure non-defaulted positionals not covered positionally get a keyword (marker or value) so TypeErrors are rare
  marks_pos = [i for i in range(nP) if rng.random() < 0.4]
  extraP = 0
  vararg_mark = None
  if nP == len(pos) and extras:
    if spec['varargs'] and rng.random() < 0.4:
      extraP = rng.randrange(1, 3)
      if rng.random() < 0.5:
        vararg_mark = rng.randrange(extraP)
    elif not spec['varargs'] and rng.random() < 0.07:
      # more positionals than the signature has, no *args to absorb them, the marker among the surplus
      extraP = rng.randrange(1, 3)
      vararg_mark = rng.randrange(extraP)
  K, marks_kw = [], []
  for x in names:
    if x in pos[:nP]:
      continue
    r = rng.random()
    required_by_sig = x in spec['pos'] or any(k[0] == x and not k[1] for k in spec['kwonly'])
    if r < 0.3 or (required_by_sig and r < 0.8):
      K.append(x)
      if rng.random() < 0.55:
        marks_kw.append(x)
  if spec['varkw'] and rng.random() < 0.4:
    for x in rng.sample(['x0', 'x1', 'x2'], rng.randrange(1, 3)):
      K.append(x)
      if rng.random() < 0.7:
        marks_kw.append(x)
  if extras and not spec['varkw'] and rng.random() < 0.04:
    # the marker for a keyword that is no parameter at all (and no **kwargs to absorb it)
    K.append(UNKNOWN_KW)
    marks_kw.append(UNKNOWN_KW)
  rng.shuffle(K)
  return {'nP': nP, 'marks_pos': marks_pos, 'extraP': extraP, 'vararg_mark': vararg_mark, 'K': K, 'marks_kw': marks_kw}


def pick_value(rng, textual, marked=False):
  """textual: the case writes (most of) its bindings as config text, where references and macros can be expressed."""
  if not textual:
    return rng.choice(VK_LITERAL), 'bind'
  vk = rng.choice(VK_LITERAL + (VK_REFS * 2 if marked else VK_REFS[:2]))
  return vk, ('parse' if vk in VK_REFS or rng.random() < 0.7 else 'bind')


def gen_bindings(rng, bindable, marked, active, textual, unmarked_prob=0.25):
  """[scope, param, value kind, via] entries: marked names mostly bound (applicable / only under a non-applicable scope / not at all)."""
  bindings = []
  for x in bindable:
    r = rng.random()
    if x in marked:
      if r < 0.6:
        n1 = rng.randrange(0, len(active) + 1)
        bindings.append(['/'.join(active[:n1]), x] + list(pick_value(rng, textual, marked=True)))
        if active and rng.random() < 0.35:
          # the same marked parameter bound at a second prefix level: the longer prefix wins
          n2 = rng.choice([n for n in range(len(active) + 1) if n != n1])
          bindings.append(['/'.join(active[:n2]), x] + list(pick_value(rng, textual, marked=True)))
      elif r < 0.85:
        cands = ['zz', '/'.join(active) + '/deeper' if active else 'zz/a', 'b/zz']
        if len(active) >= 2:
          cands += ['/'.join(active[1:])] * 2  # a suffix of the active scope (applies only if it happens to be a prefix as well)
        bindings.append([rng.choice(cands), x] + list(pick_value(rng, textual, marked=True)))
    elif r < unmarked_prob:
      bindings.append(['/'.join(active[:rng.randrange(0, len(active) + 1)]), x] + list(pick_value(rng, textual)))
  rng.shuffle(bindings)
  return bindings


def gen_call_case(rng, i):
  shape = SHAPES[i % 8]
  mode = rng.choice(MODES + ['reference', 'reference'])
  textual = mode == 'reference' or rng.random() < 0.3   # one parse_config per textual case (it is the expensive step)
  if mode == 'reference' and shape == 'method':
    mode = 'list'
  spec = probes.gen_spec(rng, shapes=[shape], lists=mode != 'reference' and rng.random() < 0.3, max_pos=3)
  if mode == 'reference':
    # a reference `@P()` calls P without arguments: only signature-level markers exist on this path
    spec['pos'] = []
    for k in spec['kwonly']:
      if not k[1]:
        k[1], k[2] = True, 'dflt-' + k[0]
    if not spec['dflt'] and not spec['kwonly']:
      spec['dflt'] = [['d0', 'dflt-d0']]
  pos = probes.positional_names(spec)
  names = probes.all_named(spec)
  allow = spec.get('allow')
  ok = _ok_fn(spec)
  mark_signature(rng, spec, ok, prob=0.3, force=mode == 'reference')
  if mode == 'reference':
    call = {'nP': 0, 'marks_pos': [], 'extraP': 0, 'vararg_mark': None, 'K': [], 'marks_kw': []}
  else:
    call = gen_call_shape(rng, spec)
  active = [rng.choice(['a', 'b']) for _ in range(rng.choice([0, 0, 1, 2, 3]))]
  marked = [pos[i] for i in call['marks_pos']] + call['marks_kw'] + sig_marked_names(spec)
  bindable = [x for x in names if ok(x)] + (['x0', 'x1', 'x2'] if spec['varkw'] and not allow else [])
  bindings = gen_bindings(rng, bindable, marked, active, textual)
  case = {'kind': 'call', 'spec': spec, 'active': active, 'bindings': bindings, 'mode': mode,
          'ref_scoped': bool(active) and rng.random() < 0.6}
  case.update(call)
  return case


def gen_history_case(rng, i):
  """One wrapper, several calls; what applies changes in between (scope, later binding, clear_config)."""
  shape = SHAPES[(i // 18) % 8]
  spec = probes.gen_spec(rng, shapes=[shape], lists=False, max_pos=2)
  mark_signature(rng, spec, lambda x: True, prob=0.4, force=rng.random() < 0.8)
  call = gen_call_shape(rng, spec, extras=False)
  pos = probes.positional_names(spec)
  marked = [pos[j] for j in call['marks_pos']] + call['marks_kw'] + [x for x in sig_marked_names(spec) if x not in pos[:call['nP']] and x not in call['K']]
  marked = sorted(set(marked))
  s = [rng.choice(['a', 'b']) for _ in range(rng.choice([1, 1, 2]))]
  mode = lambda: rng.choice(MODES)

  def B(scope, names=None):
    return [['bind', scope, x] + list(pick_value(rng, False) if rng.random() < 0.8 else (rng.choice(VK_LITERAL), 'parse')) for x in (marked if names is None else names)]

  def C(active):
    return ['call', list(active), mode()]

  tmpl = rng.randrange(5)
  if tmpl == 0:      # bound under s only: filled under s, unfilled outside, filled again
    steps = B('/'.join(s)) + [C(s), C([]), C(s)] + ([C(s + ['b'])] if rng.random() < 0.5 else [])
  elif tmpl == 1:    # filled, clear_config, unfilled, bound again, filled
    steps = B('') + [C([]), ['clear'], C([])] + B('') + [C([])]
  elif tmpl == 2:    # unfilled first, then bound, then filled
    steps = [C(s)] + B('/'.join(s[:rng.randrange(0, len(s) + 1)])) + [C(s)]
  elif tmpl == 3:    # filled under s, then a sibling scope / a shorter scope
    steps = B('/'.join(s)) + [C(s), C(['zz']), C(s[:-1]), C(s)]
  else:
    steps = []
    actives = [[], s, s[:1], s + ['b'], ['zz']]
    for _ in range(rng.randrange(5, 9)):
      r = rng.random()
      if r < 0.45 and marked:
        steps += B(rng.choice(['', '/'.join(s), s[0], 'zz']), [rng.choice(marked)])
      elif r < 0.55:
        steps.append(['clear'])
      else:
        steps.append(C(rng.choice(actives)))
    steps.append(C(s))
  case = {'kind': 'history', 'spec': spec, 'steps': steps, 'tmpl': tmpl}
  case.update(call)
  return case


def gen_deco_layout(rng):
  """A function behind a non-Gin decorator that uses functools.wraps.  The callable Gin registers, calls and whose signature it must read is the
  decorator's wrapper `wrapper(<lead...>, <kept...>, *args, **kwargs)`, which calls `inner(<injected...>, <kept...>, *args, **kwargs)`:
    lead    parameters of the wrapper alone, consumed by it (the inner function never sees them)
    inject  leading inner positionals the wrapper supplies itself (the caller never passes them)
    kept    the inner positionals following the injected ones that the wrapper names as well (optionally with defaults of its own, some gin.REQUIRED)
  lead = inject = kept = 0 is the everyday signature-hiding `wrapper(*args, **kwargs)`.  Returns (outer spec = the wrapper's signature, layout)."""
  inner = probes.gen_spec(rng, shapes=['fn'], lists=False, max_pos=3)
  ipos = probes.positional_names(inner)
  inject = 1 if ipos and rng.random() < 0.35 else 0
  lead = rng.choice([0, 0, 0, 1, 1, 2])
  kept = ipos[inject:inject + rng.choice([0, 0, 1, 2])]
  own_defaults = bool(kept) and rng.random() < 0.45
  spec = {'shape': 'decorated', 'api': inner['api'], 'pos': ['w%d' % j for j in range(lead)] + ([] if own_defaults else list(kept)),
          'dflt': [[q, {'__required__': True} if rng.random() < 0.5 else 'wdflt-' + q] for q in kept] if own_defaults else [],
          'varargs': True, 'kwonly': [], 'varkw': True}
  return spec, {'inner': inner, 'lead': lead, 'inject': inject, 'kept': list(kept)}


def gen_deco_call_shape(rng, spec, deco):
  inner = deco['inner']
  pos = probes.positional_names(spec)                     # the positional slots that have a name in the callable Gin calls
  ipos = probes.positional_names(inner)
  injected = ipos[:deco['inject']]
  rest = ipos[deco['inject'] + len(deco['kept']):]        # inner positionals reachable only through the wrapper's unnamed *args
  nP = len(pos) if rng.random() < 0.6 else rng.randrange(0, len(pos) + 1)
  marks_pos = [i for i in range(nP) if rng.random() < 0.4]
  extraP, vararg_mark = 0, None
  if nP == len(pos) and rng.random() < 0.65:
    hi = len(rest) + (2 if inner['varargs'] else 0)
    extraP = rng.randrange(1, hi + 1) if hi else (1 if rng.random() < 0.2 else 0)
    if extraP and rng.random() < 0.5:
      vararg_mark = rng.randrange(extraP)
  K, marks_kw = [], []
  for x in pos[nP:]:
    if rng.random() < (0.8 if x in spec['pos'] else 0.3):
      K.append(x)
      if rng.random() < 0.55:
        marks_kw.append(x)
  for x in probes.all_named(inner):
    if x in injected or x in deco['kept'] or x in rest[:extraP]:
      continue
    needs = x in inner['pos'] or any(k[0] == x and not k[1] for k in inner['kwonly'])
    if rng.random() < (0.8 if needs else 0.3):
      K.append(x)
      if rng.random() < 0.55:
        marks_kw.append(x)
  if inner['varkw'] and rng.random() < 0.4:
    for x in rng.sample(['x0', 'x1', 'x2'], rng.randrange(1, 3)):
      K.append(x)
      if rng.random() < 0.7:
        marks_kw.append(x)
  rng.shuffle(K)
  return {'nP': nP, 'marks_pos': marks_pos, 'extraP': extraP, 'vararg_mark': vararg_mark, 'K': K, 'marks_kw': marks_kw}


def gen_deco_case(rng, i):
  spec, deco = gen_deco_layout(rng)
  call = gen_deco_call_shape(rng, spec, deco)
  inner = deco['inner']
  pos = probes.positional_names(spec)
  active = [rng.choice(['a', 'b']) for _ in range(rng.choice([0, 0, 1, 2, 3]))]
  marked = [pos[j] for j in call['marks_pos']] + call['marks_kw'] + sig_marked_names(spec)
  # what the binding APIs accept is decided on the innermost function: its names, and any name at all (the wrapper's own ones too) iff it has **kwargs
  bindable = probes.all_named(inner) + ([x for x in pos if x not in deco['kept']] + ['x0', 'x1', 'x2'] if inner['varkw'] else [])
  bindings = gen_bindings(rng, bindable, marked, active, rng.random() < 0.3, unmarked_prob=0.35)
  case = {'kind': 'call', 'spec': spec, 'deco': deco, 'active': active, 'bindings': bindings, 'mode': rng.choice(MODES), 'ref_scoped': False}
  case.update(call)
  return case


def iter_cases(ctx, rng, n):
  for i in range(n):
    if i % 12 == 11:
      yield gen_reg_case(rng)
    elif i % 30 == 13:
      # positional-only parameters `def f(a, b, /, c=..)`: the marker can only arrive positionally
      npo = rng.choice([1, 2, 3])
      marks = sorted(rng.sample(range(npo), rng.randrange(1, npo + 1)))
      yield {'kind': 'posonly', 'npo': npo, 'marks': marks, 'bound': [m for m in marks if rng.random() < 0.75],
             'scope': rng.choice(['', 'a', 'a/b']), 'bind_scope_depth': rng.randrange(3), 'shape': rng.choice(['fn', 'init']),
             'unrelated': rng.random() < 0.5, 'api': rng.choice(['configurable', 'external'])}
    elif i % 18 == 4:
      yield gen_history_case(rng, i)
    elif i % 10 == 7:
      yield gen_deco_case(rng, i)
    else:
      yield gen_call_case(rng, i)


def gen_reg_case(rng):
  spec = probes.gen_spec(rng, shapes=[rng.choice(['fn', 'init', 'new', 'method'])], lists=False)
  if not spec['dflt'] and not [k for k in spec['kwonly'] if k[1]]:
    spec['dflt'] = [['d0', 'dflt-d0'], ['d1', 'dflt-d1']]
  elif rng.random() < 0.5 and len(spec['dflt']) + len([k for k in spec['kwonly'] if k[1]]) < 2:
    spec['kwonly'] = spec['kwonly'] + [['k7', True, 'dflt-k7']]
  cands = [d for d in spec['dflt']] + [k for k in spec['kwonly'] if k[1]]
  victim = rng.choice(cands)
  victim[-1] = {'__required__': True}
  # further signature-level REQUIRED parameters, all of them configurable: only the victim offends
  extra = [c for c in cands if c is not victim and rng.random() < 0.6]
  for c in extra:
    c[-1] = {'__required__': True}
  extra = [c[0] for c in extra]
  names = probes.all_named(spec)
  mode = rng.choice(['deny', 'allow'])
  if mode == 'deny':
    spec['deny'] = [victim[0]] + [x for x in names if x != victim[0] and x not in extra and rng.random() < 0.3]
  else:
    others = [x for x in names if x != victim[0] and x not in extra]
    if not others and not extra:
      spec['pos'] = spec['pos'] + ['pz']
      others = ['pz']
    spec['allow'] = extra + ([rng.choice(others)] if others and (not extra or rng.random() < 0.5) else [])
  return {'kind': 'reg', 'spec': spec, 'mode': mode, 'victim': victim[0], 'extra': extra}


# ---------------------------------------------------------------------------
# model helpers

_KNOWN = {}      # last dotted component -> selectors this worker registered (the names a user can know)
_HELPERS = {}
_MACROS = [0]


def track(selector):
  _KNOWN.setdefault(selector.rsplit('.', 1)[-1], set()).add(selector)


def resolve_known(printed):
  """Which registered selectors does `printed` denote (gin's suffix rule, vf.models.resolve_suffix)."""
  return models.resolve_suffix(_KNOWN.get(printed.rsplit('.', 1)[-1], ()), printed)


def helpers(ctx):
  """A parameterless provider `mk` (target of @mk() / @mk) and a consumer `cons(v=None)` (holder of a reference to the probe)."""
  if not _HELPERS:
    base = {'shape': 'fn', 'api': 'configurable', 'module': 'vfq.h', 'pos': [], 'dflt': [], 'varargs': False, 'kwonly': [], 'varkw': False}
    _HELPERS['mk'] = probes.build(dict(base, name='mk_%s' % ctx.uid))
    _HELPERS['cons'] = probes.build(dict(base, name='cons_%s' % ctx.uid, dflt=[['v', None]]))
    track(_HELPERS['mk'].selector)
    track(_HELPERS['cons'].selector)
  return _HELPERS['mk'], _HELPERS['cons']


def make_value(vk, scope, param):
  """A fresh, equal structure on every call: the model never aliases what gin was given."""
  tag = 'B|%s|%s' % (scope, param)
  if vk in FALSY:
    return FALSY[vk]
  if vk == 'list':
    return [tag, [1, 2], {'k': ['deep']}]
  if vk == 'dict':
    return {'t': tag, 'l': [1, [2]]}
  return tag


class Bound:
  """What a binding must deliver to the function."""
  __slots__ = ('kind', 'value', 'mk')

  def __init__(self, kind, value, mk=None):
    self.kind, self.value, self.mk = kind, value, mk

  def matches(self, gv):
    if self.kind == 'evalref':
      return type(gv) is list and len(gv) == 3 and gv[:2] == ['ret', self.mk.pid]
    if self.kind == 'ref':
      try:
        r = gv()
      except Exception:  # pylint: disable=broad-except
        return False
      return type(r) is list and len(r) == 3 and r[:2] == ['ret', self.mk.pid]
    return teq(self.value, gv)

  def __repr__(self):
    return '<bound %s %r>' % (self.kind, self.value)


def same(ev, gv):
  if isinstance(ev, Bound):
    return ev.matches(gv)
  if isinstance(ev, list):
    return ev is gv       # caller-supplied values travel by identity
  return teq(ev, gv)


def same_reception(e, got):
  if set(got) != set(e):
    return False
  for name, ev in e.items():
    gv = got[name]
    if name == '*':
      if len(ev) != len(gv) or not all(same(a, b) for a, b in zip(ev, gv)):
        return False
    elif name == '**':
      if set(ev) != set(gv) or not all(same(ev[k], gv[k]) for k in ev):
        return False
    elif not same(ev, gv):
      return False
  return True


def apply_bindings(ctx, gin, p, model, bindings, lines=()):
  """Bind [scope, param, value kind, via] entries: the bind_parameter ones first, then the textual ones in one parse_config."""
  mk, _ = helpers(ctx)
  lines = list(lines)
  for via_now in ('bind', 'parse'):
    for scope, param, vk, via in bindings:
      if via != via_now:
        continue
      if vk in FALSY:
        ctx.bucket('binding:falsy-value')
      if via == 'bind':
        gin.bind_parameter((scope, p.selector, param), make_value(vk, scope, param))
        exp = Bound(vk, make_value(vk, scope, param))
      else:
        if vk == 'evalref':
          text, exp = '@%s()' % mk.selector, Bound(vk, '@mk()', mk)
        elif vk == 'ref':
          text, exp = '@%s' % mk.selector, Bound(vk, '@mk', mk)
        elif vk == 'macro':
          _MACROS[0] += 1
          name = 'VFMAC_%d' % _MACROS[0]
          lines.append('%s = %r' % (name, make_value('s', scope, param)))
          text, exp = '%' + name, Bound(vk, make_value('s', scope, param))
        else:
          text, exp = repr(make_value(vk, scope, param)), Bound(vk, make_value(vk, scope, param))
        lines.append('%s%s.%s = %s' % (scope + '/' if scope else '', p.selector, param, text))
      model.setdefault((scope, p.selector), {})[param] = exp
  if lines:
    ctx.bucket('value:via-parse_config')
    gin.parse_config('\n'.join(lines) + '\n')


def build_probe(ctx, spec, decoy):
  if decoy:
    # a decoy with the same name under another module: the bare name is now ambiguous
    spec = dict(spec, name='R%d_%s' % (ctx.case_no, ctx.uid))
    d = probes.build({'shape': 'fn', 'api': 'external', 'name': spec['name'], 'module': 'vfq.decoy', 'pos': [], 'dflt': [], 'varargs': False,
                      'kwonly': [], 'varkw': False})
    track(d.selector)
    ctx.bucket('name:ambiguous-bare-name')
  p = probes.build(spec)
  track(p.selector)
  if spec['shape'] == 'method':
    track(p.cls_selector)
  ctx.bucket('shape:' + spec['shape'])
  return spec, p


def build_decorated(ctx, spec, deco):
  """Registers the decorator's wrapper (see gen_deco_layout).  The returned probe describes the wrapper: .spec its signature, .twin CPython's binder for
  it chained to the inner function's binder, .pid the inner function's recorder id, .ran one entry per run of the wrapper's body (what it consumed)."""
  import functools
  inner = probes.build(dict(deco['inner']), register=False)
  lead = ['w%d' % j for j in range(deco['lead'])]
  p = probes.Probe()
  p.spec, p.pid, p.name, p.module, p.inner = spec, inner.pid, inner.name, 'vfp.deco', inner
  p.defaults = probes.make_defaults(spec)
  p.ran = []
  params = probes.params_source(spec, 'VF_WD')
  fwd = ', '.join(['VF_INJ[%d]' % j for j in range(deco['inject'])] + list(deco['kept']) + ['*args', '**kwargs'])
  consumed = '{' + ', '.join("'<%s>': %s" % (x, x) for x in lead) + '}'
  g = {'VF_WD': p.defaults, 'VF_INJ': [['injected-by-decorator', j] for j in range(deco['inject'])], 'VF_ran': p.ran, 'VF_fn': inner.original,
       'VF_twin': inner.twin, '__name__': 'vfprobes'}
  src = ('def VF_wrapper(%s):\n  VF_ran.append(%s)\n  return VF_fn(%s)\n'
         'def VF_wtwin(%s):\n  r = dict(VF_twin(%s))\n  r.update(%s)\n  return r\n' % (params, consumed, fwd, params, fwd, consumed))
  exec(src, g)  # pylint: disable=exec-used
  p.source = inner.source + src
  p.original = functools.wraps(inner.original)(g['VF_wrapper'])
  p.twin = g['VF_wtwin']
  probes.do_register(p)
  track(p.selector)
  ctx.bucket('shape:decorated')
  if deco['lead']:
    ctx.bucket('deco:layout-shifted-consumes-leading')
  if deco['inject']:
    ctx.bucket('deco:layout-shifted-injects-leading')
  if not deco['lead'] and not deco['inject'] and not deco['kept']:
    ctx.bucket('deco:pass-through-signature-hidden')
  return spec, p


def reception(p, rec):
  """What the body received; for a decorated probe: what the inner function received plus what the wrapper consumed ('<name>')."""
  got = rec.received
  if getattr(p, 'ran', None):
    got = dict(got)
    got.update(p.ran[-1])
  return got


def describe_deco(spec, deco):
  inner = deco['inner']
  fwd = ', '.join(['<injected>'] * deco['inject'] + list(deco['kept']) + ['*args', '**kwargs'])
  return '`wrapper(%s)` (functools.wraps; calls `inner(%s)`, inner signature `(%s)`)' % (
      probes.params_source(spec, 'D'), fwd, probes.params_source(inner, 'D'))


def describe_call(gin, P, K):
  return '(%s)' % ', '.join(['REQUIRED' if v is gin.REQUIRED else 'v' for v in P] + ['%s=%s' % (k, 'REQUIRED' if v is gin.REQUIRED else 'v') for k, v in K.items()])


def build_args(gin, call):
  P = [gin.REQUIRED if i in call['marks_pos'] else ['caller-pos', i] for i in range(call['nP'])]
  P += [gin.REQUIRED if call['vararg_mark'] == i else ['caller-var', i] for i in range(call['extraP'])]
  K = {}
  for k in call['K']:
    K[k] = gin.REQUIRED if k in call['marks_kw'] else ['caller-kw', k]
  return P, K


def invoke(ctx, gin, p, P, K, active, mode, ref_scoped):
  """Call the probe with `active` as the active scope, reached through access path `mode`."""
  shape = p.spec['shape']
  if mode == 'reference':
    _, cons = helpers(ctx)
    if ref_scoped and active:
      ctx.bucket('path:scoped-reference')
      return cons.conf()
    ctx.bucket('path:unscoped-reference')
    with (gin.config_scope(list(active)) if active else contextlib.nullcontext()):
      return cons.conf()
  if mode == 'selector' and shape != 'method':
    if active:
      ctx.bucket('path:get_configurable-scoped-selector')
    fn = gin.get_configurable(('/'.join(active) + '/' if active else '') + p.selector)
    return fn(*P, **K)
  with contextlib.ExitStack() as st:
    if active and mode == 'str':
      ctx.bucket('scope:string-config_scope')
      st.enter_context(gin.config_scope('/'.join(active)))
    elif active and mode == 'nested':
      ctx.bucket('scope:nested-with')
      for c in active:
        st.enter_context(gin.config_scope(c))
    elif active:
      st.enter_context(gin.config_scope(list(active)))
    return probes.call_probe(p, P, K)


# ---------------------------------------------------------------------------
# oracle


def run_reg(ctx, case):
  import gin
  spec = case['spec']
  method = spec['shape'] == 'method'
  ctx.bucket('reg:required-denylisted' if case['mode'] == 'deny' else 'reg:required-not-allowlisted')
  if case.get('extra'):
    ctx.bucket('reg:two-or-more-signature-required')
    order = [x for x in probes.all_named(spec) if x == case['victim'] or x in case['extra']]
    if order[0] != case['victim']:
      ctx.bucket('reg:offender-not-first-required')
  if method:
    ctx.bucket('reg:method-shape')
  p = probes.build(spec, register=False)
  if ctx.case_no % 2 == 0 and not method:
    # the same object is first registered under another name, without lists: accepted, and its signature-level REQUIRED is honoured;
    # whatever that registration looked at must not change what the next registration of the same object sees
    ctx.bucket('reg:same-object-registered-before')
    first = gin.external_configurable(p.original, name=p.name + '_first', module=p.module)
    track('%s.%s_first' % (p.module, p.name))
    K = {n: 0 for n in spec['pos']}
    K.update({k[0]: 0 for k in spec['kwonly'] if not k[1]})
    mark = probes.RECORDER.mark()
    try:
      first(**K)
      ctx.check(False, 'missing-required-not-reported', 'first registration of the object: call with %r unbound did not fail' % case['victim'])
    except RuntimeError as e:
      mt = MSG.search(str(e))
      ctx.check(case['victim'] in str(e), 'required-error-list-differs', 'first registration: error does not name %r: %s' % (case['victim'], str(e)[:200]))
      if mt is not None:
        want = [x for x in probes.all_named(spec) if x == case['victim'] or x in case.get('extra', [])]
        ctx.check(ast.literal_eval(mt.group(2)) == want, 'required-error-list-differs',
                  'first registration: error lists %s, model (all signature-level REQUIRED, signature order) %r' % (mt.group(2), want))
    except Exception as e:  # pylint: disable=broad-except
      ctx.check(False, 'unexpected-exception', 'first registration: %s: %s' % (type(e).__name__, str(e)[:200]))
    ctx.check(not probes.RECORDER.since(mark, p.pid), 'body-ran-with-unfilled-required', 'first registration: the body ran although %r was unfilled' % case['victim'])
  before = getattr(p.original, '__init__', None) if spec['shape'] == 'init' else None
  try:
    probes.do_register(p)
    ctx.check(False, 'required-on-nonconfigurable-param-registered',
              'registration accepted a signature-level REQUIRED on %s parameter %r (other signature-level REQUIRED: %r)' %
              ('denylisted' if case['mode'] == 'deny' else 'non-allowlisted', case['victim'], case.get('extra')))
  except ValueError:
    ctx.count('oracle_evals')
  queries = ['%s.%s' % (p.module, p.name), p.name]
  if method:
    queries += ['%s.%s.%s' % (p.module, p.cls_name, p.name), '%s.%s' % (p.cls_name, p.name)]
  for q in queries:
    try:
      gin.get_configurable(q)
      ctx.check(False, 'rejected-registration-left-entry', 'rejected registration left %s in the registry' % q)
    except ValueError:
      ctx.count('oracle_evals')
  if before is not None:
    ctx.check(p.original.__init__ is before, 'rejected-registration-mutated-class', 'rejected registration replaced __init__')
  ctx.fp('reg', spec['shape'], spec['api'], case['mode'], len(case.get('extra', [])))


_S = {}


def run_posonly(ctx, case):
  import gin
  gin.clear_config()
  _S['posonly_n'] = _S.get('posonly_n', 0) + 1
  name = 'c10po%d_w%d' % (_S['posonly_n'], ctx.widx)
  names = ['p%d' % i for i in range(case['npo'])]
  g = {}
  if case['shape'] == 'fn':
    exec('def %s(%s, /, c="dc"):\n  return (%s, c)\n' % (name, ', '.join(names), ', '.join(names)), g)
  else:
    exec('class %s:\n  def __init__(self, %s, /, c="dc"):\n    self.got = (%s, c)\n' % (name, ', '.join(names), ', '.join(names)), g)
  if case['api'] == 'configurable':
    conf = gin.configurable(name, module='c10.po')(g[name])
  else:
    conf = gin.external_configurable(g[name], name, module='c10.po')
  comps = [c for c in case['scope'].split('/') if c]
  bscope = '/'.join(comps[:min(case['bind_scope_depth'], len(comps))])
  for m in case['bound']:
    gin.bind_parameter((bscope, 'c10.po.' + name, names[m]), 'bound-%d' % m)
  if case['unrelated']:
    gin.bind_parameter(('', 'c10.po.' + name, 'c'), 'bound-c')
  args = [gin.REQUIRED if i in case['marks'] else 'caller-%d' % i for i in range(case['npo'])]
  missing = [names[m] for m in case['marks'] if m not in case['bound']]
  ctx.bucket('posonly:' + ('missing' if missing else 'filled'))
  ctx.fp('posonly', case['npo'], tuple(case['marks']), tuple(case['bound']), case['scope'], case['bind_scope_depth'], case['shape'], case['api'])
  try:
    with gin.config_scope(case['scope'] or None):
      res = conf(*args)
    got = res if case['shape'] == 'fn' else res.got
    exc = None
  except Exception as e:  # pylint: disable=broad-except
    got, exc = None, e
  ctx.count('oracle_evals')
  if missing:
    ok = isinstance(exc, RuntimeError) and all(repr(x) in str(exc) or x in str(exc) for x in missing) and not any(
        ("'%s'" % names[m]) in str(exc) for m in case['bound'])
    ctx.check(ok, 'posonly-required-missing-not-reported', 'positional-only %s called with gin.REQUIRED at %r, bound %r under %r (active %r): expected a '
              'RuntimeError naming exactly %r, got %r / %r' % (names, case['marks'], case['bound'], bscope, case['scope'], missing, exc, got))
  else:
    want = tuple(('bound-%d' % i) if i in case['marks'] else 'caller-%d' % i for i in range(case['npo'])) + ('bound-c' if case['unrelated'] else 'dc',)
    ctx.check(exc is None and got == want, 'posonly-required-not-filled', 'positional-only %s called with gin.REQUIRED at %r, all bound under %r (active %r): '
              'expected %r, got %r / %r' % (names, case['marks'], bscope, case['scope'], want, got, exc))
  gin.clear_config()


def run_case(ctx, case):
  import gin
  if case['kind'] == 'posonly':
    return run_posonly(ctx, case)
  if case['kind'] == 'reg':
    return run_reg(ctx, case)
  if case['kind'] == 'history':
    return run_history(ctx, gin, case)
  gin.clear_config()
  if case.get('deco'):
    spec, p = build_decorated(ctx, case['spec'], case['deco'])
  else:
    spec, p = build_probe(ctx, case['spec'], case['spec']['shape'] != 'method' and ctx.case_no % 3 == 0)
  model = {}
  lines = []
  if case.get('mode') == 'reference':
    # the consumer's parameter holds a reference to the probe: evaluating it is the call
    _, cons = helpers(ctx)
    scoped = case.get('ref_scoped') and case['active']
    lines.append('%s.v = @%s%s()' % (cons.selector, '/'.join(case['active']) + '/' if scoped else '', p.selector))
  apply_bindings(ctx, gin, p, model, case['bindings'], lines)
  do_call(ctx, gin, p, spec, model, case, case['active'], case.get('mode', 'list'), case.get('ref_scoped', False), followup=True)


def run_history(ctx, gin, case):
  gin.clear_config()
  spec, p = build_probe(ctx, case['spec'], case['spec']['shape'] != 'method' and ctx.case_no % 2 == 0)
  model = {}
  prev = prev_active = None
  cleared = False
  sig_marked = sig_marked_names(spec)
  pending = []
  for step in case['steps']:
    if step[0] == 'bind':
      pending.append(step[1:])
      continue
    if pending:
      apply_bindings(ctx, gin, p, model, pending)
      pending = []
    if step[0] == 'clear':
      gin.clear_config()
      model.clear()
      cleared = True
    else:
      out = do_call(ctx, gin, p, spec, model, case, step[1], step[2], False, followup=False)
      if prev == 'filled' and out == 'missing':
        ctx.bucket('history:filled-then-missing')
        pos = probes.positional_names(spec)
        if any(x not in pos[:case['nP']] and x not in case['K'] for x in sig_marked):
          ctx.bucket('history:signature-required-filled-then-missing')
      if prev == 'missing' and out == 'filled':
        ctx.bucket('history:missing-then-filled')
      if prev is not None and cleared:
        ctx.bucket('history:clear_config-between-calls')
      if prev is not None and prev_active != step[1]:
        ctx.bucket('history:scope-change-between-calls')
      prev, prev_active, cleared = out, step[1], False


def do_call(ctx, gin, p, spec, model, call, active, mode, ref_scoped, followup):
  """One call of the probe, judged against the REQUIRED model; returns the outcome class."""
  applicable = models.overlay(model, p.selector, active)
  astr = '/'.join(active)
  if any(sc and not (astr == sc or astr.startswith(sc + '/')) for (sc, _) in model):
    ctx.bucket('scope:nonapplicable-binding')
  if any(sc and not (astr == sc or astr.startswith(sc + '/')) and astr.endswith('/' + sc) for (sc, _) in model):
    ctx.bucket('scope:suffix-of-active-binding')
  if len(active) >= 2:
    ctx.bucket('scope:depth2+')
  pos = probes.positional_names(spec)
  names = probes.all_named(spec)
  nP = call['nP']
  P, K = build_args(gin, call)
  sig_marked = sig_marked_names(spec)
  unknown_kw = [k for k in call['marks_kw'] if k not in names and not spec['varkw']]
  if call['marks_pos']:
    ctx.bucket('mark:positional')
  if any(k in names for k in call['marks_kw']):
    ctx.bucket('mark:keyword')
  if spec['varkw'] and any(k not in names for k in call['marks_kw']):
    ctx.bucket('mark:varkw-extra')
  if unknown_kw:
    ctx.bucket('mark:unknown-keyword-no-varkw')
  if sig_marked:
    ctx.bucket('mark:signature')
  if call['vararg_mark'] is not None:
    ctx.bucket('mark:vararg-slot' if spec['varargs'] else 'mark:surplus-positional-no-varargs')
  deco = call.get('deco')
  if deco:
    # the signature that decides what a positional slot is called, which slots are unnamed and what is signature-level REQUIRED is the one of the
    # callable Gin calls (the decorator's wrapper): CPython binds the caller's arguments against that one, not against the function it wraps
    ipos = probes.positional_names(deco['inner'])
    if call['vararg_mark'] is not None and nP + call['vararg_mark'] < len(ipos):
      ctx.bucket('deco:marker-in-wrapper-varargs-slot-named-by-inner')
    if call['marks_pos']:
      ctx.bucket('deco:positional-marker-on-wrapper-named-param')
    if any(pos[i] not in deco['kept'] for i in call['marks_pos']) or any(k in pos and k not in deco['kept'] for k in call['marks_kw']):
      ctx.bucket('deco:marker-on-consumed-leading-param')
    if any(k not in pos and k in probes.all_named(deco['inner']) for k in call['marks_kw']):
      ctx.bucket('deco:keyword-marker-on-inner-param')
    if sig_marked:
      ctx.bucket('deco:wrapper-signature-required')

  # ---- model
  expect = None
  marked = []
  if unknown_kw:
    # a name that is no parameter can have no binding: the call cannot succeed, and the marker must not reach the body (any exception class)
    expect = ('AnyError', 'unknown-keyword-required-not-rejected', 'gin.REQUIRED for keyword %r, which is no parameter and there is no **kwargs' % unknown_kw)
  elif call['vararg_mark'] is not None and spec['varargs']:
    expect = ('ValueError',)
  elif call['vararg_mark'] is not None:
    expect = ('AnyError', 'surplus-positional-required-not-rejected', 'gin.REQUIRED as a surplus positional argument (no *args in the signature)')
  else:
    marked_pos = [pos[i] for i in call['marks_pos']]
    supplied = set(pos[:nP]) | set(K)
    sig_pending = [x for x in sig_marked if x not in supplied]
    if any(x in supplied and x not in marked_pos and x not in call['marks_kw'] for x in sig_marked):
      ctx.bucket('mark:signature-overridden-by-caller')
    marked = marked_pos + sig_pending + [k for k in call['K'] if k in call['marks_kw']]
    for x in set(marked):
      if sum(1 for i in range(len(active) + 1) if x in model.get(('/'.join(active[:i]), p.selector), {})) >= 2:
        ctx.bucket('scope:marked-bound-at-two-levels')
    missing = [x for x in marked if x not in applicable]
    if missing:
      sig_order = pos + [k[0] for k in spec['kwonly']]
      ordered = [x for x in sig_order if x in missing]
      ordered += [x for x in call['K'] if x in missing and x not in ordered]
      expect = ('RuntimeError', ordered)
      if len(set(missing)) < len(set(marked)):
        ctx.bucket('outcome:partially-filled')
      if ordered != [x for x in marked if x in missing]:
        ctx.bucket('outcome:missing-order-differs-from-call-order')
    else:
      P2 = [applicable[pos[i]] if i in call['marks_pos'] else v for i, v in enumerate(P)]
      K2 = {k: (applicable[k] if k in call['marks_kw'] else v) for k, v in K.items()}
      inj = {k: v for k, v in applicable.items() if k not in pos[:nP] and k not in K}
      try:
        expect = ('ok', p.twin(*P2, **{**inj, **K2}), bool(marked))
      except TypeError as e:
        expect = ('TypeError', str(e))

  mark = probes.RECORDER.mark()
  wmark = len(p.ran) if deco else 0
  got_exc = None
  try:
    invoke(ctx, gin, p, P, dict(K), active, mode, ref_scoped)
  except Exception as e:  # pylint: disable=broad-except
    got_exc = e
  recs = probes.RECORDER.since(mark, p.pid)
  wruns = len(p.ran) - wmark if deco else 0      # runs of the decorator's wrapper: the body of the function Gin wraps
  where = ' [registered callable %s called with %s]' % (describe_deco(spec, deco), describe_call(gin, P, K)) if deco else ''
  ctx.count('calls_compared')
  kinds = sorted({applicable[x].kind for x in marked if x in applicable})
  ctx.fp(spec['shape'], spec['api'], len(spec['pos']), len(spec['dflt']), spec['varargs'], len(spec['kwonly']), spec['varkw'],
         len(call['marks_pos']), len(call['marks_kw']), len(sig_marked), expect[0], len(expect[1]) if expect[0] == 'RuntimeError' else 0, len(active),
         mode, kinds, (deco['lead'], deco['inject'], len(deco['kept']), len(ipos), deco['inner']['varargs'], deco['inner']['varkw'],
                       call['extraP'], call['vararg_mark']) if deco else None)
  ctx.sample({'spec': spec, 'P': [('REQUIRED' if v is gin.REQUIRED else 'v') for v in P], 'K': {k: ('REQUIRED' if v is gin.REQUIRED else 'v') for k, v in K.items()},
              'active': active, 'mode': mode, 'bindings': sorted((sc, sorted(d)) for (sc, _), d in model.items()), 'expect': repr(expect)[:300],
              'deco': deco}, cap=4)

  if expect[0] == 'AnyError':
    ctx.check(got_exc is not None and not recs, expect[1],
              '%s: got %r, body ran %d times, received %r' % (expect[2], got_exc, len(recs), recs[0].received if recs else None))
    return 'rejected'
  if expect[0] == 'ValueError':
    ctx.bucket('outcome:vararg-rejected')
    if deco:
      ctx.bucket('deco:vararg-rejected')
    ctx.check(isinstance(got_exc, ValueError) and not recs and not wruns, 'vararg-required-not-rejected',
              'gin.REQUIRED in a *args slot%s: got %r, body ran %d times%s' %
              (' of the registered callable %s' % describe_deco(spec, deco) if deco else '', got_exc, max(len(recs), wruns),
               ', the inner function received %r' % (recs[0].received,) if deco and recs else ''))
    return 'rejected'
  if expect[0] == 'RuntimeError':
    ctx.bucket('outcome:missing')
    if len(expect[1]) > 1:
      ctx.bucket('outcome:missing-multiple')
    if not ctx.check(isinstance(got_exc, RuntimeError), 'missing-required-not-reported',
                     'unfilled REQUIRED %r (path %s, scope %r): expected RuntimeError, got %r (body ran %d times, received %r)%s' %
                     (expect[1], mode, active, got_exc, len(recs), recs[0].received if recs else None, where)):
      return 'missing'
    ctx.check(not recs and not wruns, 'body-ran-despite-missing-required', 'body ran although %r were unfilled' % (expect[1],))
    if deco:
      ctx.bucket('deco:missing')
    mt = MSG.search(str(got_exc))
    if not ctx.check(mt is not None, 'required-error-message-format', 'message %r' % str(got_exc)[:300]):
      return 'missing'
    ctx.count('error_messages_parsed')
    # the printed name, read the way a user reads it: suffix resolution over the selectors registered here (not gin's registry)
    named = resolve_known(mt.group(1))
    ctx.check(named == [p.selector], 'required-error-names-wrong-configurable',
              'error names %r which denotes %r among the registered selectors, expected exactly %s' % (mt.group(1), named, p.selector))
    listed = ast.literal_eval(mt.group(2))
    if deco:
      # exactly the unfilled names; their order is demanded only among the parameters that the wrapper's and the inner function's signature
      # both name (in the same relative order) - where the remaining ones belong depends on whose signature 'signature order' refers to
      both = deco['kept']
      ctx.check(sorted(listed) == sorted(expect[1]) and [x for x in listed if x in both] == [x for x in expect[1] if x in both],
                'required-error-list-differs', 'registered callable %s called with %s: error lists %r, the unfilled REQUIRED parameters are %r (path %s, scope %r)' %
                (describe_deco(spec, deco), describe_call(gin, P, K), listed, expect[1], mode, active))
    else:
      ctx.check(listed == expect[1], 'required-error-list-differs',
                'error lists %r, model (unfilled, signature order) %r (path %s, scope %r)' % (listed, expect[1], mode, active))
    if followup:
      followup_call(ctx, gin, p, spec, active, applicable, sig_marked)
    return 'missing'
  if expect[0] == 'TypeError' and deco:
    # e.g. a bound inner parameter that the caller also reaches through the wrapper's *args: whether the binding has to yield is not C10's matter
    ctx.bucket('deco:binder-typeerror-not-judged')
    return 'typeerror'
  if expect[0] == 'TypeError':
    ctx.check(isinstance(got_exc, TypeError), 'expected-TypeError', 'binder raises TypeError(%s); gin gave %r' % (expect[1], got_exc))
    return 'typeerror'
  ctx.bucket('outcome:filled' if expect[2] else 'outcome:no-marker')
  if not ctx.check(got_exc is None, 'unexpected-exception', 'call raised %s: %s; expected %r (path %s, scope %r)%s' %
                   (type(got_exc).__name__, str(got_exc)[:300], expect[1], mode, active, where)):
    return 'error'
  if not ctx.check(len(recs) == 1 and wruns == (1 if deco else 0), 'probe-run-count', 'probe body ran %d times' % len(recs)):
    return 'error'
  got = reception(p, recs[0])
  if deco and expect[2]:
    ctx.bucket('deco:filled')
  flat = list(got.values()) + list(got.get('*', ())) + list(got.get('**', {}).values())
  ctx.check(not any(v is gin.REQUIRED for v in flat), 'required-marker-leaked', 'the function received gin.REQUIRED itself: %r' % got)
  e = expect[1]
  received_marked = {x: (got[x] if x in got else got['<%s>' % x] if '<%s>' % x in got else got.get('**', {}).get(x)) for x in marked}
  for x in marked:
    b = applicable[x]
    if b.kind == 'evalref':
      ctx.bucket('value:evaluated-reference-into-marked')
      if x in [pos[i] for i in call['marks_pos']]:
        ctx.bucket('value:evaluated-reference-into-marked-positional')
    elif b.kind == 'ref':
      ctx.bucket('value:unevaluated-reference-into-marked')
    elif b.kind == 'macro':
      ctx.bucket('value:macro-into-marked')
    elif b.kind in ('list', 'dict'):
      ctx.bucket('value:container-into-marked')
    if x not in names:
      ctx.bucket('outcome:varkw-extra-filled')
  undelivered = [x for x in marked if applicable[x].kind in ('evalref', 'ref', 'macro') and not applicable[x].matches(received_marked[x])]
  if undelivered:
    ctx.check(False, 'required-reference-binding-not-delivered',
              'REQUIRED-marked %r bound to a reference/macro: received %r, the binding delivers %r' %
              (undelivered, {x: received_marked[x] for x in undelivered}, {x: applicable[x] for x in undelivered}))
  else:
    ctx.check(same_reception(e, got), 'required-filled-wrong', 'received %r, model %r (applicable %r, path %s, scope %r)%s' % (got, e, applicable, mode, active, where))
  # the consumer changes the containers it was handed; the next identical call must again be filled from the binding
  mutated = []
  for x in marked:
    gv = received_marked[x]
    if applicable[x].kind == 'list' and type(gv) is list:
      gv.append('MUTATED-BY-CONSUMER')
      gv[1].append(3) if len(gv) > 1 and type(gv[1]) is list else None
      mutated.append(x)
    elif applicable[x].kind == 'dict' and type(gv) is dict:
      gv['MUTATED-BY-CONSUMER'] = 1
      mutated.append(x)
  if mutated:
    ctx.bucket('value:container-mutated-then-recalled')
    P, K = build_args(gin, call)
    P2 = [applicable[pos[i]] if i in call['marks_pos'] else v for i, v in enumerate(P)]
    K2 = {k: (applicable[k] if k in call['marks_kw'] else v) for k, v in K.items()}
    e2 = p.twin(*P2, **{**inj, **K2})
    mark = probes.RECORDER.mark()
    exc = None
    try:
      invoke(ctx, gin, p, P, dict(K), active, mode, ref_scoped)
    except Exception as ex:  # pylint: disable=broad-except
      exc = ex
    recs = probes.RECORDER.since(mark, p.pid)
    if ctx.check(exc is None and len(recs) == 1, 'unexpected-exception', 'the same call repeated raised %r (body ran %d times)' % (exc, len(recs))):
      ctx.check(same_reception(e2, reception(p, recs[0])), 'required-filled-value-aliases-config',
                'the consumer mutated the containers it received for %r; the same call repeated then received %r, the binding is %r' %
                (mutated, reception(p, recs[0]), {x: applicable[x] for x in mutated}))
  if followup:
    followup_call(ctx, gin, p, spec, active, applicable, sig_marked)
  return 'filled' if expect[2] else 'nomarker'


def followup_call(ctx, gin, p, spec, active, applicable, sig_marked):
  """A later, unmarked call of the same configurable: what an earlier call marked REQUIRED must not stick."""
  ctx.bucket('history:unmarked-call-after-marked-call')
  K = {}
  for n in spec['pos']:
    if n not in applicable:
      K[n] = ['later', n]
  for n, has, _ in spec['kwonly']:
    if not has and n not in applicable:
      K[n] = ['later', n]
  for n in sig_marked:
    if n not in applicable:
      K[n] = ['later', n]
  if spec['varkw']:
    K['x9'] = ['later', 'x9']
  inj = {k: v for k, v in applicable.items() if k not in K}
  try:
    want = p.twin(**{**inj, **K})
  except TypeError:
    return
  mark = probes.RECORDER.mark()
  exc = None
  try:
    if active:
      with gin.config_scope(list(active)):
        probes.call_probe(p, [], dict(K))
    else:
      probes.call_probe(p, [], dict(K))
  except Exception as e:  # pylint: disable=broad-except
    exc = e
  recs = probes.RECORDER.since(mark, p.pid)
  if not ctx.check(exc is None and len(recs) == 1, 'later-unmarked-call-failed',
                   'a later call without any REQUIRED marker (all unfilled parameters supplied by the caller) raised %r' % (exc,)):
    return
  got = reception(p, recs[0])
  ctx.check(same_reception(want, got), 'later-unmarked-call-differs', 'later unmarked call received %r, model %r' % (got, want))


def finish(ctx):
  # 'partially filled' = histories where some marked params had bindings and others did not (counted from the missing path)
  pass


LEVEL_TEXT = ('Runtime monitor with a REQUIRED-rule reference model: every generated placement of gin.REQUIRED (positional, keyword, '
              'signature default, **kwargs extra, *args slot, surplus positional, unknown keyword; also on wrappers of non-Gin functools.wraps '
              'decorators that consume / inject / re-name / hide leading positionals) x binding subset x kind of bound value x scope '
              'x access path is executed on the real wrapper, also as histories of one wrapper across which applicability changes; the exception '
              'class, the parsed error message (configurable named, unfilled names in signature order), whether the body ran, the exact reception '
              '(CPython binder with the marker replaced in place by what the binding delivers) and non-leakage of the marker are compared.')
LEVEL_NOTE = ('Trusted: the REQUIRED model (~60 lines) and CPython argument binding. Bindings whose value is %gin.REQUIRED itself are excluded (DESIGN X). '
              'Configurables behind a non-Gin functools.wraps decorator are inside the property: "signature", "position" and "unnamed variadic positional" '
              'are read against the callable Gin registers and calls (the decorator\'s wrapper - CPython binds the caller\'s arguments against it, and '
              'Gin\'s own vararg error text says so), never against the function it wraps. Left open there: signature-level REQUIRED of the inner function '
              '(not generated), the place of names outside both signatures in the missing list (only set equality + order among names both signatures '
              'share), and calls whose binder raises TypeError (a bound inner parameter also reached through *args).')
TECHNIQUE = 'runtime reference-model monitor over generated REQUIRED placements and call histories, with error-message parsing'
DESIGN_REF = 'DESIGN.md section 4, C10'
