"""C10 — REQUIRED parameters are filled from the config or the call fails cleanly."""
import ast
import re

from vf import models, probes
from vf.teq import teq

ID = 'C10'
LEVEL = 'exploration'
RULE = ('random signature shape (fn / class __init__ / class __new__ / registered method; pos, defaulted, *args, kw-only, **kw) x '
        'placement of gin.REQUIRED among positional slots, keywords, signature defaults, names absorbed by **kw and a *args slot x '
        'active scope x subset of marked parameters with an applicable binding (others bound only under non-applicable scopes) x '
        'allow/deny lists; oracle = REQUIRED model: ValueError for vararg marker, RuntimeError naming the configurable and exactly the '
        'unfilled names in signature order (body not run), else reception computed by CPython\'s binder with the marker replaced in place. '
        'distinct = (shape, api, signature features, marker placement classes, filled/missing counts, scope depth)')
TIERS = {
    'quick': {'workers': 8, 'cases': 3600, 'timeout': 600},
    'thorough': {'workers': 16, 'cases': 30000, 'timeout': 3000},
}
REQUIRED_BUCKETS = ['shape:fn', 'shape:init', 'shape:new', 'shape:method', 'mark:positional', 'mark:keyword', 'mark:signature', 'mark:varkw-extra',
                    'mark:vararg-slot', 'outcome:filled', 'outcome:missing', 'outcome:missing-multiple', 'outcome:vararg-rejected',
                    'outcome:partially-filled', 'scope:nonapplicable-binding', 'scope:depth2+', 'reg:required-denylisted', 'reg:required-not-allowlisted',
                    'mark:signature-overridden-by-caller', 'outcome:missing-order-differs-from-call-order', 'name:ambiguous-bare-name', 'binding:falsy-value',
                    'history:unmarked-call-after-marked-call']
ORACLE_COUNTERS = ['oracle_evals', 'calls_compared', 'error_messages_parsed']
MSG = re.compile(r"Required bindings for `([^`]+)` not provided in config: (\[.*?\])", re.S)


def iter_cases(ctx, rng, n):
  for i in range(n):
    if i % 12 == 11:
      yield gen_reg_case(rng)
      continue
    spec = probes.gen_spec(rng, shapes=[['fn', 'init', 'new', 'method', 'fn', 'callable', 'init', 'boundmethod'][i % 8]], lists=rng.random() < 0.3, max_pos=3)
    pos = probes.positional_names(spec)
    names = probes.all_named(spec)
    allow, deny = spec.get('allow'), spec.get('deny')
    ok = lambda x: (not allow or x in allow) and (not deny or x not in deny)
    # signature-level REQUIRED on some defaulted params (must be configurable, else registration fails: separate case kind)
    for d in spec['dflt']:
      if rng.random() < 0.3 and ok(d[0]):
        d[1] = {'__required__': True}
    for k in spec['kwonly']:
      if k[1] and rng.random() < 0.3 and ok(k[0]):
        k[2] = {'__required__': True}
    nP = rng.randrange(0, len(pos) + 1)
    # ensure non-defaulted positionals not covered positionally get a keyword (marker or value) so TypeErrors are rare
    marks_pos = [i for i in range(nP) if rng.random() < 0.4]
    extraP = 0
    vararg_mark = None
    if spec['varargs'] and nP == len(pos) and rng.random() < 0.4:
      extraP = rng.randrange(1, 3)
      if rng.random() < 0.5:
        vararg_mark = rng.randrange(extraP)
    K, marks_kw = [], []
    for x in names:
      if x in pos[:nP]:
        continue
      r = rng.random()
      required_by_sig = x in spec['pos'] or any(k[0] == x and not k[1] for k in spec['kwonly'])
      if r < 0.3 or (required_by_sig and r < 0.8):
        K.append(x)
        if rng.random() < 0.55:
          marks_kw.append(x)
    if spec['varkw'] and rng.random() < 0.4:
      for x in rng.sample(['x0', 'x1', 'x2'], rng.randrange(1, 3)):
        K.append(x)
        if rng.random() < 0.7:
          marks_kw.append(x)
    rng.shuffle(K)
    active = [rng.choice(['a', 'b']) for _ in range(rng.choice([0, 0, 1, 2, 3]))]
    marked = [pos[i] for i in marks_pos] + marks_kw + [d[0] for d in spec['dflt'] if isinstance(d[1], dict)] + \
        [k[0] for k in spec['kwonly'] if isinstance(k[2], dict)]
    bindable = [x for x in names if ok(x)] + (['x0', 'x1', 'x2'] if spec['varkw'] and not allow else [])
    bindings = []
    for x in bindable:
      r = rng.random()
      if x in marked:
        if r < 0.6:
          bindings.append(['/'.join(active[:rng.randrange(0, len(active) + 1)]), x])
        elif r < 0.85:
          bindings.append([rng.choice(['zz', '/'.join(active) + '/deeper' if active else 'zz/a', 'b/zz']), x])
      elif r < 0.25:
        bindings.append(['/'.join(active[:rng.randrange(0, len(active) + 1)]), x])
    yield {'kind': 'call', 'spec': spec, 'nP': nP, 'marks_pos': marks_pos, 'extraP': extraP, 'vararg_mark': vararg_mark,
           'K': K, 'marks_kw': marks_kw, 'active': active, 'bindings': bindings}


def gen_reg_case(rng):
  spec = probes.gen_spec(rng, shapes=[rng.choice(['fn', 'init', 'new'])], lists=False)
  if not spec['dflt'] and not [k for k in spec['kwonly'] if k[1]]:
    spec['dflt'] = [['d0', 'dflt-d0'], ['d1', 'dflt-d1']]
  cands = [d for d in spec['dflt']] + [k for k in spec['kwonly'] if k[1]]
  victim = rng.choice(cands)
  if len(victim) == 2:
    victim[1] = {'__required__': True}
  else:
    victim[2] = {'__required__': True}
  names = probes.all_named(spec)
  mode = rng.choice(['deny', 'allow'])
  if mode == 'deny':
    spec['deny'] = [victim[0]] + [x for x in names if x != victim[0] and rng.random() < 0.3]
  else:
    others = [x for x in names if x != victim[0]]
    if not others:
      spec['pos'] = spec['pos'] + ['pz']
      others = ['pz']
    spec['allow'] = [rng.choice(others)]
  return {'kind': 'reg', 'spec': spec, 'mode': mode, 'victim': victim[0]}


def run_reg(ctx, case):
  import gin
  spec = case['spec']
  ctx.bucket('reg:required-denylisted' if case['mode'] == 'deny' else 'reg:required-not-allowlisted')
  p = probes.build(spec, register=False)
  if ctx.case_no % 2 == 0:
    # the same object is first registered under another name, without lists: accepted, and its signature-level REQUIRED is honoured;
    # whatever that registration looked at must not change what the next registration of the same object sees
    ctx.bucket('reg:same-object-registered-before')
    first = gin.external_configurable(p.original, name=p.name + '_first', module=p.module)
    K = {n: 0 for n in spec['pos']}
    K.update({k[0]: 0 for k in spec['kwonly'] if not k[1]})
    mark = probes.RECORDER.mark()
    try:
      first(**K)
      ctx.check(False, 'missing-required-not-reported', 'first registration of the object: call with %r unbound did not fail' % case['victim'])
    except RuntimeError as e:
      ctx.check(case['victim'] in str(e), 'required-error-list-differs', 'first registration: error does not name %r: %s' % (case['victim'], str(e)[:200]))
    except Exception as e:  # pylint: disable=broad-except
      ctx.check(False, 'unexpected-exception', 'first registration: %s: %s' % (type(e).__name__, str(e)[:200]))
    ctx.check(not probes.RECORDER.since(mark, p.pid), 'body-ran-with-unfilled-required', 'first registration: the body ran although %r was unfilled' % case['victim'])
  before = getattr(p.original, '__init__', None) if spec['shape'] == 'init' else None
  try:
    probes.do_register(p)
    ctx.check(False, 'required-on-nonconfigurable-param-registered',
              'registration accepted a signature-level REQUIRED on %s parameter %r' % ('denylisted' if case['mode'] == 'deny' else 'non-allowlisted', case['victim']))
  except ValueError:
    ctx.count('oracle_evals')
  try:
    gin.get_configurable('%s.%s' % (p.module, p.name))
    ctx.check(False, 'rejected-registration-left-entry', 'rejected registration left %s.%s in the registry' % (p.module, p.name))
  except ValueError:
    ctx.count('oracle_evals')
  if before is not None:
    ctx.check(p.original.__init__ is before, 'rejected-registration-mutated-class', 'rejected registration replaced __init__')
  ctx.fp('reg', spec['shape'], spec['api'], case['mode'])


def run_case(ctx, case):
  import gin
  if case['kind'] == 'reg':
    return run_reg(ctx, case)
  spec = case['spec']
  gin.clear_config()
  if spec['shape'] != 'method' and ctx.case_no % 3 == 0:
    # a decoy with the same name under another module: the bare name is now ambiguous
    spec = dict(spec, name='R%d_%s' % (ctx.case_no, ctx.uid))
    probes.build({'shape': 'fn', 'api': 'external', 'name': spec['name'], 'module': 'vfq.decoy', 'pos': [], 'dflt': [], 'varargs': False,
                  'kwonly': [], 'varkw': False})
    ctx.bucket('name:ambiguous-bare-name')
  p = probes.build(spec)
  ctx.bucket('shape:' + spec['shape'])
  model = {}
  for bi, (scope, param) in enumerate(case['bindings']):
    # bound values include falsy ones: a binding of None / 0 / '' / [] is still a binding
    value = [None, 0, '', 'B|%s|%s' % (scope, param), False, 'B|%s|%s' % (scope, param)][(ctx.case_no + bi) % 6] if (ctx.case_no % 3 == 0) else 'B|%s|%s' % (scope, param)
    if value in (None, 0, '', False):
      ctx.bucket('binding:falsy-value')
    gin.bind_parameter((scope, p.selector, param), value)
    model.setdefault((scope, p.selector), {})[param] = value
  active = case['active']
  applicable = models.overlay(model, p.selector, active)
  if any(sc and not ('/'.join(active) == sc or '/'.join(active).startswith(sc + '/')) for (sc, _) in model):
    ctx.bucket('scope:nonapplicable-binding')
  if len(active) >= 2:
    ctx.bucket('scope:depth2+')
  pos = probes.positional_names(spec)
  nP = case['nP']
  P = [gin.REQUIRED if i in case['marks_pos'] else ['caller-pos', i] for i in range(nP)]
  P += [gin.REQUIRED if case['vararg_mark'] == i else ['caller-var', i] for i in range(case['extraP'])]
  K = {}
  for k in case['K']:
    K[k] = gin.REQUIRED if k in case['marks_kw'] else ['caller-kw', k]
  sig_marked = [d[0] for d in spec['dflt'] if isinstance(d[1], dict)] + [k[0] for k in spec['kwonly'] if isinstance(k[2], dict)]
  if case['marks_pos']:
    ctx.bucket('mark:positional')
  if any(k in probes.all_named(spec) for k in case['marks_kw']):
    ctx.bucket('mark:keyword')
  if any(k not in probes.all_named(spec) for k in case['marks_kw']):
    ctx.bucket('mark:varkw-extra')
  if sig_marked:
    ctx.bucket('mark:signature')
  if case['vararg_mark'] is not None:
    ctx.bucket('mark:vararg-slot')

  # ---- model
  expect = None
  if case['vararg_mark'] is not None:
    expect = ('ValueError',)
  else:
    marked_pos = [pos[i] for i in case['marks_pos']]
    supplied = set(pos[:nP]) | set(K)
    sig_pending = [x for x in sig_marked if x not in supplied]
    if any(x in supplied and x not in marked_pos and x not in case['marks_kw'] for x in sig_marked):
      ctx.bucket('mark:signature-overridden-by-caller')
    marked = marked_pos + sig_pending + [k for k in case['K'] if k in case['marks_kw']]
    missing = [x for x in marked if x not in applicable]
    if missing:
      sig_order = pos + [k[0] for k in spec['kwonly']]
      ordered = [x for x in sig_order if x in missing]
      ordered += [x for x in case['K'] if x in missing and x not in ordered]
      expect = ('RuntimeError', ordered)
      if len(set(missing)) < len(set(marked)):
        ctx.bucket('outcome:partially-filled')
      if ordered != [x for x in marked if x in missing]:
        ctx.bucket('outcome:missing-order-differs-from-call-order')
    else:
      P2 = [applicable[pos[i]] if i in case['marks_pos'] else v for i, v in enumerate(P)]
      K2 = {k: (applicable[k] if k in case['marks_kw'] else v) for k, v in K.items()}
      inj = {k: v for k, v in applicable.items() if k not in pos[:nP] and k not in K}
      try:
        expect = ('ok', p.twin(*P2, **{**inj, **K2}), bool(marked))
      except TypeError as e:
        expect = ('TypeError', str(e))

  mark = probes.RECORDER.mark()
  got_exc = None
  try:
    if active:
      with gin.config_scope(list(active)):
        probes.call_probe(p, P, dict(K))
    else:
      probes.call_probe(p, P, dict(K))
  except Exception as e:  # pylint: disable=broad-except
    got_exc = e
  recs = probes.RECORDER.since(mark, p.pid)
  ctx.count('calls_compared')
  ctx.fp(spec['shape'], spec['api'], len(spec['pos']), len(spec['dflt']), spec['varargs'], len(spec['kwonly']), spec['varkw'],
         len(case['marks_pos']), len(case['marks_kw']), len(sig_marked), expect[0], len(expect[1]) if expect[0] == 'RuntimeError' else 0, len(active))
  ctx.sample({'spec': spec, 'P': [('REQUIRED' if v is gin.REQUIRED else 'v') for v in P], 'K': {k: ('REQUIRED' if v is gin.REQUIRED else 'v') for k, v in K.items()},
              'active': active, 'bindings': case['bindings'], 'expect': repr(expect)[:300]}, cap=4)

  if expect[0] == 'ValueError':
    ctx.bucket('outcome:vararg-rejected')
    ctx.check(isinstance(got_exc, ValueError) and not recs, 'vararg-required-not-rejected',
              'gin.REQUIRED in a *args slot: got %r, body ran %d times' % (got_exc, len(recs)))
    return
  if expect[0] == 'RuntimeError':
    ctx.bucket('outcome:missing')
    if len(expect[1]) > 1:
      ctx.bucket('outcome:missing-multiple')
    if not ctx.check(isinstance(got_exc, RuntimeError), 'missing-required-not-reported',
                     'unfilled REQUIRED %r: expected RuntimeError, got %r (body ran %d times, received %r)' %
                     (expect[1], got_exc, len(recs), recs[0].received if recs else None)):
      return
    ctx.check(not recs, 'body-ran-despite-missing-required', 'body ran although %r were unfilled' % (expect[1],))
    mt = MSG.search(str(got_exc))
    if not ctx.check(mt is not None, 'required-error-message-format', 'message %r' % str(got_exc)[:300]):
      return
    ctx.count('error_messages_parsed')
    from gin import config as gc
    try:
      named = gc._REGISTRY.get_match(mt.group(1))
    except KeyError:
      named = None  # ambiguous
    ctx.check(named is not None and named.selector == p.selector, 'required-error-names-wrong-configurable',
              'error names %r which resolves to %r, expected %s' % (mt.group(1), getattr(named, 'selector', None), p.selector))
    listed = ast.literal_eval(mt.group(2))
    ctx.check(listed == expect[1], 'required-error-list-differs',
              'error lists %r, model (unfilled, signature order) %r' % (listed, expect[1]))
    followup_call(ctx, gin, p, spec, active, applicable, sig_marked)
    return
  if expect[0] == 'TypeError':
    ctx.check(isinstance(got_exc, TypeError), 'expected-TypeError', 'binder raises TypeError(%s); gin gave %r' % (expect[1], got_exc))
    return
  ctx.bucket('outcome:filled' if expect[2] else 'outcome:no-marker')
  if not ctx.check(got_exc is None, 'unexpected-exception', 'call raised %s: %s; expected %r' % (type(got_exc).__name__, str(got_exc)[:300], expect[1])):
    return
  if not ctx.check(len(recs) == 1, 'probe-run-count', 'probe body ran %d times' % len(recs)):
    return
  got = recs[0].received
  flat = list(got.values()) + list(got.get('*', ())) + list(got.get('**', {}).values())
  ctx.check(not any(v is gin.REQUIRED for v in flat), 'required-marker-leaked', 'the function received gin.REQUIRED itself: %r' % got)
  e = expect[1]
  ok = set(got) == set(e)
  for name in e:
    if not ok:
      break
    ev, gv = e[name], got.get(name)
    if name == '*':
      ok = len(ev) == len(gv) and all(a is b for a, b in zip(ev, gv))
    elif name == '**':
      ok = set(ev) == set(gv) and all((ev[k] is gv[k]) if isinstance(ev[k], list) else teq(ev[k], gv[k]) for k in ev)
    elif isinstance(ev, list):
      ok = ev is gv
    else:
      ok = teq(ev, gv)
  ctx.check(ok, 'required-filled-wrong', 'received %r, model %r (applicable %r)' % (got, e, applicable))
  followup_call(ctx, gin, p, spec, active, applicable, sig_marked)


def followup_call(ctx, gin, p, spec, active, applicable, sig_marked):
  """A later, unmarked call of the same configurable: what an earlier call marked REQUIRED must not stick."""
  ctx.bucket('history:unmarked-call-after-marked-call')
  K = {}
  for n in spec['pos']:
    if n not in applicable:
      K[n] = ['later', n]
  for n, has, _ in spec['kwonly']:
    if not has and n not in applicable:
      K[n] = ['later', n]
  for n in sig_marked:
    if n not in applicable:
      K[n] = ['later', n]
  if spec['varkw']:
    K['x9'] = ['later', 'x9']
  inj = {k: v for k, v in applicable.items() if k not in K}
  try:
    want = p.twin(**{**inj, **K})
  except TypeError:
    return
  mark = probes.RECORDER.mark()
  exc = None
  try:
    if active:
      with gin.config_scope(list(active)):
        probes.call_probe(p, [], dict(K))
    else:
      probes.call_probe(p, [], dict(K))
  except Exception as e:  # pylint: disable=broad-except
    exc = e
  recs = probes.RECORDER.since(mark, p.pid)
  if not ctx.check(exc is None and len(recs) == 1, 'later-unmarked-call-failed',
                   'a later call without any REQUIRED marker (all unfilled parameters supplied by the caller) raised %r' % (exc,)):
    return
  got = recs[0].received
  ok = set(got) == set(want) and all((got[k] is want[k]) if isinstance(want[k], list) else (teq(got[k], want[k]) if k not in ('*', '**') else True) for k in want)
  ctx.check(ok, 'later-unmarked-call-differs', 'later unmarked call received %r, model %r' % (got, want))


def finish(ctx):
  # 'partially filled' = histories where some marked params had bindings and others did not (counted from the missing path)
  pass


LEVEL_TEXT = ('Runtime monitor with a REQUIRED-rule reference model: every generated placement of gin.REQUIRED (positional, keyword, '
              'signature default, **kwargs extra, *args slot) x binding subset x scope is executed on the real wrapper; the exception class, the '
              'parsed error message (configurable named, unfilled names in signature order), whether the body ran, the exact reception '
              '(CPython binder with the marker replaced in place) and non-leakage of the marker are compared.')
LEVEL_NOTE = 'Trusted: the REQUIRED model (~40 lines) and CPython argument binding. Bindings whose value is %gin.REQUIRED itself are excluded (DESIGN X).'
TECHNIQUE = 'runtime reference-model monitor over generated REQUIRED placements, with error-message parsing'
DESIGN_REF = 'DESIGN.md section 4, C10'
