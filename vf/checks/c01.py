"""C01 — injected arguments: caller's values over scope-layered bindings."""
from vf import models, probes
from vf.teq import teq

ID = 'C01'
LEVEL = 'exploration'
RULE = ('random signature (pos/defaulted/*args/kw-only/**kw; function, class __init__, class __new__, registered method) x '
        'registration API x scoped binding set over a 3-letter scope alphabet (depth 0-4) x active scope program '
        '(str, a/b, list, None, scoped get_configurable) x call shape; oracle = prefix-overlay model + CPython binder (twin). '
        'distinct = (shape, api, signature features, active depth, #applicable layers, call-shape classes, access path)')
TIERS = {
    'quick': {'workers': 8, 'cases': 1800, 'timeout': 600, 'exhaustive': False},
    'thorough': {'workers': 16, 'cases': 25000, 'timeout': 3000, 'exhaustive': True},
}
SHAPES = ['fn', 'init', 'new', 'method', 'callable', 'boundmethod']
# further workloads for the property's online monitor (vf/online.py): the repository's tests and other checks' generated cases
ONLINE = {'which': ['inject'], 'foreign': ['C04', 'C05', 'C07', 'C10', 'C12', 'C13', 'C17', 'C20'], 'n': {'quick': 40, 'thorough': 600}}
REQUIRED_BUCKETS = (['shape:' + s for s in SHAPES] + ['api:configurable', 'api:register', 'api:external'] +
                    ['depth:%d' % d for d in range(5)] +
                    ['call:positional-override', 'call:keyword-override', 'call:omitted-bound', 'call:omitted-default',
                     'sig:kwonly', 'sig:varargs', 'sig:varkw', 'sig:extra-via-varkw', 'layers:2+', 'layers:3+',
                     'nonprefix-binding-present', 'string-prefix-trap', 'via:scoped-get', 'via:scope',
                     'expect:TypeError', 'expect:ok', 'entry:list', 'entry:none', 'entry:slash', 'history:round2+', 'history:rebind-existing',
                     'history:bind-new-after-call', 'history:scoped-call-left-by-BaseException', 'call:caller-value-with-hostile-eq',
                     'history:consumer-mutated-bound-value', 'entry:derived', 'shape:decorated-with-shifted-positional-layout'] +
                    # extension wave (audit gaps 1-8)
                    ['call:falsy-positional-over-binding', 'call:falsy-keyword-over-binding', 'call:caller-None-over-binding',
                     'layers:falsy-overrides-truthy', 'layers:truthy-overrides-falsy',
                     'bind:bind_parameter-under-active-scope', 'bind:parse_config-under-active-scope', 'bind:under-the-scope-of-the-later-call',
                     'history:rebind-through-parse_config-flat', 'history:rebind-through-parse_config-block', 'history:rebind-under-active-scope',
                     'via:scoped-get-under-other-ambient-scope', 'via:scoped-ref', 'via:scoped-ref-under-other-ambient-scope', 'via:scoped-ref-evaluated',
                     'history:second-call-under-other-scope', 'history:call-after-leaving-innermost-scope', 'history:call-after-clear_config',
                     'history:bound-before-clear_config-default-after', 'entry:dotted-component', 'layers:dotted-scope-binding-applies',
                     'dotted-vs-slash-trap'])
FOREIGN_SKIP_KINDS = ('function-named-like-renamed-method',)   # exhibits the recorded rename-table finding (see vf/foreign.py)
ORACLE_COUNTERS = ['oracle_evals', 'calls_compared']
ALPHA = ['a', 'b', 'c']
DOTTED = ['a.b', 'c.d']          # scope components may contain periods (module-like names)
# switches for generator features (rule 4: a feature that exposes a real defect of gin is switched off here, never hidden in the oracle)
ENABLE_FALSY_CALLER_VALUES = True
ENABLE_FALSY_BOUND_VALUES = True
ENABLE_BIND_UNDER_ACTIVE_SCOPE = True
ENABLE_AMBIENT_SCOPE_AROUND_SCOPED_ACCESS = True
ENABLE_SCOPED_REFERENCES = True
ENABLE_SECOND_CALLS = True
ENABLE_REBIND_THROUGH_PARSE = True
ENABLE_CLEAR_ROUNDS = True
ENABLE_DOTTED_SCOPES = True
N_FALSY = 8


def falsy(i):
  """A fresh falsy value (mutable ones are new objects every time)."""
  return [None, 0, '', [], False, (), {}, 0.0][i % N_FALSY]


def gen_scope_prog(rng):
  prog = []
  for _ in range(rng.choice([0, 1, 1, 2, 2, 3, 4])):
    k = rng.random()
    if ENABLE_DOTTED_SCOPES and rng.random() < 0.12:
      d = rng.choice(DOTTED)
      prog.append(rng.choice([['str', d], ['str', d + '/' + rng.choice(ALPHA)], ['str', rng.choice(ALPHA) + '/' + d], ['list', [d]],
                              ['list', [d, rng.choice(ALPHA + DOTTED)]]]))
    elif k < 0.55:
      prog.append(['str', rng.choice(ALPHA + ['ab'])])
    elif k < 0.75:
      prog.append(['str', '/'.join(rng.choice(ALPHA) for _ in range(rng.choice([2, 3])))])
    elif k < 0.85:
      prog.append(['list', [rng.choice(ALPHA) for _ in range(rng.randrange(0, 4))]])
    elif k < 0.9:
      prog.append(['derived', rng.choice(ALPHA)])   # s = gin.current_scope(); s.append(x); config_scope(s)
    elif k < 0.95:
      prog.append(['none'])
    else:
      prog.append(['empty'])
  return prog


def scope_arg(e, cur):
  if e[0] == 'derived':
    return list(cur) + [e[1]]
  return e[1] if e[0] in ('str', 'list') else (None if e[0] == 'none' else '')


def iter_cases(ctx, rng, n):
  for i in range(n):
    if i % 200 == 57:
      yield {'kind': 'function-named-like-renamed-method'}
      continue
    if i % 40 == 17:
      yield {'kind': 'decorated-shift', 'bind': [x for x in ('p0', 'p1', 'k') if rng.random() < 0.6], 'npos': rng.choice([0, 1, 1, 2]),
             'kw': [x for x in ('p1', 'k') if rng.random() < 0.3], 'scope': rng.choice(['', 'a', 'a/b']), 'api': rng.choice(['configurable', 'external']),
             'bscope': rng.choice(['', '', 'a', 'a/b', 'b'])}
      continue
    spec = probes.gen_spec(rng, shapes=[SHAPES[i % 6]])
    names = list(probes.all_named(spec))
    allow, deny = spec.get('allow'), spec.get('deny')
    bindable = [x for x in names if (not allow or x in allow) and (not deny or x not in deny)]
    if spec['varkw'] and not allow:
      bindable += ['x0', 'x1']
    prog = gen_scope_prog(rng)
    m = models.ScopeModel()
    for e in prog:
      m.enter(scope_arg(e, m.cur))
    active = m.cur
    via = 'scope'
    k = rng.random()
    if k < 0.2 and active:
      via = 'scoped-get'
    elif k < 0.32 and active and ENABLE_SCOPED_REFERENCES:
      via = 'scoped-ref'
    # the scope that is active around a scoped get_configurable / scoped reference: must be irrelevant
    ambient = None
    if ENABLE_AMBIENT_SCOPE_AROUND_SCOPED_ACCESS and rng.random() < 0.6:
      ambient = rng.choice(['c', 'b/a', 'a', ['c', 'a'], ['b'], 'zz'] + (['/'.join(active[:-1])] if len(active) > 1 else []))
    # binding scopes: prefixes of the active scope (likely), siblings, suffixes, string-prefix traps
    cands = ['/'.join(active[:k]) for k in range(len(active) + 1)]
    cands += ['/'.join(active[1:])] if len(active) > 1 else []
    cands += [s + 'c' for s in cands if s] + [s + '/a' for s in cands if s] + ['a', 'b', 'a/b', 'ab', 'b/a/b']
    if ENABLE_DOTTED_SCOPES:
      # 'a.b' is one component: neither 'a/b' nor 'a' is a prefix of it (and the other way round)
      cands += ['a.b'] + [s.replace('.', '/') for s in cands if '.' in s] + [s.replace('/', '.', 1) for s in cands if '/' in s][:2]

    def api_for(scope, apis):
      # a period inside a scope name is not part of the config-file syntax for binding keys: those go through bind_parameter
      return rng.choice(['str', 'tuple'] if '.' in scope else apis)

    def extra(value_p, under_p):
      x = {}
      if ENABLE_FALSY_BOUND_VALUES and rng.random() < value_p:
        x['v'] = rng.randrange(N_FALSY)
      if ENABLE_BIND_UNDER_ACTIVE_SCOPE and rng.random() < under_p:
        # the scope that is active while the binding is made: the later call's scope, a prefix, something else
        x['under'] = rng.choice([list(active)] * 2 + ['c', 'a/b', ['b', 'a'], 'zz', 'a.b'] + cands[:len(active) + 1])
        if not x['under']:
          x['under'] = 'a'
      return x
    bindings = []
    for b in bindable:
      for s in rng.sample(cands, min(len(cands), rng.choice([0, 1, 2, 3, 3, 4]))):
        bindings.append([s, b, api_for(s, ['str', 'tuple', 'text', 'block']), extra(0.3, 0.3)])
    rng.shuffle(bindings)
    pos = probes.positional_names(spec)
    nP = rng.randrange(0, len(pos) + 1)
    if spec['varargs'] and rng.random() < 0.3:
      nP = len(pos) + rng.randrange(1, 3)
    rest = [x for x in names if x not in pos[:nP]]
    K = [x for x in rest if rng.random() < 0.35]
    if spec['varkw'] and rng.random() < 0.4:
      K.append(rng.choice(['x0', 'x9']))
    if rng.random() < 0.04 and nP and pos:
      K.append(pos[0])  # duplicate: TypeError expected from both
    ref_eval = rng.random() < 0.6
    if via == 'scoped-ref' and ref_eval and rng.random() < 0.5:
      nP, K = 0, []      # a call that passes nothing: made by evaluating @scope/name() instead
    # which of the caller's values are falsy (None, 0, '', [], False, (), {}, 0.0): [index among positionals | keyword name, which]
    fal = {'pos': {}, 'kw': {}}
    if ENABLE_FALSY_CALLER_VALUES:
      fal['pos'] = {str(i): rng.randrange(N_FALSY) for i in range(nP) if rng.random() < 0.25}
      fal['kw'] = {k: rng.randrange(N_FALSY) for k in K if rng.random() < 0.3}
    rounds = []
    for _ in range(rng.choice([0, 0, 1, 2])):
      rb = []
      for b in bindable:
        if rng.random() < 0.5:
          # re-bind / newly bind under a (usually shorter) prefix of the active scope, or elsewhere
          sc = rng.choice(cands[:len(active) + 1] + cands[:max(1, len(active))] + ['a', 'zz'])
          rb.append([sc, b, api_for(sc, ['tuple', 'tuple', 'str', 'text', 'block'] if ENABLE_REBIND_THROUGH_PARSE else ['tuple']), extra(0.3, 0.3)])
      rounds.append({'rebinds': rb, 'prelude': rng.random() < 0.3, 'clear': ENABLE_CLEAR_ROUNDS and rng.random() < 0.25})
    # a further call of the same probe under another scope once every block has been left; and one after leaving the innermost block
    second = None
    if ENABLE_SECOND_CALLS and rng.random() < 0.6:
      second = rng.choice([active[:-1] + [rng.choice(ALPHA)], active[:max(0, len(active) - 1)], active[:1], [], active + ['a'],
                           [c for c in rng.choice(cands).split('/') if c]])
    yield {'spec': spec, 'prog': prog, 'via': via, 'bindings': bindings, 'nP': nP, 'K': K,
           'path': rng.choice(['direct', 'object', 'selector', 'short']), 'rounds': rounds, 'ambient': ambient, 'falsy': fal,
           'second': second, 'call_after_exit': ENABLE_SECOND_CALLS and rng.random() < 0.6, 'ref_eval': ref_eval}


def apply_binding(gin, p, scope, param, api, value):
  sel = p.key_selector if api != 'tuple' else p.selector
  if api == 'str':
    gin.bind_parameter((scope + '/' if scope else '') + sel + '.' + param, value)
  elif api == 'tuple':
    gin.bind_parameter((scope, sel, param), value)
  elif api == 'text':
    gin.parse_config('%s%s.%s = %r\n' % (scope + '/' if scope else '', sel, param, value))
  else:
    gin.parse_config('%s%s:\n  %s = %r\n' % (scope + '/' if scope else '', sel, param, value))


class Interrupt(BaseException):
  pass


class CallerValue:
  """A value passed by the caller: must reach the function as this very object."""

  def __init__(self, tag):
    self.tag = tag

  def __repr__(self):
    return '<%s %r>' % (type(self).__name__, self.tag)


class AlwaysEqual(CallerValue):
  """Like unittest.mock.ANY: compares equal to everything (also to gin.REQUIRED)."""

  def __eq__(self, other):
    return True

  def __ne__(self, other):
    return False

  __hash__ = object.__hash__


class EqNotBool(CallerValue):
  """Like an array: == returns something whose truth value is an error."""

  class _Amb:
    def __bool__(self):
      raise ValueError('The truth value of this comparison is ambiguous')

  def __eq__(self, other):
    return EqNotBool._Amb()

  __hash__ = object.__hash__


def caller_value(tag, k):
  return [CallerValue, CallerValue, CallerValue, AlwaysEqual, EqNotBool][k % 5](tag)


def setup(ctx):
  import gin

  @gin.configurable('c1interrupt', module='c1')
  def interrupt():
    raise Interrupt('not an Exception')

  @gin.configurable('c1cons', module='c1')
  def cons(x=None):
    return x


def prelude(gin, bind=True):
  """A scoped call and a scoped reference evaluation that are left by a BaseException; afterwards nothing may have changed."""
  try:
    gin.get_configurable('leaked/scope/c1interrupt')()
  except Interrupt:
    pass
  if bind:
    with gin.unlock_config():
      gin.parse_config('c1pre/c1cons.x = @leaked2/c1interrupt()')
  try:
    with gin.config_scope(['c1pre']):
      gin.get_configurable('c1.c1cons')()
  except Interrupt:
    pass


def bound_value(tag, x):
  """The value of a binding: a one-element list (mutable: what the function receives is a fresh copy every call) or a falsy value."""
  if x and x.get('v') is not None:
    return falsy(x['v'])
  return [tag]


def bind_under(ctx, gin, p, scope, param, api, x, value, active, what):
  """Makes one binding, possibly while some config_scope is open: the key's own scope decides where it lands, the open scope is irrelevant."""
  under = (x or {}).get('under')
  if not under:
    apply_binding(gin, p, scope, param, api, value)
    return
  ctx.bucket('%s:%s-under-active-scope' % (what, 'bind_parameter' if api in ('str', 'tuple') else 'parse_config') if what == 'bind'
             else 'history:rebind-under-active-scope')
  with gin.config_scope(under):
    if gin.current_scope() == active and active:
      ctx.bucket('bind:under-the-scope-of-the-later-call')
    apply_binding(gin, p, scope, param, api, value)


def run_case(ctx, case):
  import gin
  if case.get('kind') == 'function-named-like-renamed-method':
    return run_function_named_like_renamed_method(ctx, case)
  if case.get('kind') == 'decorated-shift':
    return run_decorated_shift(ctx, case)
  spec = case['spec']
  gin.clear_config()
  p = probes.build(spec)
  ctx.bucket('shape:' + spec['shape'])
  ctx.bucket('api:' + ('register' if spec['shape'] == 'method' else ('external' if spec['shape'] in ('callable', 'boundmethod') else spec['api'])))
  sm = models.ScopeModel()
  for e in case['prog']:
    sm.enter(scope_arg(e, sm.cur))
  active = sm.cur
  model = {}
  for bnd in case['bindings']:
    scope, param, api = bnd[:3]
    x = bnd[3] if len(bnd) > 3 else None
    value = bound_value('B|%s|%s' % (scope, param), x)
    bind_under(ctx, gin, p, scope, param, api, x, value, active, 'bind')
    model.setdefault((scope, p.selector), {})[param] = value
  call_round(ctx, case, p, model, 0)
  for ri, rnd in enumerate(case.get('rounds', [])):
    ctx.bucket('history:round2+')
    if rnd['prelude']:
      ctx.bucket('history:scoped-call-left-by-BaseException')
      prelude(gin)
    had = models.overlay(model, p.selector, active)
    if rnd.get('clear'):
      # everything bound so far is gone: the same wrapper must go back to the function's own defaults (no per-wrapper memory)
      gin.clear_config()
      model.clear()
      ctx.bucket('history:call-after-clear_config')
    for rb in rnd['rebinds']:
      scope, param = rb[:2]
      api = rb[2] if len(rb) > 2 else 'tuple'
      x = rb[3] if len(rb) > 3 else None
      value = bound_value('R%d|%s|%s' % (ri, scope, param), x)
      if param in model.get((scope, p.selector), {}):
        ctx.bucket('history:rebind-existing')
      else:
        ctx.bucket('history:bind-new-after-call')
      if api in ('text', 'block'):
        ctx.bucket('history:rebind-through-parse_config-' + ('flat' if api == 'text' else 'block'))
      bind_under(ctx, gin, p, scope, param, api, x, value, active, 'rebind')
      model.setdefault((scope, p.selector), {})[param] = value
    if rnd.get('clear') and set(had) - set(models.overlay(model, p.selector, active)):
      ctx.bucket('history:bound-before-clear_config-default-after')
    call_round(ctx, case, p, model, ri + 1)


def caller_args(ctx, case, salt=0):
  """The caller's values: objects that must arrive by identity, some with a hostile __eq__, some falsy."""
  nP, Kn = case['nP'], case['K']
  fal = case.get('falsy') or {'pos': {}, 'kw': {}}
  P = [caller_value(('pos', i, salt), ctx.case_no + i) for i in range(nP)]
  K = {k: caller_value(('kw', k, salt), ctx.case_no + j + 2) for j, k in enumerate(Kn)}
  for i, fi in fal['pos'].items():
    P[int(i)] = falsy(fi)
  for k, fi in fal['kw'].items():
    K[k] = falsy(fi)
  return P, K


def is_falsy_plain(v):
  return not isinstance(v, CallerValue) and not v


def expectation(p, spec, applicable, P, K):
  pos = probes.positional_names(spec)
  inj = models.injected(applicable, pos, len(P), K)
  try:
    return inj, p.twin(*P, **{**inj, **K}), None
  except TypeError as e:
    return inj, None, e


def judge(ctx, case, p, active, applicable, P, K, inj, expect, expect_exc, got_exc, recs, key='reception-differs-from-model', where=''):
  """Compares one call of the probe with the model.  `key` names the mechanism for the reception check."""
  ctx.count('calls_compared')
  if expect_exc is not None:
    ctx.check(isinstance(got_exc, TypeError), 'expected-TypeError',
              '%sCPython binder raises TypeError(%s) but gin call gave %r / %d records' % (where, expect_exc, got_exc, len(recs)))
    return
  if got_exc is not None:
    ctx.check(False, 'unexpected-exception', '%scall raised %s: %s; expected reception %r' %
              (where, type(got_exc).__name__, str(got_exc)[:300], expect))
    return
  if not ctx.check(len(recs) == 1, 'probe-run-count', '%sprobe body ran %d times' % (where, len(recs))):
    return
  r = recs[0]
  ctx.check(list(r.scope) == active, 'scope-seen-by-probe', '%sprobe saw scope %r, model %r' % (where, r.scope, active))
  got = r.received
  pos = probes.positional_names(case['spec'])
  from_caller = set(pos[:len(P)]) | set(K)
  ok = set(got) == set(expect)
  for name in expect:
    if not ok:
      break
    e, g = expect[name], got.get(name)
    if name == '*':
      ok = len(e) == len(g) and all(same_value(a, b, True) for a, b in zip(e, g))
    elif name == '**':
      ok = set(e) == set(g) and all(same_value(e[k], g[k], k in K) for k in e)
    else:
      ok = same_value(e, g, name in from_caller)
  ctx.check(ok, key,
            '%sactive=%r received %r, model expects %r (applicable %r, positional %r, keywords %r)' % (where, active, got, expect, applicable, P, K))
  # the probe now behaves like a function that modifies what Gin gave it: later calls must still see the bound values
  for name, g in list(got.items()) + list((got.get('**') or {}).items()):
    if type(g) is list and name not in ('*',):
      g.append('MUTATED-BY-CONSUMER')
      if name not in from_caller:
        ctx.bucket('history:consumer-mutated-bound-value')


def plain_call(ctx, case, p, model, active, key, where, salt):
  """A further call of the same probe, made under whatever scope is active now (the model says: `active`)."""
  import gin
  P, K = caller_args(ctx, case, salt)
  applicable = models.overlay(model, p.selector, active)
  inj, expect, expect_exc = expectation(p, case['spec'], applicable, P, K)
  mark = probes.RECORDER.mark()
  got_exc = None
  try:
    probes.call_probe(p, P, K, case['path'])
  except Exception as e:  # pylint: disable=broad-except
    got_exc = e
  recs = probes.RECORDER.since(mark, p.pid)
  judge(ctx, case, p, active, applicable, P, K, inj, expect, expect_exc, got_exc, recs, key, where)


def call_round(ctx, case, p, model, round_no):
  import contextlib
  import gin
  spec = case['spec']
  sm = models.ScopeModel()
  with contextlib.ExitStack() as st:
    for ei, e in enumerate(case['prog']):
      if e[0] == 'derived':
        arg = gin.current_scope()
        arg.append(e[1])                    # modifies the list current_scope() returned: must not touch the active scope
        ctx.check(gin.current_scope() == sm.cur, 'scope-changed-through-returned-list', 'appending to the list returned by current_scope() changed the active scope to %r' % (
            gin.current_scope(),))
      else:
        arg = scope_arg(e, sm.cur)
      ctx.bucket('entry:' + ('slash' if e[0] == 'str' and '/' in e[1] else e[0]))
      if ei == len(case['prog']) - 1:
        # runs when the innermost block has been left and the enclosing ones are still active
        st.callback(after_innermost_exit, ctx, gin, p, model, sm.cur, case)
      st.enter_context(gin.config_scope(arg))
      sm.enter(scope_arg(e, sm.cur))
    active = sm.cur
    ctx.check(gin.current_scope() == active, 'scope-model-mismatch', 'current_scope %r != model %r' % (gin.current_scope(), active))
    applicable = models.overlay(model, p.selector, active)
    # read-side APIs agree with the overlay model
    gb = gin.get_bindings(p.selector)
    ctx.check(teq(dict(sorted(gb.items())), dict(sorted(applicable.items()))), 'get_bindings-differs-from-overlay',
              'get_bindings under %r = %r, model %r' % (active, gb, applicable))
    exact = gin.get_bindings(p.selector, inherit_scopes=False)
    ctx.check(teq(dict(sorted(exact.items())), dict(sorted(model.get(('/'.join(active), p.selector), {}).items()))), 'get_bindings-strict-differs',
              'strict get_bindings under %r = %r, model %r' % (active, exact, model.get(('/'.join(active), p.selector), {})))
    for (sc, _), d in model.items():
      for prm, v in d.items():
        try:
          q = gin.query_parameter((sc + '/' if sc else '') + p.key_selector + '.' + prm)
        except ValueError as e:      # "has no bound parameters" / "no parameter named": the store does not hold what was bound
          q = e
        ctx.check(teq(q, v), 'query-differs', 'query %s/%s.%s = %r, model %r' % (sc, p.name, prm, q, v))

    pos = probes.positional_names(spec)
    nP, Kn = case['nP'], case['K']
    P, K = caller_args(ctx, case)
    if any(isinstance(v, (AlwaysEqual, EqNotBool)) for v in P + list(K.values())):
      ctx.bucket('call:caller-value-with-hostile-eq')
    inj, expect, expect_exc = expectation(p, spec, applicable, P, K)
    ctx.bucket('expect:' + ('TypeError' if expect_exc else 'ok'))
    mark = probes.RECORDER.mark()
    got_exc = None
    via = case['via']
    amb = case.get('ambient')
    act = '/'.join(active)
    other_ambient = bool(amb) and via != 'scope'
    try:
      if via == 'scoped-get' and spec['shape'] != 'method':
        ctx.bucket('via:scoped-get')
        fn = gin.get_configurable(act + '/' + p.selector)
        with gin.config_scope(amb):  # ambient scope must not matter: the scope in the name replaces it
          fn(*P, **K)
      elif via == 'scoped-get':
        ctx.bucket('via:scoped-get')
        kcls = gin.get_configurable(act + '/' + p.cls_selector)
        with gin.config_scope(amb):
          inst = kcls()
          getattr(inst, p.name)(*P, **K)
      elif via == 'scoped-ref':
        # a scoped reference (@a/b/name, or @a/b/name() when the call passes nothing) held by another configurable's binding and
        # obtained / evaluated while a different scope is active: the reference's own scope replaces the ambient one
        ctx.bucket('via:scoped-ref')
        evaluated = bool(case.get('ref_eval')) and not P and not K and spec['shape'] != 'method'
        target = p.cls_selector if spec['shape'] == 'method' else p.selector
        gin.parse_config('c1ref/c1.c1cons.x = @%s/%s%s' % (act, target, '()' if evaluated else ''))
        with gin.config_scope(amb):
          with gin.config_scope(['c1ref'] + gin.current_scope()):
            held = gin.get_configurable('c1.c1cons')()     # evaluates the reference under c1ref/<ambient>
          if evaluated:
            ctx.bucket('via:scoped-ref-evaluated')
          elif spec['shape'] == 'method':
            getattr(held(), p.name)(*P, **K)
          else:
            held(*P, **K)
      else:
        ctx.bucket('via:scope')
        probes.call_probe(p, P, K, case['path'])
    except Exception as e:  # pylint: disable=broad-except
      got_exc = e
    if other_ambient:
      ctx.bucket('via:%s-under-other-ambient-scope' % via)
    recs = probes.RECORDER.since(mark, p.pid)

  # buckets
  ctx.bucket('depth:%d' % min(len(active), 4))
  layers = [i for i in range(len(active) + 1) if ('/'.join(active[:i]), p.selector) in model]
  nlayers = len(layers)
  if nlayers >= 2:
    ctx.bucket('layers:2+')
  if nlayers >= 3:
    ctx.bucket('layers:3+')
  if any('.' in c for c in active):
    ctx.bucket('entry:dotted-component')
    if any('.' in '/'.join(active[:i]) for i in layers):
      ctx.bucket('layers:dotted-scope-binding-applies')
  for (sc, _) in model:
    if sc and not (act == sc or act.startswith(sc + '/')):
      ctx.bucket('nonprefix-binding-present')
      if act.startswith(sc) or sc.startswith(act):
        ctx.bucket('string-prefix-trap')
      if act and sc != act and ('.' in sc or '.' in act) and (
          (act + '/').replace('.', '/').startswith(sc.replace('.', '/') + '/') or (sc + '/').replace('.', '/').startswith(act.replace('.', '/') + '/')):
        ctx.bucket('dotted-vs-slash-trap')
  for n in inj:
    vals = [model[('/'.join(active[:i]), p.selector)][n] for i in layers if n in model[('/'.join(active[:i]), p.selector)]]
    if len(vals) >= 2 and not vals[-1] and any(vals[:-1]):
      ctx.bucket('layers:falsy-overrides-truthy')
    if len(vals) >= 2 and vals[-1] and not all(vals[:-1]):
      ctx.bucket('layers:truthy-overrides-falsy')
  for i, v in enumerate(P[:len(pos)]):
    if is_falsy_plain(v) and pos[i] in applicable:
      ctx.bucket('call:falsy-positional-over-binding')
      if v is None:
        ctx.bucket('call:caller-None-over-binding')
  for k, v in K.items():
    if is_falsy_plain(v) and k in applicable:
      ctx.bucket('call:falsy-keyword-over-binding')
      if v is None:
        ctx.bucket('call:caller-None-over-binding')
  if spec['kwonly']:
    ctx.bucket('sig:kwonly')
  if spec['varargs']:
    ctx.bucket('sig:varargs')
  if spec['varkw']:
    ctx.bucket('sig:varkw')
    if any(k.startswith('x') for k in inj):
      ctx.bucket('sig:extra-via-varkw')
  if any(n in applicable for n in pos[:nP]):
    ctx.bucket('call:positional-override')
  if any(k in applicable for k in K):
    ctx.bucket('call:keyword-override')
  if inj:
    ctx.bucket('call:omitted-bound')
  if expect and any(v == 'dflt-' + k for k, v in expect.items() if isinstance(v, str)):
    ctx.bucket('call:omitted-default')
  ctx.fp(spec['shape'], spec['api'], len(spec['pos']), len(spec['dflt']), spec['varargs'], len(spec['kwonly']),
         spec['varkw'], bool(spec.get('allow')), bool(spec.get('deny')), len(active), nlayers, nP, len(K),
         sorted(inj), via, case['path'], bool(expect_exc), round_no, other_ambient,
         sorted(n for n in inj if not applicable[n]), sorted(k for k, v in K.items() if is_falsy_plain(v)))
  ctx.sample({'spec': spec, 'active': active, 'bindings': sorted(model and [list(k) + [sorted(v)] for k, v in model.items()]),
              'nP': nP, 'K': Kn, 'expected': repr(expect)[:300]})

  judge(ctx, case, p, active, applicable, P, K, inj, expect, expect_exc, got_exc, recs)

  # the same probe once more, under another scope, after every block of the program has been left (nothing may be remembered per wrapper)
  second = case.get('second')
  if second is not None:
    ctx.bucket('history:second-call-under-other-scope')
    with gin.config_scope(list(second)):
      plain_call(ctx, case, p, model, list(second), 'reception-differs-in-second-call-under-other-scope',
                 'second call under %r after a call under %r: ' % (second, active), 1)


def after_innermost_exit(ctx, gin, p, model, enclosing, case=None):
  ctx.count('checks_after_leaving_innermost_scope')
  ctx.check(gin.current_scope() == enclosing, 'scope-model-mismatch', 'after leaving the innermost block current_scope %r != model %r' % (gin.current_scope(), enclosing))
  gb = gin.get_bindings(p.selector)
  want = models.overlay(model, p.selector, enclosing)
  ctx.check(teq(dict(sorted(gb.items())), dict(sorted(want.items()))), 'get_bindings-differs-from-overlay',
            'after leaving the innermost block: get_bindings under %r = %r, model %r' % (enclosing, gb, want))
  if case is not None and case.get('call_after_exit'):
    ctx.bucket('history:call-after-leaving-innermost-scope')
    plain_call(ctx, case, p, model, list(enclosing), 'reception-differs-after-leaving-innermost-scope',
               'call after leaving the innermost block (enclosing scope %r): ' % (enclosing,), 2)


def shift_decorator(fn):
  import functools

  @functools.wraps(fn)
  def wrapper(ctxv, *args, **kwargs):      # consumes a leading positional argument the inner function never sees
    _SHIFT['ctx'].append(ctxv)
    return fn(*args, **kwargs)
  return wrapper


_SHIFT = {'ctx': [], 'got': [], 'n': 0}


def run_decorated_shift(ctx, case):
  """A configurable behind a functools.wraps decorator whose wrapper has another positional layout than the function it wraps:
  Gin calls the wrapper, so the caller's positional values are the wrapper's; bound parameters of the inner function arrive by keyword."""
  import gin
  gin.clear_config()
  _SHIFT['n'] += 1
  name = 'c1shift%d_%s' % (_SHIFT['n'], ctx.uid)

  def inner(p0='d0', p1='d1', *, k='dk'):
    _SHIFT['got'].append({'p0': p0, 'p1': p1, 'k': k})
    return None
  inner.__name__ = inner.__qualname__ = name
  deco = shift_decorator(inner)
  if case['api'] == 'configurable':
    f = gin.configurable(name, module='c1')(deco)
  else:
    f = gin.external_configurable(deco, name=name, module='c1')
  ctx.bucket('shape:decorated-with-shifted-positional-layout')
  names = ['p0', 'p1']
  npos = case['npos']
  kw = [x for x in case['kw'] if x not in names[:npos]]
  bind = [b for b in case['bind'] if b not in names[:npos]]    # a bound parameter also passed positionally is a TypeError in CPython terms: not generated
  bound = {}
  for b in bind:
    v = ['B|%s|%s' % (case['bscope'], b)]
    gin.bind_parameter((case['bscope'], 'c1.' + name, b), v)
    bound[b] = v
  applies = case['bscope'] == '' or case['scope'] == case['bscope'] or case['scope'].startswith(case['bscope'] + '/')
  P = [caller_value(('pos', i), i) for i in range(npos)]
  K = {x: caller_value(('kw', x), 7) for x in kw}
  expect = {'p0': 'd0', 'p1': 'd1', 'k': 'dk'}
  if applies:
    expect.update(bound)
  expect.update(dict(zip(names, P)))
  expect.update(K)
  marker = caller_value(('ctx', 0), 3)
  del _SHIFT['got'][:], _SHIFT['ctx'][:]
  try:
    with gin.config_scope(case['scope'] or None):
      f(marker, *P, **K)
  except Exception as e:  # pylint: disable=broad-except
    ctx.check(False, 'unexpected-exception', 'decorated configurable with shifted layout: call raised %s: %s' % (type(e).__name__, str(e)[:300]))
    return
  ctx.count('calls_compared')
  got = _SHIFT['got'][-1] if _SHIFT['got'] else None
  ok = got is not None and _SHIFT['ctx'] == [marker] and all(same_value(expect[x], got[x]) if not isinstance(expect[x], str) else expect[x] == got[x] for x in expect)
  ctx.check(ok, 'reception-differs-from-model', 'decorated configurable (wrapper(ctx, *args, **kw) around inner(p0, p1, *, k)) called with %d positional after ctx and keywords %r '
            'under %r, bindings %r at scope %r: inner received %r, expected %r' % (npos, sorted(K), case['scope'], sorted(bound), case['bscope'], got, expect))
  ctx.fp('shift', npos, tuple(sorted(K)), tuple(sorted(bound)), case['scope'], case['bscope'], case['api'])


_RN = [0]


def run_function_named_like_renamed_method(ctx, case):
  """A plain function registered under the complete name a method had before its class was registered (the method was renamed to
  Class.method then): the function receives its own bindings and defaults, not the method's."""
  import gin
  gin.clear_config()
  _RN[0] += 1
  mod = 'c1rn%d_%s' % (_RN[0], ctx.uid)
  g = {'gin': gin, '__name__': mod}
  exec('class K:\n  def __init__(self, c=0):\n    self.c = c\n  @gin.register\n  def run(self, steps=1):\n    return ("K.run", steps)\n'
       'def run(steps=1, other=2):\n  return ("run", steps, other)\n', g)
  gin.register(g['K'])
  gin.bind_parameter('%s.K.run.steps' % mod, 5)
  frun = gin.external_configurable(g['run'], 'run', module=mod)
  gin.bind_parameter('%s.run.other' % mod, 9)
  ctx.bucket('shape:function-named-like-renamed-method')
  try:
    got = (frun(), gin.get_configurable(g['K'])().run())
  except Exception as e:  # pylint: disable=broad-except
    got = 'raised %r' % (e,)
  ctx.count('calls_compared')
  ctx.check(got == (('run', 1, 9), ('K.run', 5)), 'function-named-like-renamed-method-receives-the-methods-bindings',
            'method K.run (steps bound to 5) and a function registered as <module>.run (other bound to 9): calls returned %r, expected (run, 1, 9) and (K.run, 5)' % (got,))
  gin.clear_config()


def same_value(e, g, from_caller=False):
  if isinstance(e, CallerValue):
    return e is g                      # caller values: the very object
  if from_caller:
    # "reaches the function unchanged": mutable values by identity, immutable ones (None, 0, '', (), False, 0.0) as the same typed value
    return e is g if type(e) in (list, dict) else teq(e, g)
  if type(e) is list:
    return teq(e, g) and e is not g    # bound (mutable) values: equal, but never the object held by the configuration
  return teq(e, g)


LEVEL_TEXT = ('Runtime monitor with a reference model: every generated (signature x binding set x scope stack x call shape) is '
              'executed against the real wrapper and what the probe body received (caller values by identity) is compared with '
              'the prefix-overlay model fed through CPython\'s own argument binder; read-side APIs are compared with the same model.')
LEVEL_NOTE = 'Trusted: the 10-line overlay model and CPython argument binding (a twin function never shown to gin). Sampling, not enumeration.'
TECHNIQUE = 'runtime reference-model monitor (prefix overlay + CPython binder) over generated signatures, scopes and call shapes'
DESIGN_REF = 'DESIGN.md section 4, C01'


def finish(ctx):
  """Thorough: exhaustive small scope. Function f(p, q='dq', *, k='dk'): every subset of bindings over 4 scopes x 3 params (2^12), every active
  scope in a 6-element set and every call shape in {omit, positional, keyword} per parameter where legal -> compared with the overlay model."""
  if not ctx.params.get('exhaustive'):
    return
  import itertools
  import gin
  spec = {'shape': 'fn', 'api': 'external', 'name': 'c1exh_%s' % ctx.uid, 'module': 'c1x', 'pos': ['p'], 'dflt': [['q', 'dq']], 'varargs': False,
          'kwonly': [['k', True, 'dk']], 'varkw': False}
  p = probes.build(spec)
  scopes = ['', 'a', 'a/b', 'b']
  slots = [(sc, prm) for sc in scopes for prm in ('p', 'q', 'k')]
  actives = [[], ['a'], ['a', 'b'], ['b'], ['a', 'c'], ['a', 'b', 'c']]
  shapes = [(sp, sq, sk) for sp in ('omit', 'pos', 'kw') for sq in ('omit', 'pos', 'kw') for sk in ('omit', 'kw')
            if not (sq == 'pos' and sp != 'pos')]
  n = 0
  for mask in range(1 << len(slots)):
    n += 1
    if n % ctx.nworkers != ctx.widx:
      continue
    gin.clear_config()
    model = {}
    for i, (sc, prm) in enumerate(slots):
      if mask >> i & 1:
        v = 'B|%s|%s' % (sc, prm)
        gin.bind_parameter((sc, p.selector, prm), v)
        model.setdefault((sc, p.selector), {})[prm] = v
    for active in actives:
      applicable = models.overlay(model, p.selector, active)
      for (sp, sq, sk) in shapes:
        P, K = [], {}
        if sp == 'pos':
          P.append(['c', 'p'])
        elif sp == 'kw':
          K['p'] = ['c', 'p']
        if sq == 'pos':
          P.append(['c', 'q'])
        elif sq == 'kw':
          K['q'] = ['c', 'q']
        if sk == 'kw':
          K['k'] = ['c', 'k']
        inj = models.injected(applicable, ['p', 'q'], len(P), K)
        try:
          expect = p.twin(*P, **{**inj, **K})
        except TypeError:
          expect = None
        mark = probes.RECORDER.mark()
        exc = None
        try:
          with gin.config_scope(list(active)):
            p.conf(*P, **K)
        except TypeError as e:
          exc = e
        recs = probes.RECORDER.since(mark, p.pid)
        ctx.count('exhaustive_calls')
        if expect is None:
          ctx.check(exc is not None, 'expected-TypeError', 'exhaustive: bindings %r active %r shape %r: binder raises, gin call did not' % (sorted(model), active, (sp, sq, sk)))
          continue
        got = recs[0].received if recs else None
        ok = exc is None and got is not None and all((got[x] is expect[x]) if isinstance(expect[x], list) else got[x] == expect[x] for x in expect)
        ctx.check(ok, 'reception-differs-from-model', 'exhaustive: bindings %r active %r shape %r: received %r (exc %r), model %r' %
                  (sorted((k[0], sorted(v)) for k, v in model.items()), active, (sp, sq, sk), got, exc, expect))
    ctx.fp('exh', mask)
  probes.RECORDER.clear()
  ctx.exhaustive = True
