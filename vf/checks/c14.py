"""C14 — includes act as in-place inclusion; files resolve through ordered locations."""
import io
import os
import shutil
import sys
import tempfile

from vf import probes, snap
from vf.teq import canon

ID = 'C14'
LEVEL = 'exploration'
RULE = ('include trees (depth<=4, fan-out<=3, a file included twice) with conflicting bindings before/between/after include statements and per-file '
        'imports; 1-4 search locations x 0-2 extra in-memory readers (plus the real file system and the package reader), every logical file present in a '
        'random subset of (location, reader) cells, each copy binding a marker naming its cell; absolute names, package-relative names in both '
        'spellings, a missing file at a random include position. Oracles: (metamorphic) the store equals that of the flattened text parsed on a '
        'cleared config; the returned ParsedConfigFileIncludesAndImports mirrors the tree; a search model (locations outer, readers inner, cwd first, '
        'absolute bypasses) predicts which copy is read; missing -> IOError naming the file and the searched locations, store == prefix; '
        'parse_config_files_and_bindings = files in order, then bindings, then finalize unless told not to; unknown names raise unless skip_unknown. '
        'distinct = (tree shape, cell placement pattern, #locations, #readers, entry point)')
TIERS = {
    'quick': {'workers': 8, 'cases': 750, 'timeout': 600},
    'thorough': {'workers': 16, 'cases': 7000, 'timeout': 3000},
}
REQUIRED_BUCKETS = ['search:package-moved-on-python-path', 'search:namespace-directory-on-python-path', 'tree:depth3+', 'tree:file-included-twice', 'tree:same-include-twice-in-one-text', 'tree:fanout2+', 'conflict:before-include', 'conflict:after-include', 'conflict:between-includes',
                    'search:first-location-wins', 'search:later-location', 'search:reader-order-decides', 'search:memory-reader', 'search:absolute-name',
                    'search:package-slash', 'search:package-dot', 'missing:include', 'missing:top-level', 'imports:per-file', 'entry:parse_config_file',
                    'entry:files_and_bindings', 'entry:parse_config-with-include', 'finalize:true', 'finalize:false', 'finalize:default', 'extra-bindings:none', 'extra-bindings:empty-list', 'extra-bindings:empty-string', 'extra-bindings:string', 'unknown:raises', 'unknown:skipped', 'unknown:skipped-by-list', 'unknown:in-included-file', 'unknown:raises-not-in-list',
                    'locations:3+', 'readers:2']
ORACLE_COUNTERS = ['oracle_evals', 'trees_compared', 'flattened_compared']
_S = {}


def setup(ctx):
  import gin
  from gin import config as gc
  root = tempfile.mkdtemp(prefix='vf-c14-')
  _S['root'] = root
  _S['cwd0'] = os.getcwd()
  os.makedirs(os.path.join(root, 'cwd'))
  os.chdir(os.path.join(root, 'cwd'))
  pk = 'vfpkg_%s' % ctx.uid
  _S['pkg'] = pk
  os.makedirs(os.path.join(root, 'py', pk, 'sub'))
  open(os.path.join(root, 'py', pk, '__init__.py'), 'w').close()
  open(os.path.join(root, 'py', pk, 'sub', '__init__.py'), 'w').close()
  sys.path.insert(0, os.path.join(root, 'py'))
  _S['who'] = probes.build({'shape': 'fn', 'api': 'external', 'name': 'c14who', 'module': 'c14', 'pos': [], 'dflt': [], 'varargs': False, 'kwonly': [], 'varkw': True})
  _S['f'] = probes.build({'shape': 'fn', 'api': 'external', 'name': 'c14f', 'module': 'c14', 'pos': [], 'dflt': [['a', 0], ['b', 0], ['c', 0]], 'varargs': False,
                          'kwonly': [], 'varkw': False})
  if not (hasattr(gc, '_LOCATION_PREFIXES') and hasattr(gc, '_FILE_READERS') and len(gc._FILE_READERS) >= 2):
    from vf import core
    raise core.Inconclusive('search-location / reader lists not found in gin.config')
  _S['base_readers'] = list(gc._FILE_READERS[:2])
  _S['n'] = 0


def finish(ctx):
  os.chdir(_S['cwd0'])
  shutil.rmtree(_S['root'], ignore_errors=True)


def gen_file(rng, fid, depth, maxdepth, state):
  """file = {'id', 'name', 'stmts': [ ['bind', param, val] | ['import', mod] | ['include', child_id] ]}"""
  stmts = []
  nchild = 0
  for _ in range(rng.choice([1, 2, 3, 4, 5])):
    r = rng.random()
    if r < 0.5:
      stmts.append(['bind', rng.choice(['a', 'b', 'c']), '%s:%d' % (fid, len(stmts))])
    elif r < 0.6:
      stmts.append(['import', rng.choice(['os', 'json', 'string', 'os.path', 'collections.abc'])])
    elif depth < maxdepth and nchild < 3 and state['count'] < 7:
      own = [st[1] for st in stmts if st[0] == 'include']
      if own and rng.random() < 0.3:
        cid = rng.choice(own)                          # the same include statement written a second time in this very text
        state['twice'] = state['same_text_twice'] = True
      elif state['files'] and rng.random() < 0.25:
        cid = rng.choice(sorted(state['files']))      # include an existing file again (never an ancestor: ids grow downwards)
        if cid <= fid:
          continue
        state['twice'] = True
      else:
        state['count'] += 1
        cid = state['count']
        state['files'][cid] = None
        state['files'][cid] = gen_file(rng, cid, depth + 1, maxdepth, state)
      stmts.append(['include', cid])
      nchild += 1
  kind = rng.choice(['rel', 'rel', 'rel', 'subdir', 'abs', 'pkg-slash', 'pkg-dot'])
  return {'id': fid, 'kind': kind, 'stmts': stmts}


def iter_cases(ctx, rng, n):
  for i in range(n):
    if i % 50 == 13:
      yield {'kind': 'namespace-directory', 'form': rng.choice(['slash', 'dot']), 'via': rng.choice(['parse_config_file', 'include']),
             'where': rng.choice(['nowhere', 'later-location', 'in-the-directory'])}
      continue
    if i % 50 == 31:
      yield {'kind': 'package-moved', 'form': rng.choice(['slash', 'dot']), 'via': rng.choice(['parse_config_file', 'include']), 'end': rng.choice(['moved', 'removed'])}
      continue
    state = {'count': 0, 'files': {}, 'twice': False, 'same_text_twice': False}
    state['files'][0] = None
    top = gen_file(rng, 0, 1, rng.choice([1, 2, 3, 4]), state)
    state['files'][0] = top
    nloc = rng.choice([0, 1, 2, 3])
    nread = rng.choice([0, 1, 2])
    cells = [(l, r) for l in range(nloc + 1) for r in (['fs'] + ['mem%d' % k for k in range(nread)])]
    place = {}
    for fid, f in state['files'].items():
      if f['kind'] in ('abs', 'pkg-slash', 'pkg-dot'):
        place[fid] = ['special']
      else:
        place[fid] = [list(c) for c in rng.sample(cells, rng.randrange(1, len(cells) + 1))]
    missing = None
    if rng.random() < 0.3:
      missing = rng.choice(sorted(state['files']))
    yield {'files': {str(k): v for k, v in state['files'].items()}, 'nloc': nloc, 'nread': nread, 'place': {str(k): v for k, v in place.items()},
           'missing': missing, 'entry': rng.choice(['parse_config_file', 'files_and_bindings', 'parse_config-with-include']),
           'finalize': rng.random() < 0.5, 'unknown': rng.choice([None, None, 'raise', 'skip', 'skip-list', 'list-without-it']),
           'unknown_in': str(rng.choice(sorted(state['files']))), 'twice': state['twice'], 'same_text_twice': state['same_text_twice'],
           'extra': rng.choice(['list', 'list', 'none', 'empty-list', 'empty-string', 'string']), 'finalize_default': rng.random() < 0.3}


class World:
  """Materialises one case: directories, in-memory readers, search path registration, and the search model."""

  def __init__(self, case):
    import gin
    from gin import config as gc
    _S['n'] += 1
    self.case = case
    self.base = os.path.join(_S['root'], 'case%d' % _S['n'])
    self.cwd = os.path.join(self.base, 'cwd')
    os.makedirs(self.cwd)
    os.chdir(self.cwd)
    self.locs = ['']
    gc._LOCATION_PREFIXES[:] = ['']
    gc._FILE_READERS[:] = list(_S['base_readers'])
    for l in range(case['nloc']):
      d = os.path.join(self.base, 'L%d' % (l + 1))
      os.makedirs(d)
      gin.add_config_file_search_path(d)
      self.locs.append(d)
    self.mem = []
    for k in range(case['nread']):
      table = {}
      self.mem.append(table)

      def reader(path, table=table):
        f = io.StringIO(table[path])
        f.name = path
        return f

      def exists(path, table=table):
        return path in table
      gc.register_file_reader(reader, exists)
    self.names = {}
    self.pkgfiles = []
    for fid, f in case['files'].items():
      self.names[fid] = self.name_of(fid, f)

  def name_of(self, fid, f):
    k = f['kind']
    if k == 'rel':
      return 'f%s.gin' % fid
    if k == 'subdir':
      return 'sub/dir/f%s.gin' % fid
    if k == 'abs':
      return os.path.join(self.base, 'absdir', 'f%s.gin' % fid)
    if k == 'pkg-slash':
      return '%s/sub/f%s_%d.gin' % (_S['pkg'], fid, _S['n'])
    return '%s.sub/f%s_%d.gin' % (_S['pkg'], fid, _S['n'])

  def text_of(self, fid, cell):
    f = self.case['files'][fid]
    lines = ["c14who.f%s = '%s'" % (fid, cell)]
    for st in f['stmts']:
      if st[0] == 'bind':
        lines.append("c14f.%s = '%s'" % (st[1], st[2]))
      elif st[0] == 'import':
        lines.append('import %s' % st[1])
      else:
        lines.append("include '%s'" % self.names[str(st[1])])
    if self.case['unknown'] and fid == self.case.get('unknown_in', '0'):
      lines.append('c14_unknown_configurable.x = 1')
    return '\n'.join(lines) + '\n'

  def materialise(self):
    for fid, f in self.case['files'].items():
      if self.case['missing'] is not None and str(self.case['missing']) == fid:
        continue
      name = self.names[fid]
      if f['kind'] == 'abs':
        os.makedirs(os.path.dirname(name), exist_ok=True)
        open(name, 'w').write(self.text_of(fid, 'abs'))
      elif f['kind'] in ('pkg-slash', 'pkg-dot'):
        p = os.path.join(_S['root'], 'py', _S['pkg'], 'sub', os.path.basename(name))
        open(p, 'w').write(self.text_of(fid, 'pkg'))
        self.pkgfiles.append(p)
      else:
        for (l, r) in self.case['place'][fid]:
          cell = 'L%d/%s' % (l, r)
          path = os.path.join(self.locs[l], name)
          if r == 'fs':
            full = path if l else os.path.join(self.cwd, name)
            os.makedirs(os.path.dirname(full), exist_ok=True)
            open(full, 'w').write(self.text_of(fid, cell))
          else:
            self.mem[int(r[3:])][path] = self.text_of(fid, cell)

  def chosen_cell(self, fid):
    """The search model: locations outer (cwd first), readers inner (fs, package reader, then registered readers in order)."""
    f = self.case['files'][fid]
    if self.case['missing'] is not None and str(self.case['missing']) == fid:
      return None
    if f['kind'] == 'abs':
      return 'abs'
    if f['kind'] in ('pkg-slash', 'pkg-dot'):
      return 'pkg'
    cells = [tuple(c) for c in self.case['place'][fid]]
    for l in range(self.case['nloc'] + 1):
      for r in ['fs'] + ['mem%d' % k for k in range(self.case['nread'])]:
        if (l, r) in cells:
          return 'L%d/%s' % (l, r)
    return None

  def flatten(self, fid, out, stop):
    """Flattened text in application order; stops at the first unreadable file (returns False)."""
    cell = self.chosen_cell(fid)
    if cell is None:
      return False
    f = self.case['files'][fid]
    out.append("c14who.f%s = '%s'" % (fid, cell))
    for st in f['stmts']:
      if st[0] == 'bind':
        out.append("c14f.%s = '%s'" % (st[1], st[2]))
      elif st[0] == 'import':
        out.append('import %s' % st[1])
      else:
        if not self.flatten(str(st[1]), out, stop):
          return False
    if self.case['unknown'] and fid == self.case.get('unknown_in', '0'):
      out.append('c14_unknown_configurable.x = 1')
    return True

  def tree(self, fid):
    f = self.case['files'][fid]
    return (self.names[fid], tuple(st[1] for st in f['stmts'] if st[0] == 'import'),
            tuple(self.tree(str(st[1])) for st in f['stmts'] if st[0] == 'include'))

  def cleanup(self):
    os.chdir(os.path.join(_S['root'], 'cwd'))
    for p in self.pkgfiles:
      try:
        os.remove(p)
      except OSError:
        pass
    shutil.rmtree(self.base, ignore_errors=True)


def as_tree(res):
  return (res.filename, tuple(res.imports), tuple(as_tree(x) for x in res.includes))


def depth_of(case, fid='0'):
  f = case['files'][fid]
  return 1 + max([depth_of(case, str(st[1])) for st in f['stmts'] if st[0] == 'include'] or [0])


def run_package_moved(ctx, case):
  """Package-relative names resolve through the Python path as it is at that moment: the same name after the package moved / went away."""
  import importlib
  import gin
  from gin import config as gc
  gin.clear_config()
  _S['mv'] = _S.get('mv', 0) + 1
  pk = 'vfmv%d_%s' % (_S['mv'], ctx.uid)
  roots = []
  for tag in 'AB':
    r = os.path.join(_S['root'], 'mv%d%s' % (_S['mv'], tag))
    os.makedirs(os.path.join(r, pk, 'sub'))
    for f in (os.path.join(r, pk, '__init__.py'), os.path.join(r, pk, 'sub', '__init__.py')):
      open(f, 'w').close()
    open(os.path.join(r, pk, 'sub', 'conf.gin'), 'w').write("c14f.a = 'copy-%s'\n" % tag)
    roots.append(r)
  name = '%s/sub/conf.gin' % pk if case['form'] == 'slash' else '%s.sub/conf.gin' % pk
  ctx.bucket('search:package-moved-on-python-path')

  def load():
    gin.clear_config()
    if case['via'] == 'include':
      gin.parse_config("include '%s'\n" % name)
    else:
      gin.parse_config_file(name)
    return gin.query_parameter('c14f.a')

  def forget():
    for m in [m for m in sys.modules if m == pk or m.startswith(pk + '.')]:
      del sys.modules[m]
    importlib.invalidate_caches()

  try:
    sys.path.insert(0, roots[0])
    importlib.invalidate_caches()
    ctx.check(load() == 'copy-A', 'package-relative-name-resolved-elsewhere', 'first resolution of %s' % name)
    sys.path.remove(roots[0])
    forget()
    if case['end'] == 'moved':
      sys.path.insert(0, roots[1])
      try:
        got = load()
      except Exception as e:  # pylint: disable=broad-except
        got = 'raised %r' % (e,)
      ctx.check(got == 'copy-B', 'package-relative-name-resolved-elsewhere', 'the package %s now lives in another entry of the Python path: %s delivered %r, expected the copy there' % (pk, name, got))
    else:
      try:
        got = load()
        ctx.check(False, 'missing-file-not-IOError', 'the package %s is no longer on the Python path, yet %s was read (%r)' % (pk, name, got))
      except IOError:
        ctx.count('oracle_evals')
        ctx.check(not snap.store_nonempty(gc), 'missing-file-store-not-prefix', 'store after the unreadable package-relative name: %r' % (snap.store_nonempty(gc),))
      except Exception as e:  # pylint: disable=broad-except
        ctx.check(False, 'missing-file-not-IOError', 'package gone: got %r' % (e,))
    ctx.fp('package-moved', case['form'], case['via'], case['end'])
  finally:
    for r in roots:
      if r in sys.path:
        sys.path.remove(r)
      shutil.rmtree(r, ignore_errors=True)
    forget()
    gin.clear_config()


def run_namespace_directory(ctx, case):
  """A relative name whose directory also exists (without __init__.py) under an entry of the Python path: a namespace package. The name is
  still searched through the locations in order and, when nobody has it, reported by an IOError."""
  import importlib
  import gin
  from gin import config as gc
  gin.clear_config()
  _S['nsn'] = _S.get('nsn', 0) + 1
  ns = 'vfns%d_%s' % (_S['nsn'], ctx.uid)
  root = os.path.join(_S['root'], 'ns%d' % _S['nsn'])
  pyroot, loc = os.path.join(root, 'py'), os.path.join(root, 'L1')
  os.makedirs(os.path.join(pyroot, ns, 'sub'))
  os.makedirs(os.path.join(loc, ns, 'sub'))
  open(os.path.join(pyroot, ns, 'sub', 'present.gin'), 'w').write("c14f.a = 'in-namespace-directory'\n")
  open(os.path.join(loc, ns, 'sub', 'late.gin'), 'w').write("c14f.a = 'in-later-location'\n")
  fname = {'nowhere': 'nope.gin', 'later-location': 'late.gin', 'in-the-directory': 'present.gin'}[case['where']]
  name = ('%s/sub/%s' if case['form'] == 'slash' or case['where'] == 'later-location' else '%s.sub/%s') % (ns, fname)
  ctx.bucket('search:namespace-directory-on-python-path')
  sys.path.insert(0, pyroot)
  importlib.invalidate_caches()
  gc._LOCATION_PREFIXES[:] = ['', loc]
  try:
    try:
      if case['via'] == 'include':
        gin.parse_config("include '%s'\n" % name)
      else:
        gin.parse_config_file(name)
      got = gin.query_parameter('c14f.a')
    except IOError as e:
      got = 'IOError'
    except Exception as e:  # pylint: disable=broad-except
      got = 'raised %s: %s' % (type(e).__name__, str(e)[:120])
    want = {'nowhere': 'IOError', 'later-location': 'in-later-location', 'in-the-directory': 'in-namespace-directory'}[case['where']]
    ctx.check(got == want, 'missing-file-not-IOError' if case['where'] == 'nowhere' else 'package-relative-name-resolved-elsewhere',
              'name %s (its directory is a namespace package on the Python path; the file is %s): got %r, expected %r' % (name.replace(ns, 'NS'), case['where'], got, want))
    ctx.fp('namespace-directory', case['form'], case['via'], case['where'])
  finally:
    gc._LOCATION_PREFIXES[:] = ['']
    if pyroot in sys.path:
      sys.path.remove(pyroot)
    for m in [m for m in sys.modules if m == ns or m.startswith(ns + '.')]:
      del sys.modules[m]
    shutil.rmtree(root, ignore_errors=True)
    importlib.invalidate_caches()
    gin.clear_config()


def run_case(ctx, case):
  import gin
  from gin import config as gc
  if case.get('kind') == 'package-moved':
    return run_package_moved(ctx, case)
  if case.get('kind') == 'namespace-directory':
    return run_namespace_directory(ctx, case)
  gin.clear_config()
  w = World(case)
  try:
    w.materialise()
    _run(ctx, case, w, gin, gc)
  finally:
    gc._LOCATION_PREFIXES[:] = ['']
    gc._FILE_READERS[:] = list(_S['base_readers'])
    w.cleanup()


def _run(ctx, case, w, gin, gc):
  files = case['files']
  # ---- buckets
  if depth_of(case) >= 3:
    ctx.bucket('tree:depth3+')
  if case['twice']:
    ctx.bucket('tree:file-included-twice')
  if case.get('same_text_twice'):
    ctx.bucket('tree:same-include-twice-in-one-text')
  for fid, f in files.items():
    kinds = [st[0] for st in f['stmts']]
    if kinds.count('include') >= 2:
      ctx.bucket('tree:fanout2+')
      i1 = kinds.index('include')
      i2 = len(kinds) - 1 - kinds[::-1].index('include')
      if 'bind' in kinds[i1:i2]:
        ctx.bucket('conflict:between-includes')
    if 'include' in kinds:
      i = kinds.index('include')
      if 'bind' in kinds[:i]:
        ctx.bucket('conflict:before-include')
      if 'bind' in kinds[i:]:
        ctx.bucket('conflict:after-include')
    if 'import' in kinds:
      ctx.bucket('imports:per-file')
    cell = w.chosen_cell(fid)
    if cell and cell.startswith('L'):
      l, r = cell[1:].split('/')
      cells = [tuple(c) for c in case['place'][fid]]
      if len(cells) > 1 and l == '0':
        ctx.bucket('search:first-location-wins')
      if l != '0':
        ctx.bucket('search:later-location')
      if r.startswith('mem'):
        ctx.bucket('search:memory-reader')
      if len([c for c in cells if str(c[0]) == l]) > 1:
        ctx.bucket('search:reader-order-decides')
    elif cell == 'abs':
      ctx.bucket('search:absolute-name')
    elif cell == 'pkg':
      ctx.bucket('search:package-slash' if f['kind'] == 'pkg-slash' else 'search:package-dot')
  if case['nloc'] >= 2:
    ctx.bucket('locations:3+')
  if case['nread'] == 2:
    ctx.bucket('readers:2')
  ctx.fp(tuple(sorted((fid, f['kind'], tuple(st[0] for st in f['stmts'])) for fid, f in files.items())), case['nloc'], case['nread'],
         tuple(sorted((k, len(v)) for k, v in case['place'].items())), case['missing'] is not None, case['entry'], case['unknown'])

  # ---- expected: flattened text on a cleared config
  flat = []
  complete = w.flatten('0', flat, None)
  skip = {'skip': True, 'skip-list': ['c14_unknown_configurable', 'something_else'], 'list-without-it': ['something_else', 'c14_other']}.get(case['unknown'], False)
  # is the file holding the unknown statement reached before a missing file stops the parse?
  raises_unknown = case['unknown'] in ('raise', 'list-without-it') and any('c14_unknown_configurable' in l for l in flat)
  if raises_unknown and not complete:
    return  # two faults in one tree (missing file and unknown name): which comes first is C16's subject
  if case['unknown'] and case.get('unknown_in', '0') != '0' and any('c14_unknown_configurable' in l for l in flat):
    ctx.bucket('unknown:in-included-file')
  gin.clear_config()
  exp_exc = None
  try:
    gin.parse_config('\n'.join(flat) + '\n', skip_unknown=skip)
  except ValueError:
    exp_exc = 'unknown'
  expected_store = snap.store_nonempty(gc)
  expected_imports = sorted({s.module for s in gc._IMPORTS})
  gin.clear_config()
  ctx.sample({'files': {k: {'name': w.names[k], 'stmts': v['stmts']} for k, v in list(files.items())[:4]}, 'flattened': flat[:12], 'entry': case['entry']}, cap=3)

  # ---- run the real thing
  entry = case['entry']
  ctx.bucket('entry:' + entry)
  top = w.names['0']
  exc, res = None, None
  try:
    if entry == 'parse_config_file':
      res = gin.parse_config_file(top, skip_unknown=skip)
    elif entry == 'files_and_bindings':
      ctx.bucket('finalize:true' if case['finalize'] else 'finalize:false')
      second = os.path.join(w.base, 'second_file.gin')
      open(second, 'w').write("c14f.a = 'second-file'\nc14f.c = 'second-file-c'\n")
      extra = {'list': ["c14f.c = 'extra-binding'"], 'none': None, 'empty-list': [], 'empty-string': '', 'string': "c14f.b = 'overridden-next-line'\nc14f.c = 'extra-binding'\n"}[case.get('extra', 'list')]
      ctx.bucket('extra-bindings:' + case.get('extra', 'list'))
      if case.get('finalize_default') and case['finalize']:
        ctx.bucket('finalize:default')
        res = gin.parse_config_files_and_bindings([top, second], extra, skip_unknown=skip)       # finalize_config defaults to True
      else:
        res = gin.parse_config_files_and_bindings([top, second], extra, finalize_config=case['finalize'], skip_unknown=skip)
    else:
      inc, imp = gin.parse_config("include '%s'\n" % top, skip_unknown=skip)
      res = inc
  except Exception as e:  # pylint: disable=broad-except
    exc = e
  got_store = snap.store_nonempty(gc)
  ctx.count('flattened_compared')

  if not complete:
    ctx.bucket('missing:top-level' if w.chosen_cell('0') is None else 'missing:include')
    missing_name = w.names[str(case['missing'])]
    if not ctx.check(isinstance(exc, IOError), 'missing-file-not-IOError', 'file %r unreadable: got %r' % (missing_name, exc)):
      return
    msg = str(exc)
    ctx.check(missing_name in msg, 'missing-file-error-without-name', 'IOError text %r does not name %r' % (msg[:300], missing_name))
    want_locs = [''] if os.path.isabs(missing_name) else w.locs
    ctx.check(repr(want_locs) in msg or all(repr(l) in msg for l in want_locs), 'missing-file-error-without-searched-locations',
              'IOError text %r does not list the searched locations %r' % (msg[:400], want_locs))
    ctx.check(got_store == expected_store, 'missing-file-store-not-prefix', 'store after the failed include differs from the prefix: %r' % (snap.diff(got_store, expected_store),))
    return
  if raises_unknown:
    ctx.bucket('unknown:raises' if case['unknown'] == 'raise' else 'unknown:raises-not-in-list')
    ctx.check(isinstance(exc, ValueError) and exp_exc == 'unknown', 'unknown-name-not-an-error', 'unknown configurable without skip_unknown: got %r' % (exc,))
    return
  if case['unknown'] in ('skip', 'skip-list'):
    ctx.bucket('unknown:skipped' if case['unknown'] == 'skip' else 'unknown:skipped-by-list')
  if not ctx.check(exc is None, 'unexpected-exception', '%s raised %s: %s' % (entry, type(exc).__name__, str(exc)[:400])):
    return
  if entry == 'files_and_bindings':
    expected_store = dict(expected_store)
    d = dict(expected_store.get(('', 'c14.c14f'), {}))
    d['a'] = canon('second-file')       # files in the order given ...
    if case.get('extra', 'list') in ('list', 'string'):
      d['c'] = canon('extra-binding')     # ... then the extra bindings
    else:
      d['c'] = canon('second-file-c')     # no extra bindings given (None / [] / ''): the files alone, and still finalized
    if case.get('extra') == 'string':
      d['b'] = canon('overridden-next-line')
    expected_store[('', 'c14.c14f')] = d
    ctx.check(gin.config_is_locked() == bool(case['finalize']), 'finalize-flag-ignored', 'finalize_config=%s but locked=%s' % (case['finalize'], gin.config_is_locked()))
  ctx.check(got_store == expected_store, 'store-differs-from-flattened-text',
            'store after %s differs from parsing the flattened text: %r' % (entry, snap.diff(got_store, expected_store)), {'flattened': flat})
  ctx.check(sorted({s.module for s in gc._IMPORTS}) == expected_imports, 'imports-differ-from-flattened', 'recorded imports %r vs flattened %r' %
            (sorted({s.module for s in gc._IMPORTS}), expected_imports))
  # ---- returned tree
  ctx.count('trees_compared')
  want = w.tree('0')
  if entry == 'parse_config_file':
    got = as_tree(res)
  elif entry == 'files_and_bindings':
    got = as_tree(res[0]) if len(res) == 2 and as_tree(res[1])[0].endswith('second_file.gin') else None
  else:
    got = as_tree(res[0]) if len(res) == 1 else None
  ctx.check(got == want, 'returned-tree-differs', 'returned include/import tree %r, expected %r' % (got, want))
  gin.clear_config()


LEVEL_TEXT = ('Runtime metamorphic + model monitor: generated include trees are materialised in real directories, in-memory readers and an importable '
              'package; the store after the real parse is compared with the store obtained by parsing the flattened text (which copy of each file is '
              'flattened is decided by an independent search model, and each copy binds a marker naming its cell), the returned tree is compared with '
              'the generated one, and a missing file is injected at a random position (IOError text, store == prefix).')
LEVEL_NOTE = ('Trusted: the search model (10 lines) and the flattening routine. The private location/reader lists are reset between cases (they are '
              'append-only through the public API).')
TECHNIQUE = 'runtime metamorphic monitor (include tree vs flattened text) with a file-search reference model and missing-file fault injection'
DESIGN_REF = 'DESIGN.md section 4, C14'
