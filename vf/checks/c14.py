"""C14 — includes act as in-place inclusion; files resolve through ordered locations."""
import io
import os
import shutil
import sys
import tempfile

from vf import probes, snap
from vf.teq import canon

ID = 'C14'
LEVEL = 'exploration'
RULE = ('include trees (depth<=4, fan-out<=3, a file included twice) with conflicting bindings before/between/after include statements and per-file '
        'imports; 1-4 search locations x 0-2 extra in-memory readers (plus the real file system and the package reader), every logical file present in a '
        'random subset of (location, reader) cells, each copy binding a marker naming its cell; absolute names, package-relative names in both '
        'spellings, a missing file at a random include position. Oracles: (metamorphic) the store equals that of the flattened text parsed on a '
        'cleared config; the returned ParsedConfigFileIncludesAndImports mirrors the tree; a search model (locations outer, readers inner, cwd first, '
        'absolute bypasses) predicts which copy is read; missing -> IOError naming the file and the searched locations, store == prefix; '
        'parse_config_files_and_bindings = files in order, then bindings, then finalize unless told not to; unknown names raise unless skip_unknown. '
        'Extension: the multi-file entry point with its file argument as list / tuple / one file / None / [], a second file that is itself searched '
        'through the (location, reader) cells or missing, the unknown name placed in the second file or in the extra bindings, skip_unknown left at '
        'its DEFAULT on every entry point, a finalize hook recording the configuration it is shown (run exactly once, after files and extra bindings), '
        'package-relative names that also exist as plain files / in registered readers (built-in reader order), readers registered through the '
        'decorator form, print_includes_and_imports=True, own imports of the text given to parse_config, a missing absolute name (no location is '
        'tried or named), and an independent last-writer model of the store over the generated statements. '
        'Second extension: search locations registered through a SEQUENCE of add_config_file_search_path calls in which already registered locations '
        "(and '' = the current directory) are registered again later (the order of first registration still decides); directories carrying a "
        'requested name in any search location / at a missing absolute name (not something anybody can read: the search moves on, or ends in the '
        'IOError naming the locations); namespace packages spread over 1-3 entries of the Python path with the file in any non-empty subset of '
        'the portions, at package depth 1-2, through all three entry points. '
        'Search locations are registered absolute or relative to the current directory. '
        'distinct = (tree shape, cell placement pattern, #locations, #readers, entry point)')
TIERS = {
    'quick': {'workers': 8, 'cases': 750, 'timeout': 600},
    'thorough': {'workers': 16, 'cases': 7000, 'timeout': 3000},
}
REQUIRED_BUCKETS = ['locations:registered-relative-to-cwd', 'search:package-moved-on-python-path', 'search:namespace-directory-on-python-path', 'tree:depth3+', 'tree:file-included-twice', 'tree:same-include-twice-in-one-text', 'tree:fanout2+', 'conflict:before-include', 'conflict:after-include', 'conflict:between-includes',
                    'search:first-location-wins', 'search:later-location', 'search:reader-order-decides', 'search:memory-reader', 'search:absolute-name',
                    'search:package-slash', 'search:package-dot', 'missing:include', 'missing:top-level', 'imports:per-file', 'entry:parse_config_file',
                    'entry:files_and_bindings', 'entry:parse_config-with-include', 'finalize:true', 'finalize:false', 'finalize:default', 'extra-bindings:none', 'extra-bindings:empty-list', 'extra-bindings:empty-string', 'extra-bindings:string', 'unknown:raises', 'unknown:skipped', 'unknown:skipped-by-list', 'unknown:in-included-file', 'unknown:raises-not-in-list',
                    'locations:3+', 'readers:2',
                    # ---- extension wave (audit gaps 1-9)
                    'unknown:raises-by-default:parse_config_file', 'unknown:raises-by-default:files_and_bindings', 'unknown:raises-by-default:parse_config-with-include',
                    'unknown:in-second-file:raises', 'unknown:in-second-file:skipped', 'unknown:in-extra-bindings:raises', 'unknown:in-extra-bindings:skipped',
                    'finalize:hook-saw-files-and-extra-bindings', 'finalize:hook-not-run-when-told-not-to',
                    'files-arg:two', 'files-arg:two-tuple', 'files-arg:one', 'files-arg:none', 'files-arg:empty-list', 'missing:second-file',
                    'second-file:later-location', 'second-file:memory-reader',
                    'search:plain-file-before-package-reader', 'search:package-reader-before-later-location', 'search:package-reader-before-registered-reader',
                    'readers:decorator-form', 'print-flag:parse_config_file', 'print-flag:files_and_bindings',
                    'search:absolute-missing-with-locations', 'text:own-imports', 'model:last-writer-overrides-across-files',
                    # ---- second extension wave (missed seeded changes)
                    'locations:re-registered', 'locations:cwd-re-registered', 'search:re-registration-must-not-reorder',
                    'search:directory-of-that-name-passed-over', 'missing:name-exists-only-as-directory',
                    'search:namespace-package-several-portions', 'search:namespace-package-file-in-later-portion']
ORACLE_COUNTERS = ['oracle_evals', 'trees_compared', 'flattened_compared']
_S = {}


def setup(ctx):
  import gin
  from gin import config as gc
  root = tempfile.mkdtemp(prefix='vf-c14-')
  _S['root'] = root
  _S['cwd0'] = os.getcwd()
  os.makedirs(os.path.join(root, 'cwd'))
  os.chdir(os.path.join(root, 'cwd'))
  pk = 'vfpkg_%s' % ctx.uid
  _S['pkg'] = pk
  os.makedirs(os.path.join(root, 'py', pk, 'sub'))
  open(os.path.join(root, 'py', pk, '__init__.py'), 'w').close()
  open(os.path.join(root, 'py', pk, 'sub', '__init__.py'), 'w').close()
  sys.path.insert(0, os.path.join(root, 'py'))
  _S['who'] = probes.build({'shape': 'fn', 'api': 'external', 'name': 'c14who', 'module': 'c14', 'pos': [], 'dflt': [], 'varargs': False, 'kwonly': [], 'varkw': True})
  _S['f'] = probes.build({'shape': 'fn', 'api': 'external', 'name': 'c14f', 'module': 'c14', 'pos': [], 'dflt': [['a', 0], ['b', 0], ['c', 0]], 'varargs': False,
                          'kwonly': [], 'varkw': False})
  if not (hasattr(gc, '_LOCATION_PREFIXES') and hasattr(gc, '_FILE_READERS') and len(gc._FILE_READERS) >= 2):
    from vf import core
    raise core.Inconclusive('search-location / reader lists not found in gin.config')
  _S['base_readers'] = list(gc._FILE_READERS[:2])
  _S['n'] = 0
  # One finalize hook for the life of this worker (hooks can only be added through the public API): while armed it records the configuration
  # it is shown. It returns None, so it never changes the configuration.
  _S['hook_on'] = False
  _S['hook_seen'] = []

  def c14_finalize_hook(config):
    if _S['hook_on']:
      _S['hook_seen'].append({k: {a: canon(v) for a, v in d.items()} for k, d in config.items() if d})
    return None
  gc.register_finalize_hook(c14_finalize_hook)


def finish(ctx):
  os.chdir(_S['cwd0'])
  shutil.rmtree(_S['root'], ignore_errors=True)


def gen_file(rng, fid, depth, maxdepth, state):
  """file = {'id', 'name', 'stmts': [ ['bind', param, val] | ['import', mod] | ['include', child_id] ]}"""
  stmts = []
  nchild = 0
  for _ in range(rng.choice([1, 2, 3, 4, 5])):
    r = rng.random()
    if r < 0.5:
      stmts.append(['bind', rng.choice(['a', 'b', 'c']), '%s:%d' % (fid, len(stmts))])
    elif r < 0.6:
      stmts.append(['import', rng.choice(MODS)])
    elif depth < maxdepth and nchild < 3 and state['count'] < 7:
      own = [st[1] for st in stmts if st[0] == 'include']
      if own and rng.random() < 0.3:
        cid = rng.choice(own)                          # the same include statement written a second time in this very text
        state['twice'] = state['same_text_twice'] = True
      elif state['files'] and rng.random() < 0.25:
        cid = rng.choice(sorted(state['files']))      # include an existing file again (never an ancestor: ids grow downwards)
        if cid <= fid:
          continue
        state['twice'] = True
      else:
        state['count'] += 1
        cid = state['count']
        state['files'][cid] = None
        state['files'][cid] = gen_file(rng, cid, depth + 1, maxdepth, state)
      stmts.append(['include', cid])
      nchild += 1
  kind = rng.choice(['rel', 'rel', 'rel', 'subdir', 'abs', 'pkg-slash', 'pkg-dot'])
  return {'id': fid, 'kind': kind, 'stmts': stmts}


def iter_cases(ctx, rng, n):
  for i in range(n):
    if i % 25 == 13:
      # a namespace package: `portions` entries of the Python path each hold a directory of that name; the innermost package directory exists
      # in the portions `sub_in`, the requested file in the portions `file_in` (a non-empty subset of them)
      portions = rng.choice([1, 2, 2, 3])
      sub_in = sorted(rng.sample(range(portions), rng.randrange(1, portions + 1)))
      if portions > 1 and len(sub_in) == 1 and rng.random() < 0.7:
        sub_in = list(range(portions))
      file_in = sorted(rng.sample(sub_in, rng.randrange(1, len(sub_in) + 1)))
      if len(sub_in) > 1 and rng.random() < 0.5:
        file_in = [p for p in file_in if p != sub_in[0]] or [sub_in[-1]]
      yield {'kind': 'namespace-directory', 'form': rng.choice(['slash', 'dot']), 'via': rng.choice(['parse_config_file', 'include', 'files_and_bindings']),
             'where': rng.choice(['nowhere', 'later-location', 'in-the-directory', 'in-the-directory']),
             'portions': portions, 'sub_in': sub_in, 'file_in': file_in, 'depth': rng.choice([1, 2, 2])}
      continue
    if i % 50 == 31:
      yield {'kind': 'package-moved', 'form': rng.choice(['slash', 'dot']), 'via': rng.choice(['parse_config_file', 'include']), 'end': rng.choice(['moved', 'removed'])}
      continue
    state = {'count': 0, 'files': {}, 'twice': False, 'same_text_twice': False}
    state['files'][0] = None
    top = gen_file(rng, 0, 1, rng.choice([1, 2, 3, 4]), state)
    state['files'][0] = top
    nloc = rng.choice([0, 1, 2, 3])
    nread = rng.choice([0, 1, 2])
    files = {str(k): v for k, v in state['files'].items()}
    entry = rng.choice(['parse_config_file', 'files_and_bindings', 'parse_config-with-include'])
    extra = rng.choice(['list', 'list', 'none', 'empty-list', 'empty-string', 'string', 'tuple'])
    # the shape of the multi-file entry point's first argument; 'S' is the second file: searched like every other file
    shape = rng.choice(['two', 'two', 'two', 'two', 'two-tuple', 'one', 'none', 'empty-list']) if entry == 'files_and_bindings' else None
    if shape in ('two', 'two-tuple'):
      stmts = [['bind', 'a', 'S:0'], ['bind', 'c', 'S:1']]
      if rng.random() < 0.3:
        stmts.insert(rng.randrange(3), ['import', rng.choice(MODS)])
      if len(files) > 1 and rng.random() < 0.2:
        stmts.insert(rng.randrange(len(stmts) + 1), ['include', rng.choice(sorted(state['files'])[1:])])
      files['S'] = {'id': 'S', 'kind': rng.choice(['rel', 'rel', 'rel', 'subdir', 'abs']), 'stmts': stmts}
    cells = [(l, r) for l in range(nloc + 1) for r in (['fs'] + ['mem%d' % k for k in range(nread)])]
    place = {}
    for fid, f in files.items():
      if f['kind'] == 'abs':
        place[fid] = ['special']
      elif f['kind'] in ('pkg-slash', 'pkg-dot'):
        # always in the package; sometimes ALSO as a plain file / in a registered reader under the very same name
        place[fid] = [[0, 'pkg']] + ([list(c) for c in rng.sample(cells, rng.randrange(1, len(cells) + 1))] if rng.random() < 0.5 else [])
      else:
        place[fid] = [list(c) for c in rng.sample(cells, rng.randrange(1, len(cells) + 1))]
    tree_parsed = shape not in ('none', 'empty-list')
    missing = None
    if tree_parsed and rng.random() < 0.3:
      missing = rng.choice(sorted(files))
    unknown = rng.choice([None, None, 'raise', 'skip', 'skip-list', 'list-without-it'])
    holders = (sorted(k for k in files if k != 'S') if tree_parsed else []) + (['S', 'S'] if 'S' in files else [])
    if entry == 'files_and_bindings' and extra in ('list', 'string', 'tuple'):
      holders += ['X', 'X']                            # 'X': the unknown name is one of the extra bindings
    if not holders:
      unknown = None
    # the calls of add_config_file_search_path, as indices of locations (0: '' = the current directory, which is registered from the start):
    # every location once, in order, and sometimes locations that are registered already are registered AGAIN later on
    loc_seq = list(range(1, nloc + 1))
    if rng.random() < 0.45:
      for _ in range(rng.choice([1, 1, 2])):
        l = rng.randrange(0, nloc + 1)
        first = loc_seq.index(l) + 1 if l else 0
        loc_seq.insert(rng.choice([len(loc_seq), rng.randrange(first, len(loc_seq) + 1)]), l)
    # directories that carry the NAME of a file: in search locations that do not hold the file itself / where a missing absolute name points
    dirs = {}
    for fid, f in files.items():
      if rng.random() < 0.35:
        if f['kind'] == 'abs':
          dirs[fid] = ['abs']
        else:
          dirs[fid] = sorted(rng.sample(range(nloc + 1), rng.randrange(1, nloc + 2)))
    rel_locs = [l for l in range(nloc) if rng.random() < 0.5] if rng.random() < 0.3 else []
    yield {'files': files, 'nloc': nloc, 'nread': nread, 'place': place, 'loc_seq': loc_seq, 'dirs': dirs, 'rel_locs': rel_locs,
           'missing': missing, 'entry': entry, 'shape': shape,
           'finalize': rng.random() < 0.5, 'unknown': unknown,
           'unknown_in': rng.choice(holders) if holders else '0', 'twice': state['twice'], 'same_text_twice': state['same_text_twice'],
           'extra': extra, 'finalize_default': rng.random() < 0.3,
           'skip_arg': 'default' if rng.random() < 0.6 else 'explicit',           # honoured when nothing is to be skipped: then the argument is left out
           'print': rng.random() < 0.3, 'decorator': [rng.random() < 0.4 for _ in range(nread)],
           'text_imports': [rng.sample(MODS, rng.choice([0, 0, 1, 2])), rng.sample(MODS, rng.choice([0, 0, 1, 2]))]}


MODS = ['os', 'json', 'string', 'os.path', 'collections.abc']
EXTRA_OPS = {
    'list': [('bind', 'c14f', 'c', 'X:0')],
    'tuple': [('bind', 'c14f', 'b', 'X:0'), ('bind', 'c14f', 'c', 'X:1')],
    'string': [('bind', 'c14f', 'b', 'X:0'), ('bind', 'c14f', 'b', 'X:1'), ('bind', 'c14f', 'c', 'X:2')],
    'none': [], 'empty-list': [], 'empty-string': [],
}
UNKNOWN_LINE = 'c14_unknown_configurable.x = 1'


def line_of(op):
  if op[0] == 'bind':
    return "%s.%s = '%s'" % op[1:]
  if op[0] == 'import':
    return 'import %s' % op[1]
  return UNKNOWN_LINE


def model_store(ops):
  """The independent reference: the last writer of every (configurable, parameter) in application order. (An unknown name binds nothing.)"""
  st = {}
  for op in ops:
    if op[0] == 'bind':
      st.setdefault(('', 'c14.' + op[1]), {})[op[2]] = canon(op[3])
  return st


class World:
  """Materialises one case: directories, in-memory readers, search path registration, and the search model."""

  def __init__(self, case):
    import gin
    from gin import config as gc
    _S['n'] += 1
    self.case = case
    self.base = os.path.join(_S['root'], 'case%d' % _S['n'])
    self.cwd = os.path.join(self.base, 'cwd')
    os.makedirs(self.cwd)
    os.chdir(self.cwd)
    self.locs = ['']
    gc._LOCATION_PREFIXES[:] = ['']
    gc._FILE_READERS[:] = list(_S['base_readers'])
    for l in range(case['nloc']):
      d = os.path.join(self.base, 'L%d' % (l + 1))
      os.makedirs(d)
      # some locations are registered the way a program started in its project directory does it: relative to the current directory
      # (what the readers are asked for is then that relative prefix joined with the name)
      if l in case.get('rel_locs', ()):
        d = os.path.relpath(d, self.cwd)
      self.locs.append(d)
    for l in case['loc_seq']:                          # the registrations, in order; a location may be registered more than once
      gin.add_config_file_search_path(self.locs[l])
    self.mem = []
    self.asked = []            # per in-memory reader: the paths its existence check was asked for, in order
    for k in range(case['nread']):
      table = {}
      asked = []
      self.mem.append(table)
      self.asked.append(asked)

      def reader(path, table=table):
        f = io.StringIO(table[path])
        f.name = path
        return f

      def exists(path, table=table, asked=asked):
        asked.append(path)
        return path in table
      if case['decorator'][k]:
        gc.register_file_reader(exists)(reader)        # the decorator form: @register_file_reader(exists_fn)
      else:
        gc.register_file_reader(reader, exists)
    self.names = {}
    self.pkgfiles = []
    for fid, f in case['files'].items():
      self.names[fid] = self.name_of(fid, f)

  def name_of(self, fid, f):
    k = f['kind']
    if k == 'rel':
      return 'f%s.gin' % fid
    if k == 'subdir':
      return 'sub/dir/f%s.gin' % fid
    if k == 'abs':
      return os.path.join(self.base, 'absdir', 'f%s.gin' % fid)
    if k == 'pkg-slash':
      return '%s/sub/f%s_%d.gin' % (_S['pkg'], fid, _S['n'])
    return '%s.sub/f%s_%d.gin' % (_S['pkg'], fid, _S['n'])

  def holds_unknown(self, fid):
    return bool(self.case['unknown']) and fid == self.case['unknown_in']

  def text_of(self, fid, cell):
    f = self.case['files'][fid]
    lines = ["c14who.f%s = '%s'" % (fid, cell)]
    for st in f['stmts']:
      if st[0] == 'bind':
        lines.append("c14f.%s = '%s'" % (st[1], st[2]))
      elif st[0] == 'import':
        lines.append('import %s' % st[1])
      else:
        lines.append("include '%s'" % self.names[str(st[1])])
    if self.holds_unknown(fid):
      lines.append(UNKNOWN_LINE)
    return '\n'.join(lines) + '\n'

  def dir_locations(self, fid):
    """The search locations (indices; 'abs' for an absolute name) where a DIRECTORY carries the name of this file. Never where the file
    system holds the file itself, and for an absolute name only when the file is the missing one."""
    f = self.case['files'][fid]
    missing = self.case['missing'] is not None and str(self.case['missing']) == fid
    out = []
    for l in self.case['dirs'].get(fid, ()):
      if l == 'abs':
        if missing and f['kind'] == 'abs':
          out.append(l)
      elif f['kind'] != 'abs' and (missing or [l, 'fs'] not in [list(c) for c in self.case['place'][fid]]):
        out.append(l)
    return out

  def materialise(self):
    for fid, f in self.case['files'].items():
      for l in self.dir_locations(fid):
        os.makedirs(self.names[fid] if l == 'abs' else os.path.join(self.locs[l] or self.cwd, self.names[fid]), exist_ok=True)
    for fid, f in self.case['files'].items():
      if self.case['missing'] is not None and str(self.case['missing']) == fid:
        continue
      name = self.names[fid]
      if f['kind'] == 'abs':
        os.makedirs(os.path.dirname(name), exist_ok=True)
        open(name, 'w').write(self.text_of(fid, 'abs'))
        continue
      for (l, r) in self.case['place'][fid]:
        cell = 'L%d/%s' % (l, r)
        path = os.path.join(self.locs[l], name)
        if r == 'pkg':
          p = os.path.join(_S['root'], 'py', _S['pkg'], 'sub', os.path.basename(name))
          open(p, 'w').write(self.text_of(fid, cell))
          self.pkgfiles.append(p)
        elif r == 'fs':
          full = path if l else os.path.join(self.cwd, name)
          os.makedirs(os.path.dirname(full), exist_ok=True)
          open(full, 'w').write(self.text_of(fid, cell))
        else:
          self.mem[int(r[3:])][path] = self.text_of(fid, cell)

  def readers_at(self, l):
    """Reader order within a location: plain open, the package reader (both registered by gin itself, in this order), then the registered
    readers in order. A package-relative name only means something to the package reader when no location prefix is in front of it."""
    return ['fs'] + (['pkg'] if l == 0 else []) + ['mem%d' % k for k in range(self.case['nread'])]

  def order(self, keep='first'):
    """The search order of the locations (indices): '' first, then the registrations in order; a location registered again keeps the
    place of its FIRST registration. (keep='last': the order a re-registration must NOT produce - used for coverage accounting only.)"""
    seq = [0] + list(self.case['loc_seq'])
    if keep == 'last':
      seq = seq[::-1]
    out = []
    for l in seq:
      if l not in out:
        out.append(l)
    return out if keep == 'first' else out[::-1]

  def chosen_cell(self, fid, keep='first'):
    """The search model: locations outer (cwd first), readers inner."""
    f = self.case['files'][fid]
    if self.case['missing'] is not None and str(self.case['missing']) == fid:
      return None
    if f['kind'] == 'abs':
      return 'abs'
    cells = [tuple(c) for c in self.case['place'][fid]]
    for l in self.order(keep):
      for r in self.readers_at(l):
        if (l, r) in cells:
          return 'L%d/%s' % (l, r)
    return None

  def ops_file(self, fid, out):
    """The statements in application order (include = in place); stops at the first unreadable file (returns False)."""
    cell = self.chosen_cell(fid)
    if cell is None:
      return False
    f = self.case['files'][fid]
    out.append(('bind', 'c14who', 'f%s' % fid, cell))
    for st in f['stmts']:
      if st[0] == 'bind':
        out.append(('bind', 'c14f', st[1], st[2]))
      elif st[0] == 'import':
        out.append(('import', st[1]))
      elif not self.ops_file(str(st[1]), out):
        return False
    if self.holds_unknown(fid):
      out.append(('unknown',))
    return True

  def file_list(self):
    """The files handed to the entry point, in order."""
    if self.case['entry'] != 'files_and_bindings':
      return ['0']
    return {'two': ['0', 'S'], 'two-tuple': ['0', 'S'], 'one': ['0'], 'none': [], 'empty-list': []}[self.case['shape'] or 'two']

  def all_ops(self):
    """(complete, ops) for the whole call: the text's own imports / the files in order / the extra bindings."""
    case, out = self.case, []
    if case['entry'] == 'parse_config-with-include':
      out.extend(('import', m) for m in case['text_imports'][0])
    for fid in self.file_list():
      if not self.ops_file(fid, out):
        return False, out
    if case['entry'] == 'parse_config-with-include':
      out.extend(('import', m) for m in case['text_imports'][1])
    if case['entry'] == 'files_and_bindings':
      out.extend(EXTRA_OPS[case['extra']])
      if self.holds_unknown('X'):
        out.append(('unknown',))
    return True, out

  def extra_arg(self):
    kind = self.case['extra']
    lines = [line_of(op) for op in EXTRA_OPS[kind]] + ([UNKNOWN_LINE] if self.holds_unknown('X') else [])
    return {'list': lines, 'tuple': tuple(lines), 'string': '\n'.join(lines) + '\n', 'none': None, 'empty-list': [], 'empty-string': ''}[kind]

  def tree(self, fid):
    f = self.case['files'][fid]
    return (self.names[fid], tuple(st[1] for st in f['stmts'] if st[0] == 'import'),
            tuple(self.tree(str(st[1])) for st in f['stmts'] if st[0] == 'include'))

  def cleanup(self):
    os.chdir(os.path.join(_S['root'], 'cwd'))
    for p in self.pkgfiles:
      try:
        os.remove(p)
      except OSError:
        pass
    shutil.rmtree(self.base, ignore_errors=True)


def as_tree(res):
  return (res.filename, tuple(res.imports), tuple(as_tree(x) for x in res.includes))


def depth_of(case, fid='0'):
  f = case['files'][fid]
  return 1 + max([depth_of(case, str(st[1])) for st in f['stmts'] if st[0] == 'include'] or [0])


def run_package_moved(ctx, case):
  """Package-relative names resolve through the Python path as it is at that moment: the same name after the package moved / went away."""
  import importlib
  import gin
  from gin import config as gc
  gin.clear_config()
  _S['mv'] = _S.get('mv', 0) + 1
  pk = 'vfmv%d_%s' % (_S['mv'], ctx.uid)
  roots = []
  for tag in 'AB':
    r = os.path.join(_S['root'], 'mv%d%s' % (_S['mv'], tag))
    os.makedirs(os.path.join(r, pk, 'sub'))
    for f in (os.path.join(r, pk, '__init__.py'), os.path.join(r, pk, 'sub', '__init__.py')):
      open(f, 'w').close()
    open(os.path.join(r, pk, 'sub', 'conf.gin'), 'w').write("c14f.a = 'copy-%s'\n" % tag)
    roots.append(r)
  name = '%s/sub/conf.gin' % pk if case['form'] == 'slash' else '%s.sub/conf.gin' % pk
  ctx.bucket('search:package-moved-on-python-path')

  def load():
    gin.clear_config()
    if case['via'] == 'include':
      gin.parse_config("include '%s'\n" % name)
    else:
      gin.parse_config_file(name)
    return gin.query_parameter('c14f.a')

  def forget():
    for m in [m for m in sys.modules if m == pk or m.startswith(pk + '.')]:
      del sys.modules[m]
    importlib.invalidate_caches()

  try:
    sys.path.insert(0, roots[0])
    importlib.invalidate_caches()
    ctx.check(load() == 'copy-A', 'package-relative-name-resolved-elsewhere', 'first resolution of %s' % name)
    sys.path.remove(roots[0])
    forget()
    if case['end'] == 'moved':
      sys.path.insert(0, roots[1])
      try:
        got = load()
      except Exception as e:  # pylint: disable=broad-except
        got = 'raised %r' % (e,)
      ctx.check(got == 'copy-B', 'package-relative-name-resolved-elsewhere', 'the package %s now lives in another entry of the Python path: %s delivered %r, expected the copy there' % (pk, name, got))
    else:
      try:
        got = load()
        ctx.check(False, 'missing-file-not-IOError', 'the package %s is no longer on the Python path, yet %s was read (%r)' % (pk, name, got))
      except IOError:
        ctx.count('oracle_evals')
        ctx.check(not snap.store_nonempty(gc), 'missing-file-store-not-prefix', 'store after the unreadable package-relative name: %r' % (snap.store_nonempty(gc),))
      except Exception as e:  # pylint: disable=broad-except
        ctx.check(False, 'missing-file-not-IOError', 'package gone: got %r' % (e,))
    ctx.fp('package-moved', case['form'], case['via'], case['end'])
  finally:
    for r in roots:
      if r in sys.path:
        sys.path.remove(r)
      shutil.rmtree(r, ignore_errors=True)
    forget()
    gin.clear_config()


def run_namespace_directory(ctx, case):
  """A relative name whose directory also exists (without __init__.py) under entries of the Python path: a namespace package, possibly spread
  over several entries (portions). The name is still searched through the locations in order; a file that lives in ANY portion of the
  package is reachable under its package-relative name; and when nobody has it, that is reported by an IOError."""
  import importlib
  import gin
  from gin import config as gc
  gin.clear_config()
  for k, v in (('portions', 1), ('sub_in', [0]), ('file_in', [0]), ('depth', 2)):      # cases recorded before these fields existed
    case.setdefault(k, v)
  _S['nsn'] = _S.get('nsn', 0) + 1
  ns = 'vfns%d_%s' % (_S['nsn'], ctx.uid)
  root = os.path.join(_S['root'], 'ns%d' % _S['nsn'])
  pkgpath = [ns, 'sub'][:case['depth']]
  pyroots, loc = [os.path.join(root, 'py%d' % k) for k in range(case['portions'])], os.path.join(root, 'L1')
  for k, pyroot in enumerate(pyroots):
    os.makedirs(os.path.join(pyroot, ns))                                              # every portion holds the outermost directory
    if k in case['sub_in']:
      os.makedirs(os.path.join(pyroot, *pkgpath), exist_ok=True)
      open(os.path.join(pyroot, *(pkgpath + ['other%d.gin' % k])), 'w').write("c14f.b = 'unrelated'\n")
    if k in case['file_in']:
      open(os.path.join(pyroot, *(pkgpath + ['present.gin'])), 'w').write("c14f.a = 'in-namespace-directory-%d'\n" % k)
  os.makedirs(os.path.join(loc, *pkgpath))
  open(os.path.join(loc, *(pkgpath + ['late.gin'])), 'w').write("c14f.a = 'in-later-location'\n")
  fname = {'nowhere': 'nope.gin', 'later-location': 'late.gin', 'in-the-directory': 'present.gin'}[case['where']]
  name = ('/' if case['form'] == 'slash' or case['where'] == 'later-location' else '.').join(pkgpath) + '/' + fname
  ctx.bucket('search:namespace-directory-on-python-path')
  if case['portions'] > 1:
    ctx.bucket('search:namespace-package-several-portions')
  if case['where'] == 'in-the-directory' and case['file_in'][0] != case['sub_in'][0]:
    ctx.bucket('search:namespace-package-file-in-later-portion')
  sys.path[0:0] = pyroots
  importlib.invalidate_caches()
  gc._LOCATION_PREFIXES[:] = ['', loc]
  try:
    try:
      if case['via'] == 'include':
        gin.parse_config("include '%s'\n" % name)
      elif case['via'] == 'files_and_bindings':
        gin.parse_config_files_and_bindings([name], None, finalize_config=False)
      else:
        gin.parse_config_file(name)
      got = gin.query_parameter('c14f.a')
    except IOError as e:
      got = 'IOError'
    except Exception as e:  # pylint: disable=broad-except
      got = 'raised %s: %s' % (type(e).__name__, str(e)[:120])
    # (which copy, when several portions hold the file, is not demanded: any of them)
    want = {'nowhere': ['IOError'], 'later-location': ['in-later-location'],
            'in-the-directory': ['in-namespace-directory-%d' % k for k in case['file_in']]}[case['where']]
    ctx.count('oracle_evals')
    ctx.check(got in want, 'missing-file-not-IOError' if case['where'] == 'nowhere' else 'package-relative-name-resolved-elsewhere',
              'name %s (its directory is a namespace package on the Python path: %d portion(s), the innermost directory in portions %r, the file in %s): got %r, expected %s' %
              (name.replace(ns, 'NS'), case['portions'], case['sub_in'], 'portions %r' % (case['file_in'],) if case['where'] == 'in-the-directory' else case['where'],
               got, ' or '.join(map(repr, want))))
    if case['where'] == 'nowhere':
      ctx.check(not snap.store_nonempty(gc), 'missing-file-store-not-prefix', 'store after the unreadable package-relative name: %r' % (snap.store_nonempty(gc),))
    ctx.fp('namespace-directory', case['form'], case['via'], case['where'], case['portions'], tuple(case['sub_in']), tuple(case['file_in']), case['depth'])
  finally:
    gc._LOCATION_PREFIXES[:] = ['']
    for pyroot in pyroots:
      if pyroot in sys.path:
        sys.path.remove(pyroot)
    for m in [m for m in sys.modules if m == ns or m.startswith(ns + '.')]:
      del sys.modules[m]
    shutil.rmtree(root, ignore_errors=True)
    importlib.invalidate_caches()
    gin.clear_config()


def run_case(ctx, case):
  import gin
  from gin import config as gc
  if case.get('kind') == 'package-moved':
    return run_package_moved(ctx, case)
  if case.get('kind') == 'namespace-directory':
    return run_namespace_directory(ctx, case)
  gin.clear_config()
  # cases recorded before the extension wave (replays) lack the newer fields
  for k, v in (('shape', 'two' if case['entry'] == 'files_and_bindings' else None), ('skip_arg', 'explicit'), ('print', False), ('decorator', [False] * case['nread']),
               ('text_imports', [[], []]), ('extra', 'list'), ('unknown_in', '0'), ('loc_seq', list(range(1, case['nloc'] + 1))), ('dirs', {})):
    case.setdefault(k, v)
  for fid, f in case['files'].items():
    if f['kind'] in ('pkg-slash', 'pkg-dot') and case['place'][fid] == ['special']:
      case['place'][fid] = [[0, 'pkg']]
  w = World(case)
  try:
    w.materialise()
    _run(ctx, case, w, gin, gc)
  finally:
    gc._LOCATION_PREFIXES[:] = ['']
    gc._FILE_READERS[:] = list(_S['base_readers'])
    w.cleanup()


def _run(ctx, case, w, gin, gc):
  files = case['files']
  entry = case['entry']
  file_list = w.file_list()
  # ---- buckets
  if file_list and depth_of(case) >= 3:
    ctx.bucket('tree:depth3+')
  if file_list and case['twice']:
    ctx.bucket('tree:file-included-twice')
  if file_list and case.get('same_text_twice'):
    ctx.bucket('tree:same-include-twice-in-one-text')
  for fid, f in (files.items() if file_list else ()):
    kinds = [st[0] for st in f['stmts']]
    if kinds.count('include') >= 2:
      ctx.bucket('tree:fanout2+')
      i1 = kinds.index('include')
      i2 = len(kinds) - 1 - kinds[::-1].index('include')
      if 'bind' in kinds[i1:i2]:
        ctx.bucket('conflict:between-includes')
    if 'include' in kinds:
      i = kinds.index('include')
      if 'bind' in kinds[:i]:
        ctx.bucket('conflict:before-include')
      if 'bind' in kinds[i:]:
        ctx.bucket('conflict:after-include')
    if 'import' in kinds:
      ctx.bucket('imports:per-file')
    cell = w.chosen_cell(fid)
    if cell and cell.startswith('L'):
      l, r = cell[1:].split('/')
      cells = [tuple(c) for c in case['place'][fid]]
      if len(cells) > 1 and l == '0':
        ctx.bucket('search:first-location-wins')
      if l != '0':
        ctx.bucket('search:later-location')
      if r.startswith('mem'):
        ctx.bucket('search:memory-reader')
      if len([c for c in cells if str(c[0]) == l]) > 1:
        ctx.bucket('search:reader-order-decides')
      if fid == 'S' and l != '0':
        ctx.bucket('second-file:later-location')
      if fid == 'S' and r.startswith('mem'):
        ctx.bucket('second-file:memory-reader')
      if r == 'pkg':
        ctx.bucket('search:package-slash' if f['kind'] == 'pkg-slash' else 'search:package-dot')
        if any(c[0] > 0 for c in cells):
          ctx.bucket('search:package-reader-before-later-location')
        if any(c[0] == 0 and c[1].startswith('mem') for c in cells):
          ctx.bucket('search:package-reader-before-registered-reader')
      if r == 'fs' and l == '0' and (0, 'pkg') in cells:
        ctx.bucket('search:plain-file-before-package-reader')
    elif cell == 'abs':
      ctx.bucket('search:absolute-name')
    if cell and cell != w.chosen_cell(fid, keep='last'):
      ctx.bucket('search:re-registration-must-not-reorder')   # a location registered again must keep its place for this file to be found where it is
    if cell and cell.startswith('L'):
      order = w.order()
      at = order.index(int(cell[1:].split('/')[0]))
      if any(order.index(l) < at or (order.index(l) == at and not cell.endswith('/fs')) for l in w.dir_locations(fid)):
        ctx.bucket('search:directory-of-that-name-passed-over')
  if len(set(case['loc_seq'])) < len(case['loc_seq']):
    ctx.bucket('locations:re-registered')
  if 0 in case['loc_seq']:
    ctx.bucket('locations:cwd-re-registered')
  if case['nloc'] >= 2:
    ctx.bucket('locations:3+')
  if case.get('rel_locs'):
    ctx.bucket('locations:registered-relative-to-cwd')
  if case['nread'] == 2:
    ctx.bucket('readers:2')
  if any(case['decorator']):
    ctx.bucket('readers:decorator-form')
  ctx.fp(tuple(sorted((fid, f['kind'], tuple(st[0] for st in f['stmts'])) for fid, f in files.items())), case['nloc'], case['nread'],
         tuple(case['loc_seq']), tuple(sorted((k, len(w.dir_locations(k))) for k in files)),
         tuple(sorted((k, len(v)) for k, v in case['place'].items())), case['missing'] is not None, entry, case['unknown'], case.get('shape'),
         case['unknown_in'] if case['unknown_in'] in ('S', 'X') else 'tree')

  # ---- expected: (a) the independent last-writer model over the statements in application order, (b) the flattened text on a cleared config
  complete, ops = w.all_ops()
  flat = [line_of(op) for op in ops]
  model = model_store(ops)
  skip = {'skip': True, 'skip-list': ['c14_unknown_configurable', 'something_else'], 'list-without-it': ['something_else', 'c14_other']}.get(case['unknown'], False)
  # is the statement with the unknown name reached before a missing file stops the parse?
  unknown_reached = ('unknown',) in ops
  raises_unknown = case['unknown'] in ('raise', 'list-without-it') and unknown_reached
  if raises_unknown and not complete:
    return  # two faults in one tree (missing file and unknown name): which comes first is C16's subject
  if case['unknown'] and case['unknown_in'] not in ('0', 'S', 'X') and unknown_reached:
    ctx.bucket('unknown:in-included-file')
  gin.clear_config()
  exp_exc = None
  try:
    gin.parse_config('\n'.join(flat) + '\n', skip_unknown=skip)
  except ValueError:
    exp_exc = 'unknown'
  expected_store = snap.store_nonempty(gc)
  expected_imports = sorted({s.module for s in gc._IMPORTS})
  gin.clear_config()
  ctx.sample({'files': {k: {'name': w.names[k], 'stmts': v['stmts']} for k, v in list(files.items())[:4]}, 'flattened': flat[:12], 'entry': entry}, cap=3)

  # ---- run the real thing
  ctx.bucket('entry:' + entry)
  top = w.names['0']
  exc, res, own_imports = None, None, None
  kw = {}
  # nothing to skip and the generator says so: leave skip_unknown at its DEFAULT (which must mean: unknown names are errors)
  skip_by_default = skip is False and case['skip_arg'] == 'default'
  if not skip_by_default:
    kw['skip_unknown'] = skip
  if case['print'] and entry != 'parse_config-with-include':
    kw['print_includes_and_imports'] = True             # only prints; everything below must hold all the same
    ctx.bucket('print-flag:' + entry)
  _S['hook_seen'] = []
  _S['hook_on'] = True
  try:
    if entry == 'parse_config_file':
      res = gin.parse_config_file(top, **kw)
    elif entry == 'files_and_bindings':
      ctx.bucket('finalize:true' if case['finalize'] else 'finalize:false')
      shape = case['shape'] or 'two'
      ctx.bucket('files-arg:' + shape)
      names = [w.names[fid] for fid in file_list]
      files_arg = {'two': names, 'two-tuple': tuple(names), 'one': names, 'none': None, 'empty-list': []}[shape]
      ctx.bucket('extra-bindings:' + case['extra'])
      if case.get('finalize_default') and case['finalize']:
        ctx.bucket('finalize:default')                  # finalize_config defaults to True
      else:
        kw['finalize_config'] = case['finalize']
      res = gin.parse_config_files_and_bindings(files_arg, w.extra_arg(), **kw)
    else:
      text = ''.join('import %s\n' % m for m in case['text_imports'][0]) + "include '%s'\n" % top + ''.join('import %s\n' % m for m in case['text_imports'][1])
      inc, own_imports = gin.parse_config(text, **kw)
      res = inc
  except Exception as e:  # pylint: disable=broad-except
    exc = e
  finally:
    _S['hook_on'] = False
  hook_seen = _S['hook_seen']
  got_store = snap.store_nonempty(gc)
  ctx.count('flattened_compared')

  if not complete:
    ctx.bucket('missing:top-level' if w.chosen_cell('0') is None else ('missing:second-file' if str(case['missing']) == 'S' else 'missing:include'))
    missing_name = w.names[str(case['missing'])]
    if w.dir_locations(str(case['missing'])):
      ctx.bucket('missing:name-exists-only-as-directory')      # a directory is not something anybody can read: the outcome is the same IOError
    if not ctx.check(isinstance(exc, IOError), 'missing-file-not-IOError', 'file %r unreadable: got %r' % (missing_name, exc)):
      return
    msg = str(exc)
    ctx.check(missing_name in msg, 'missing-file-error-without-name', 'IOError text %r does not name %r' % (msg[:300], missing_name))
    want_locs = [''] if os.path.isabs(missing_name) else w.locs
    ctx.check(repr(want_locs) in msg or all(repr(l) in msg for l in want_locs), 'missing-file-error-without-searched-locations',
              'IOError text %r does not list the searched locations %r' % (msg[:400], want_locs))
    if os.path.isabs(missing_name) and len(w.locs) > 1:
      # an absolute name bypasses the search locations: none of them is searched (so none is named as searched), and a reader is not asked
      # for the very same absolute name once per location
      ctx.bucket('search:absolute-missing-with-locations')
      named = [l for l in w.locs[1:] if repr(l) in msg]
      ctx.check(not named, 'absolute-name-searched-through-locations', 'IOError for the absolute name %r lists registered search locations %r as searched: %r' %
                (missing_name, named, msg[:400]))
      for k, asked in enumerate(w.asked):
        ctx.check(asked.count(missing_name) <= 1, 'absolute-name-searched-through-locations',
                  'registered reader %d was asked %d times for the one absolute name (once per search location?)' % (k, asked.count(missing_name)))
    ctx.check(got_store == expected_store, 'missing-file-store-not-prefix', 'store after the failed include differs from the prefix: %r' % (snap.diff(got_store, expected_store),))
    ctx.check(got_store == model, 'missing-file-store-not-prefix', 'store after the unreadable file differs from the statements applied before it (last-writer model): %r' %
              (snap.diff(got_store, model),))
    return
  where = {'S': 'second-file', 'X': 'extra-bindings'}.get(case['unknown_in']) if case['unknown'] and unknown_reached else None
  if raises_unknown:
    ctx.bucket('unknown:raises' if case['unknown'] == 'raise' else 'unknown:raises-not-in-list')
    if where:
      ctx.bucket('unknown:in-%s:raises' % where)
    if skip_by_default:
      ctx.bucket('unknown:raises-by-default:' + entry)
    ctx.check(isinstance(exc, ValueError) and exp_exc == 'unknown', 'unknown-name-not-an-error',
              'unknown configurable (in %s) %s: got %r' % (where or 'file ' + case['unknown_in'], 'with skip_unknown left at its default' if skip_by_default else 'with skip_unknown=%r' % (skip,), exc))
    return
  if case['unknown'] in ('skip', 'skip-list') and unknown_reached:
    ctx.bucket('unknown:skipped' if case['unknown'] == 'skip' else 'unknown:skipped-by-list')
    if where:
      ctx.bucket('unknown:in-%s:skipped' % where)
  if not ctx.check(exc is None, 'unexpected-exception', '%s raised %s: %s' % (entry, type(exc).__name__, str(exc)[:400])):
    return
  if entry == 'files_and_bindings':
    ctx.check(gin.config_is_locked() == bool(case['finalize']), 'finalize-flag-ignored', 'finalize_config=%s but locked=%s' % (case['finalize'], gin.config_is_locked()))
    # "then finalizes": the finalize hooks run exactly once, and what they are shown is the configuration after the files AND the extra bindings
    if case['finalize']:
      if ctx.check(len(hook_seen) == 1, 'finalize-hooks-not-run-once', 'finalize_config on: the registered finalize hook ran %d times' % len(hook_seen)):
        if file_list and EXTRA_OPS[case['extra']]:
          ctx.bucket('finalize:hook-saw-files-and-extra-bindings')
        ctx.check(hook_seen[0] == model, 'finalize-hook-saw-other-config',
                  'the finalize hook was shown a configuration other than files + extra bindings: %r' % (snap.diff(hook_seen[0], model),))
    else:
      ctx.bucket('finalize:hook-not-run-when-told-not-to')
      ctx.check(not hook_seen, 'finalize-hooks-run-although-told-not-to', 'finalize_config=False, yet the finalize hook ran %d times' % len(hook_seen))
  ctx.check(got_store == expected_store, 'store-differs-from-flattened-text',
            'store after %s differs from parsing the flattened text: %r' % (entry, snap.diff(got_store, expected_store)), {'flattened': flat})
  writers = {}
  for op in ops:
    if op[0] == 'bind' and op[1] == 'c14f':
      writers.setdefault(op[2], set()).add(op[3].split(':')[0])
  if any(len(v) > 1 for v in writers.values()):
    ctx.bucket('model:last-writer-overrides-across-files')
  ctx.check(got_store == model, 'store-differs-from-last-writer-model',
            'store after %s differs from the last writer of each parameter in application order: %r' % (entry, snap.diff(got_store, model)), {'flattened': flat})
  ctx.check(sorted({s.module for s in gc._IMPORTS}) == expected_imports, 'imports-differ-from-flattened', 'recorded imports %r vs flattened %r' %
            (sorted({s.module for s in gc._IMPORTS}), expected_imports))
  # ---- returned tree
  ctx.count('trees_compared')
  if entry == 'parse_config_file':
    got, want = as_tree(res), w.tree('0')
  else:
    # a list with one tree per file given (none: an empty list) / per include statement of the text
    want = [w.tree(fid) for fid in file_list]
    try:
      got = [as_tree(x) for x in res]
    except (TypeError, AttributeError):
      got = res
  ctx.check(got == want, 'returned-tree-differs', 'returned include/import tree %r, expected %r' % (got, want))
  if entry == 'parse_config-with-include':
    want_own = case['text_imports'][0] + case['text_imports'][1]
    if want_own:
      ctx.bucket('text:own-imports')
    ctx.check(list(own_imports) == want_own, 'returned-imports-of-the-text-differ',
              "parse_config returned imports %r for a text with the import statements %r around its include" % (own_imports, want_own))
  gin.clear_config()


LEVEL_TEXT = ('Runtime metamorphic + model monitor: generated include trees are materialised in real directories, in-memory readers and an importable '
              'package; the store after the real parse is compared with the store obtained by parsing the flattened text (which copy of each file is '
              'flattened is decided by an independent search model, and each copy binds a marker naming its cell), the returned tree is compared with '
              'the generated one, and a missing file is injected at a random position (IOError text, store == prefix).')
LEVEL_NOTE = ('Trusted: the search model (10 lines) and the flattening routine. The private location/reader lists are reset between cases (they are '
              'append-only through the public API).')
TECHNIQUE = 'runtime metamorphic monitor (include tree vs flattened text) with a file-search reference model and missing-file fault injection'
DESIGN_REF = 'DESIGN.md section 4, C14'
