"""C12 — finalize locks the configuration; unlock_config always restores the lock."""
import atexit
import itertools
import os
import shutil
import sys
import tempfile
import types

from vf import probes, snap
from vf.teq import canon

ID = 'C12'
LEVEL = 'exploration'
RULE = ('random operation histories over {finalize, bind, parse binding, parse macro, register, external_configurable, clear_config, '
        'unlock_config block (nested <=3, body ops, body returning or raising Exception/BaseException), hook-plan changes (None / new '
        'bindings / same parameter by same or different spelling / invalid key / raising), configs finalize must reject (unbound macro, '
        'unevaluated macro reference, unknown-reference placeholder at depth, top-level %gin.REQUIRED)}; a lock-FSM + store model is '
        'compared with config_is_locked(), the binding store and the exception class after every operation, and every hook records '
        'the configuration it was shown. Registrations under the lock also cover classes (constructor must stay untouched), classes '
        'with a registered method (the method keeps its name) and implicit registration by a dynamic-registration parse; bindings under '
        'the lock also go through tuple/list keys, parse_config(list), parse_config_file, include and parse_config_files_and_bindings; '
        'valid configurations holding references (bound macro, constant, @f, @f(), nested, as dict key) must be accepted; unlock_config '
        'is also left by an exception of a gin operation, by closing a generator suspended inside the block, used as a decorator and '
        'through a context manager created in another lock state than the one it is entered in. thorough adds all sequences of '
        'Hook plans include a hook that restates every bound int by the float comparing equal to it (the update is applied all the same). '
        'length<=4 over a 16-op alphabet. distinct = op-kind sequences')
TIERS = {
    'quick': {'workers': 8, 'cases': 4200, 'timeout': 600, 'exhaustive_len': 0},
    'thorough': {'workers': 16, 'cases': 12000, 'timeout': 3000, 'exhaustive_len': 4},
}
# further workloads for the property's online monitor (vf/online.py): the repository's tests and other checks' generated cases
ONLINE = {'which': ['lock'], 'foreign': ['C05', 'C11', 'C14', 'C20'], 'n': {'quick': 40, 'thorough': 600}}
REQUIRED_BUCKETS = ['op:finalize', 'op:bind', 'op:parse', 'op:macro', 'op:register', 'op:register-same-object-again', 'op:external', 'op:clear', 'op:unlock', 'op:unlock-raises',
                    'op:unlock-nested', 'op:hookplan', 'op:poison', 'state:mutation-under-lock', 'state:double-finalize',
                    'state:unlock-while-locked', 'state:finalize-inside-active-config-scope', 'state:unlock-raises-while-locked', 'state:finalize-inside-unlock',
                    'reject:unbound-macro', 'reject:unevaluated-macro', 'reject:unknown-reference', 'reject:required', 'reject:unbound-macro-as-dict-key', 'reject:unknown-reference-unevaluated',
                    'reject:hook-conflict', 'reject:hook-conflict-spelling', 'reject:hook-conflict-same-value', 'op:register-hook', 'reject:hook-invalid-key', 'reject:hook-raises',
                    'hooks:return-bindings-applied', 'hooks:saw-pre-finalize-config', 'op:from-another-thread',
                    # registrations of classes and implicit (dynamic) registrations, with and without the lock
                    'op:register-class', 'op:register-class-with-registered-method', 'op:register-dynamic',
                    'state:register-class-under-lock', 'state:register-class-with-registered-method-under-lock', 'state:register-dynamic-under-lock',
                    # every binding entry point under the lock
                    'state:bind-tuple-key-under-lock', 'state:parse-list-under-lock', 'state:parse-file-under-lock', 'state:parse-include-under-lock',
                    'state:pcfab-under-lock', 'state:pcfab-file-under-lock', 'state:pcfab-fin-under-lock',
                    # valid configurations with references
                    'accept:bound-macro', 'accept:bound-macro-nested', 'accept:constant', 'accept:configurable', 'accept:call', 'accept:scoped-call',
                    'accept:nested', 'accept:dict-key', 'accept:dynamically-registered-reference', 'reject:macro-not-bound-when-finalizing',
                    # exit paths of unlock_config
                    'op:unlock-gin-exception', 'state:unlock-gin-exception-while-locked', 'op:unlock-generator-close', 'state:unlock-generator-close-while-locked',
                    'op:unlock-decorator', 'state:unlock-decorator-while-locked', 'unlock:cm-created-unlocked-entered-locked',
                    'unlock:cm-created-locked-entered-unlocked',
                    # hook keys
                    'reject:hook-conflict-tuple-key', 'reject:hook-conflict-partial-module', 'hooks:updated-bound-parameter', 'hooks:update-to-equal-value-of-another-type']
ORACLE_COUNTERS = ['oracle_evals', 'ops_compared']

_S = {'plan': [None, None], 'seen': []}
_reg = itertools.count()


class BodyError(Exception):
  pass


class BodyBase(BaseException):
  pass


class HookError(Exception):
  pass


def setup(ctx):
  import gin
  from gin import config as gc

  def make_hook(i):
    def hook(config):
      _S['seen'].append((i, {k: {a: canon(v) for a, v in d.items()} for k, d in config.items() if d}))
      plan = _S['plan'][i]
      if plan is None:
        return None
      if plan == 'raise':
        raise HookError('hook %d' % i)
      return dict(plan)
    return hook

  gc.register_finalize_hook(make_hook(0))
  gc.register_finalize_hook(make_hook(1))
  # an importable module for dynamic registration: fresh, unregistered classes are put into it one per operation. The configurables
  # bound by the histories live in it too: once a configuration uses dynamic registration, gin's config_str (part of the messages
  # of a rejecting finalize) imports the defining module of every configurable that has bindings
  mod = types.ModuleType('c12dyn_' + ctx.uid)
  sys.modules[mod.__name__] = mod
  _S['dynmod'] = mod
  _S['f'] = probes.build({'shape': 'fn', 'api': 'external', 'name': 'f', 'module': 'c12.sub', 'pos': [], 'dflt': [['a', 0], ['b', 0], ['c', 0]],
                          'varargs': False, 'kwonly': [], 'varkw': False, 'pymodule': mod.__name__})
  mod.f = _S['f'].original
  gin.constant('c12.CONST', 5)

  # a second configurable that receives the VALID references (f.c is where the configurations finalize must reject go)
  def g(r=0, s=0):
    return (r, s)
  g.__module__ = mod.__name__
  mod.g = g
  gin.external_configurable(g, 'g', module='c12.sub')
  _S['g'] = g
  # files for parse_config_file / include / parse_config_files_and_bindings: one per distinct text, written once
  _S['dir'] = tempfile.mkdtemp(prefix='vf-c12-')
  _S['files'] = {}
  atexit.register(shutil.rmtree, _S['dir'], True)


def config_file(text):
  path = _S['files'].get(text)
  if path is None:
    path = _S['files'][text] = os.path.join(_S['dir'], 'c%d.gin' % len(_S['files']))
    with open(path, 'w') as fh:
      fh.write(text)
  return path


GSEL = 'c12.sub.g'
# valid configurations containing references: text, canonical stored value, needs the macro c12m to be bound when finalizing
VALIDREFS = {
    'bound-macro': ("g.r = %c12m", ('ref', 'c12m/gin.macro', True), True),
    'bound-macro-nested': ("g.r = [1, (%c12m,)]", ('list', (('int', 1), ('tuple', (('ref', 'c12m/gin.macro', True),)))), True),
    'constant': ("g.r = %c12.CONST", ('ref', 'c12.CONST/gin.constant', True), False),
    'configurable': ("g.r = @f", ('ref', 'c12.sub.f', False), False),
    'call': ("g.r = @sub.f()", ('ref', 'c12.sub.f', True), False),
    'scoped-call': ("g.r = @s/f()", ('ref', 's/c12.sub.f', True), False),
    'nested': ("g.r = [1, {'k': (@f(), %c12.CONST)}]",
               ('list', (('int', 1), ('dict', ((('str', 'k'), ('tuple', (('ref', 'c12.sub.f', True), ('ref', 'c12.CONST/gin.constant', True)))),)))), False),
    'dict-key': ("g.r = {@f: %c12.CONST}", ('dict', ((('ref', 'c12.sub.f', False), ('ref', 'c12.CONST/gin.constant', True)),)), False),
}
VALIDREF_KINDS = sorted(VALIDREFS) + ['bound-macro', 'bound-macro', 'bound-macro-nested', 'bound-macro-nested']
MACRO_KEY = ('c12m', 'gin.macro')
REGISTER_APIS = ['register', 'external', 'configurable', 'again', 'class-configurable', 'class-register', 'class-external',
                 'class-method-register', 'class-method-external', 'dynamic', 'dynamic']
BIND_FORMS = ['str', 'str', 'str', 'tuple', 'list', 'partial']
PARSE_APIS = ['string', 'string', 'string', 'string', 'list', 'file', 'include', 'pcfab', 'pcfab-file', 'pcfab-fin']
UNLOCK_HOWS = ['ok', 'ok', 'ok', 'ok', 'BodyError', 'BodyError', 'BodyBase', 'BodyBase', 'StopIteration', 'gin-ValueError', 'gin-SyntaxError',
               'gin-RuntimeError', 'generator-close']
UNLOCK_VIAS = ['with', 'with', 'with', 'decorator', 'early', 'early-decorator']
POISONS = {
    'unbound-macro': ("f.c = %c12_undefined_macro", None, ('ref', 'c12_undefined_macro/gin.macro', True)),
    'unevaluated-macro': ("f.c = @c12m/gin.macro", None, ('ref', 'c12m/gin.macro', False)),
    'unknown-reference': ("f.c = [1, {'k': (@c12_nosuch(), 2)}]", True, None),
    'required': ("f.c = %gin.REQUIRED", None, ('ref', 'gin.REQUIRED/gin.constant', True)),
    # the same kinds of references deeper inside containers, in dict-key position, and unevaluated
    'unbound-macro-nested': ("f.c = [1, (%c12_undefined_macro,)]", None, None),
    'unbound-macro-as-dict-key': ("f.c = {%c12_undefined_macro: 1}", None, None),
    'unevaluated-macro-as-dict-key': ("f.c = {'k': {@c12m/gin.macro: 1}}", None, None),
    'unknown-reference-as-dict-key': ("f.c = {@c12_nosuch(): 1}", True, None),
    'unknown-reference-unevaluated': ("f.c = @c12_nosuch", True, None),
}
HOOKPLANS = ['none', 'new', 'conflict', 'conflict-spelling', 'conflict-same-value', 'invalid-key', 'raise', 'two-distinct',
             'conflict-tuple', 'conflict-partial', 'update-bound', 'update-bound', 'update-bound-equal', 'update-bound-equal']


def gen_ops(rng, depth=0, n=None):
  ops = []
  for _ in range(n if n is not None else rng.randrange(2, 9)):
    k = rng.random()
    if k < 0.2:
      ops.append(['finalize'])
    elif k < 0.3:
      ops.append(['bind', rng.choice(['a', 'b']), rng.choice(['', 's']), rng.randrange(100), rng.choice(BIND_FORMS)])
    elif k < 0.4:
      ops.append(['parse', rng.choice(['a', 'b']), rng.choice(['', 's']), rng.randrange(100), rng.random() < 0.3, rng.choice(PARSE_APIS)])
    elif k < 0.45:
      ops.append(['macro', rng.randrange(100)])
    elif k < 0.53:
      ops.append(['register', rng.choice(REGISTER_APIS)] if rng.random() < 0.85 else ['register-hook'])
    elif k < 0.58:
      ops.append(['clear'])
    elif k < 0.76 and depth < 3:
      how = rng.choice(UNLOCK_HOWS)
      via = rng.choice(UNLOCK_VIAS)
      ops.append(['unlock', gen_ops(rng, depth + 1, rng.randrange(0, 4)), how, via])
    elif k < 0.8:
      ops.append(['mkcm'])
    elif k < 0.87:
      ops.append(['hookplan', rng.choice(HOOKPLANS)])
    elif k < 0.925:
      ops.append(['validref', rng.choice(VALIDREF_KINDS), rng.choice(['', '', 's'])])
    elif k < 0.975:
      ops.append(['poison', rng.choice(sorted(POISONS)), rng.choice(['', '', 's', 's/t'])])
    else:
      ops.append(['unpoison'])
  return ops


def iter_cases(ctx, rng, n):
  for _ in range(n):
    yield {'ops': gen_ops(rng)}


class Model:

  def __init__(self):
    self.locked = False
    self.store = {}
    self.plan = 'none'
    self.poisons = {}
    self.gr = {}    # scope -> kind of the valid reference bound to g.r there
    self.cms = []   # unlock_config() context managers created but not entered yet: (object, lock state when it was created)

  def set(self, scope, sel, param, cv):
    self.store.setdefault((scope, sel), {})[param] = cv


SEL = 'c12.sub.f'


def plan_bindings(plan):
  """hook plans -> (plan for hook0, plan for hook1, expected rejection bucket or None, bindings applied on success)"""
  if plan == 'none':
    return None, None, None, {}
  if plan == 'new':
    return {'h/f.a': 'h0'}, None, None, {('h', 'a'): 'h0'}
  if plan == 'two-distinct':
    return {'h/f.a': 'h0', 'f.b': 'h0b'}, {'h/sub.f.b': 'h1'}, None, {('h', 'a'): 'h0', ('', 'b'): 'h0b', ('h', 'b'): 'h1'}
  if plan == 'conflict':
    return {'h/f.a': 'h0'}, {'h/f.a': 'h1'}, 'reject:hook-conflict', {}
  if plan == 'conflict-spelling':
    return {'h/f.a': 'h0'}, {'h/c12.sub.f.a': 'h1'}, 'reject:hook-conflict-spelling', {}
  if plan == 'conflict-same-value':
    # two hooks updating the same parameter are rejected whatever they want to set it to
    return {'h/f.a': 'same'}, {('h', 'sub.f', 'a'): 'same'}, 'reject:hook-conflict-same-value', {}
  if plan == 'conflict-tuple':
    # the key forms bind_parameter accepts: (scope, selector, parameter) tuples, with a partial and with the full selector
    return {('h', 'f', 'a'): 'h0'}, {('h', 'c12.sub.f', 'a'): 'h1'}, 'reject:hook-conflict-tuple-key', {}
  if plan == 'conflict-partial':
    return {'h/f.a': 'h0'}, {'h/sub.f.a': 'h1'}, 'reject:hook-conflict-partial-module', {}
  if plan == 'update-bound':
    # parameters the history itself binds (as s/f.a, f.b, ...), updated by hooks that spell them differently
    return {'s/sub.f.a': 'hu'}, {('', 'c12.sub.f', 'b'): 'hub'}, None, {('s', 'a'): 'hu', ('', 'b'): 'hub'}
  if plan == 'invalid-key':
    return {'h/f.a': 'h0'}, {'c12_unknown_configurable.x': 1}, 'reject:hook-invalid-key', {}
  if plan == 'raise':
    return {'h/f.a': 'h0'}, 'raise', 'reject:hook-raises', {}
  raise ValueError(plan)


def in_thread(fn):
  """Run fn in a fresh thread and return/raise what it returns/raises: the lock is a property of the configuration, not of a thread."""
  import threading
  box = {}

  def run():
    try:
      box['r'] = fn()
    except BaseException as e:  # pylint: disable=broad-except
      box['e'] = e
  t = threading.Thread(target=run)
  t.start()
  t.join(60)
  if 'e' in box:
    raise box['e']
  return box.get('r')


def make_class(name, with_method, module):
  """A fresh class (optionally with a method gin accepts as a method of that class: same module, reachable under its own name)."""
  def __init__(self, z=1):
    self.z = z
  __init__.__qualname__ = name + '.__init__'
  ns = {'__init__': __init__, '__module__': module}
  meth = None
  if with_method:
    def meth(self, q=1):
      return q
    meth.__name__ = 'm_' + name
    meth.__qualname__ = name + '.' + meth.__name__
    meth.__module__ = module
    ns[meth.__name__] = meth
  return type(name, (object,), ns), meth


def is_registered(gin, obj_or_selector):
  try:
    gin.get_configurable(obj_or_selector)
    return True
  except ValueError:
    return False


def run_ops(ctx, m, ops, depth, shape):
  """Runs ops against gin and model; returns normally (exceptions from unlock bodies are raised by the caller)."""
  import gin
  from gin import config as gc
  for op in ops:
    kind = op[0]
    shape.append(kind if kind != 'unlock' else 'unlock%d:%s' % (depth, op[2]))
    before = snap.store_nonempty(gc)
    expect_exc = None
    got_exc = None
    other_thread = (ctx.case_no + len(shape)) % 14 == 0 and kind in ('finalize', 'bind', 'parse', 'macro', 'register')
    call = in_thread if other_thread else (lambda f: f())
    if other_thread:
      ctx.bucket('op:from-another-thread')
    label = '%r (locked=%s%s)' % (op if kind != 'unlock' else ['unlock', '...', op[2]], m.locked, ', from another thread' if other_thread else '')
    if kind in ('bind', 'parse', 'macro', 'poison', 'unpoison', 'register', 'validref') and m.locked:
      ctx.bucket('state:mutation-under-lock')
    if kind == 'finalize':
      ctx.bucket('op:finalize')
      if m.plan == 'update-bound-equal':
        # a hook that restates every int-valued parameter of the history as the float that compares equal to it (1 -> 1.0): the
        # update is one all the same, finalize applies what hooks return
        h0 = {(sc, 'sub.f', prm): float(v[1]) for (sc, sel), d in m.store.items() if sel == SEL
              for prm, v in d.items() if v[0] == 'int'}
        h1, rej, applied = None, None, {(sc, prm): v for (sc, _, prm), v in h0.items()}
        if applied:
          ctx.bucket('hooks:update-to-equal-value-of-another-type')
      else:
        h0, h1, rej, applied = plan_bindings(m.plan)
      _S['plan'] = [h0, h1]
      del _S['seen'][:]
      if m.locked:
        ctx.bucket('state:double-finalize')
        expect_exc = RuntimeError
      elif m.poisons:
        expect_exc = ValueError
        for pk in set(m.poisons.values()):
          ctx.bucket('reject:' + pk)
      elif any(VALIDREFS[k][2] for k in m.gr.values()) and 'value' not in m.store.get(MACRO_KEY, {}):
        # a reference to the macro c12m is bound but the macro itself is not (it never was, or clear_config removed it). Which of a
        # raising user hook and the built-in validation is reported first is not pinned down
        expect_exc = (ValueError, HookError) if rej == 'reject:hook-raises' else ValueError
        ctx.bucket('reject:macro-not-bound-when-finalizing')
      elif rej:
        expect_exc = HookError if rej == 'reject:hook-raises' else ValueError
        ctx.bucket(rej)
      if depth > 0 and not m.locked:
        ctx.bucket('state:finalize-inside-unlock')
      runs_before = [t['runs'] for t in _S.get('extra_hooks', [])]

      def do_finalize():
        # whether a config scope happens to be active while finalizing changes nothing
        if (ctx.case_no + len(shape)) % 3 == 0:
          ctx.bucket('state:finalize-inside-active-config-scope')
          with gin.config_scope('c12scope/inner'):
            return gin.finalize()
        return gin.finalize()
      try:
        call(do_finalize)
      except Exception as e:  # pylint: disable=broad-except
        got_exc = e
      if expect_exc is None and got_exc is None:
        # a successful finalize ran every registered hook exactly once, whenever it was registered
        runs = [t['runs'] - b for t, b in zip(_S.get('extra_hooks', []), runs_before)]
        ctx.check(all(r == 1 for r in runs) and sorted(i for i, _ in _S['seen']) == [0, 1], 'finalize-did-not-run-every-hook',
                  '%s: hooks registered during earlier histories ran %r times, the two initial hooks %r' % (label, runs, sorted(i for i, _ in _S['seen'])))
      if expect_exc is None:
        if any(prm in m.store.get((sc, SEL), {}) and m.store[(sc, SEL)][prm] != canon(v) for (sc, prm), v in applied.items()):
          ctx.bucket('hooks:updated-bound-parameter')
        for (sc, prm), v in applied.items():
          m.set(sc, SEL, prm, canon(v))
        if applied:
          ctx.bucket('hooks:return-bindings-applied')
        # a valid configuration may hold references: bound macros, constants, @f, @f(), also nested and as dict keys
        for k in set(m.gr.values()):
          ctx.bucket('accept:' + k)
        if m.store.get(('', GSEL), {}).get('s') is not None:
          ctx.bucket('accept:dynamically-registered-reference')
        m.locked = True
      if not (m.locked and expect_exc is RuntimeError):
        # every hook that ran was shown the configuration as it was before finalize
        for (i, shown) in _S['seen']:
          if ctx.check(shown == before, 'hook-saw-modified-config', 'hook %d was shown %r, configuration before finalize was %r' % (i, shown, before)):
            ctx.bucket('hooks:saw-pre-finalize-config')
    elif kind == 'bind':
      ctx.bucket('op:bind')
      expect_exc = RuntimeError if m.locked else None
      form = op[4] if len(op) > 4 else 'str'
      pre = op[2] + '/' if op[2] else ''
      key = {'str': pre + 'f.' + op[1], 'partial': pre + 'sub.f.' + op[1], 'tuple': (op[2], 'sub.f', op[1]), 'list': [op[2], SEL, op[1]]}[form]
      if form in ('tuple', 'list'):
        ctx.bucket('op:bind-tuple-key')
        if m.locked:
          ctx.bucket('state:bind-tuple-key-under-lock')
      try:
        call(lambda: gin.bind_parameter(key, op[3]))
      except Exception as e:  # pylint: disable=broad-except
        got_exc = e
      if not m.locked:
        m.set(op[2], SEL, op[1], canon(op[3]))
    elif kind == 'parse':
      ctx.bucket('op:parse')
      expect_exc = RuntimeError if m.locked else None
      pre = op[2] + '/' if op[2] else ''
      api = op[5] if len(op) > 5 else 'string'
      from_file = api in ('file', 'include', 'pcfab-file', 'pcfab-fin')
      val = op[3] % 5 + 100 if from_file else op[3]  # few distinct files
      text = ('%sf:\n  %s = %d\n' % (pre, op[1], val)) if op[4] else ('%ssub.f.%s = %d' % (pre, op[1], val))
      if api != 'string':
        ctx.bucket('op:parse-' + api)
        if m.locked:
          ctx.bucket('state:%s-under-lock' % (api if api.startswith('pcfab') else 'parse-' + api))
      path = config_file(text + '\n') if from_file else None
      lines = [l for l in text.split('\n') if l]
      # parse_config_files_and_bindings finalizes by default: left to do so only where the lock must stop it before
      fin = {} if api == 'pcfab-fin' and m.locked else {'finalize_config': False}
      parse = {
          'string': lambda: gin.parse_config(text),
          'list': lambda: gin.parse_config(lines),
          'file': lambda: gin.parse_config_file(path),
          'include': lambda: gin.parse_config("include '%s'\n" % path),
          'pcfab': lambda: gin.parse_config_files_and_bindings([], lines, **fin),
          'pcfab-file': lambda: gin.parse_config_files_and_bindings([path], None, **fin),
          'pcfab-fin': lambda: gin.parse_config_files_and_bindings([path], '', **fin),
      }[api]
      try:
        call(parse)
      except Exception as e:  # pylint: disable=broad-except
        got_exc = e
      if not m.locked:
        m.set(op[2], SEL, op[1], canon(val))
    elif kind == 'macro':
      ctx.bucket('op:macro')
      expect_exc = RuntimeError if m.locked else None
      try:
        call(lambda: gin.parse_config('c12m = %d' % op[1]))
      except Exception as e:  # pylint: disable=broad-except
        got_exc = e
      if not m.locked:
        m.set('c12m', 'gin.macro', 'value', canon(op[1]))
    elif kind == 'register' and op[1] == 'again':
      # an object that is already registered is registered again under the same name (accepted when unlocked): under the lock this is
      # a registration like any other - it raises and the registry entry stays the very same one
      ctx.bucket('op:register-same-object-again')
      expect_exc = RuntimeError if m.locked else None
      if 'again' not in _S:
        def again(x=1, y=2):
          return x
        again.__name__ = 'c12again_' + ctx.uid
        with gin.unlock_config():
          gin.external_configurable(again, again.__name__, module='c12')
        _S['again'] = again
      again = _S['again']
      entry = gc._REGISTRY['c12.' + again.__name__]
      try:
        call(lambda: gin.external_configurable(again, again.__name__, module='c12', **({'denylist': ['y']} if m.locked else {})))
      except Exception as e:  # pylint: disable=broad-except
        got_exc = e
      if m.locked:
        ctx.check(gc._REGISTRY['c12.' + again.__name__] is entry, 'registration-vs-lock', '%s: registering an already registered object again replaced its registry entry '
                  '(denylist %r -> %r)' % (label, entry.denylist, gc._REGISTRY['c12.' + again.__name__].denylist))
    elif kind == 'register' and op[1] == 'dynamic':
      # implicit registration: a parse with dynamic registration registers every object it mentions that is not registered yet.
      # Under the lock the parse raises and the class is not registered (the binding key names a configurable that exists already,
      # so the fresh class in the value is the only thing to register)
      ctx.bucket('op:register-dynamic')
      if m.locked:
        ctx.bucket('state:register-dynamic-under-lock')
      expect_exc = RuntimeError if m.locked else None
      mod = _S['dynmod']
      cname = 'K%d' % next(_reg)
      cls, _ = make_class(cname, False, mod.__name__)
      setattr(mod, cname, cls)
      text = 'from __gin__ import dynamic_registration\nimport %s\n%s.g.s = @%s.%s()\n' % (mod.__name__, mod.__name__, mod.__name__, cname)
      try:
        call(lambda: gin.parse_config(text))
      except Exception as e:  # pylint: disable=broad-except
        got_exc = e
      registered = is_registered(gin, cls)
      ctx.check(registered == (not m.locked), 'dynamic-registration-vs-lock',
                '%s: after parsing a reference to an unregistered class with dynamic registration the class is %sregistered' % (label, '' if registered else 'not '))
      if not m.locked:
        m.set('', GSEL, 's', ('ref', '%s.%s' % (mod.__name__, cname), True))
      else:
        delattr(mod, cname)
    elif kind == 'register' and op[1].startswith('class-'):
      # registering a CLASS does more than write a registry entry: gin.configurable replaces the constructor, and registering a class
      # that has a registered method renames the method's entry. Under the lock none of that may have happened when the call raises
      api = op[1].split('-')[-1]
      with_method = op[1].startswith('class-method-')
      ctx.bucket('op:register-class-with-registered-method' if with_method else 'op:register-class')
      if m.locked:
        ctx.bucket('state:register-class%s-under-lock' % ('-with-registered-method' if with_method else ''))
      expect_exc = RuntimeError if m.locked else None
      name = 'C12cls%d_%s' % (next(_reg), ctx.uid)
      cls, meth = make_class(name, with_method, __name__)
      if with_method:
        # the method is registered on its own first (outside the history: the lock flag is put aside for it)
        gc._set_config_is_locked(False)
        try:
          gin.register(meth)
        finally:
          gc._set_config_is_locked(m.locked)
        old_sel, new_sel = '%s.%s' % (meth.__module__, meth.__name__), 'c12.%s.%s' % (name, meth.__name__)
        if not is_registered(gin, old_sel):
          raise RuntimeError('harness: the method was not registered as %s' % old_sel)
      ctor = cls.__dict__['__init__']
      try:
        if api == 'register':
          call(lambda: gin.register(name, module='c12')(cls))
        elif api == 'external':
          call(lambda: gin.external_configurable(cls, name, module='c12'))
        else:
          call(lambda: gin.configurable(name, module='c12')(cls))
      except Exception as e:  # pylint: disable=broad-except
        got_exc = e
      registered = is_registered(gin, 'c12.' + name)
      ctx.check(registered == (not m.locked), 'registration-vs-lock',
                '%s: after %s of a class the name is %sregistered' % (label, api, '' if registered else 'not '))
      if m.locked:
        ctx.check(cls.__dict__.get('__init__') is ctor and '__new__' not in cls.__dict__, 'registration-under-lock-changed-class',
                  '%s: %s of a class raised %r but replaced its constructor' % (label, api, got_exc))
        if with_method:
          ctx.check(is_registered(gin, old_sel) and not is_registered(gin, new_sel), 'registration-under-lock-renamed-method',
                    '%s: %s of a class raised %r but its registered method is now known as %s: %s, as %s: %s'
                    % (label, api, got_exc, old_sel, is_registered(gin, old_sel), new_sel, is_registered(gin, new_sel)))
    elif kind == 'register':
      api = op[1]
      ctx.bucket('op:external' if api == 'external' else 'op:register')
      name = 'c12reg%d_%s' % (next(_reg), ctx.uid)
      expect_exc = RuntimeError if m.locked else None

      def fresh(x=1):
        return x
      fresh.__name__ = name
      try:
        if api == 'register':
          call(lambda: gin.register(name, module='c12')(fresh))
        elif api == 'external':
          call(lambda: gin.external_configurable(fresh, name, module='c12'))
        else:
          call(lambda: gin.configurable(name, module='c12')(fresh))
      except Exception as e:  # pylint: disable=broad-except
        got_exc = e
      try:
        gin.get_configurable('c12.' + name)
        registered = True
      except ValueError:
        registered = False
      ctx.check(registered == (not m.locked), 'registration-vs-lock',
                '%s: after %s the name is %sregistered' % (label, api, '' if registered else 'not '))
    elif kind == 'clear':
      ctx.bucket('op:clear')
      gin.clear_config()
      m.locked = False
      m.store = {}
      m.poisons = {}
      m.gr = {}
    elif kind == 'validref':
      # bindings whose values are references finalize must ACCEPT (as long as the macro they may name is bound when finalizing)
      ctx.bucket('op:validref')
      text, cv, _ = VALIDREFS[op[1]]
      expect_exc = RuntimeError if m.locked else None
      try:
        gin.parse_config((op[2] + '/' if op[2] else '') + text)
      except Exception as e:  # pylint: disable=broad-except
        got_exc = e
      if not m.locked:
        m.set(op[2], GSEL, 'r', cv)
        m.gr[op[2]] = op[1]
    elif kind == 'mkcm':
      # an unlock_config() context manager is created now and entered later, possibly in another lock state: creating it changes
      # nothing, and the lock state it restores is the one on ENTRY
      ctx.bucket('op:mkcm')
      if len(m.cms) < 3:
        m.cms.append((gin.unlock_config(), m.locked))
    elif kind == 'hookplan':
      ctx.bucket('op:hookplan')
      m.plan = op[1]
    elif kind == 'register-hook':
      # hooks may be registered at any point of a history (at most 4 extra ones per process: they cannot be removed again)
      ctx.bucket('op:register-hook' + ('-while-locked' if m.locked else ''))
      if len(_S.setdefault('extra_hooks', [])) < 4:
        tally = {'runs': 0}

        def extra_hook(config, tally=tally):
          tally['runs'] += 1
          return None
        try:
          gc.register_finalize_hook(extra_hook)
          _S['extra_hooks'].append(tally)
        except Exception:  # pylint: disable=broad-except
          ctx.count('hook_registration_refused')
    elif kind == 'poison':
      ctx.bucket('op:poison')
      text, skip, cv = POISONS[op[1]]
      psc = op[2] if len(op) > 2 else ''
      text = text.replace('f.c', (psc + '/' if psc else '') + 'f.c', 1)
      expect_exc = RuntimeError if m.locked else None
      try:
        gin.parse_config(text, skip_unknown=bool(skip))
      except Exception as e:  # pylint: disable=broad-except
        got_exc = e
      if not m.locked:
        m.poisons[psc] = op[1]
        m.store.setdefault((psc, SEL), {})['c'] = cv if cv is not None else snap.store_nonempty(gc)[(psc, SEL)]['c']
    elif kind == 'unpoison':
      expect_exc = RuntimeError if m.locked else None
      try:
        for psc in sorted(m.poisons) or ['']:
          gin.bind_parameter((psc + '/' if psc else '') + 'f.c', 7)
      except Exception as e:  # pylint: disable=broad-except
        got_exc = e
      if not m.locked:
        for psc in sorted(m.poisons) or ['']:
          m.set(psc, SEL, 'c', canon(7))
        m.poisons = {}
    elif kind == 'unlock':
      body, how = op[1], op[2]
      via = op[3] if len(op) > 3 else 'with'
      ctx.bucket('op:unlock')
      if depth >= 1:
        ctx.bucket('op:unlock-nested')
      if m.locked:
        ctx.bucket('state:unlock-while-locked')
      saved = m.locked
      raised = None
      cm = None
      if via.startswith('early'):
        if m.cms:
          cm, made_locked = m.cms[0]
          if via == 'early' or how == 'generator-close':
            m.cms.pop(0)  # entered with `with`: used up. As a decorator it makes a new context manager for every call
          if made_locked != saved:
            ctx.bucket('unlock:cm-created-%s-entered-%s' % ('locked' if made_locked else 'unlocked', 'locked' if saved else 'unlocked'))
        else:
          via = 'with' if via == 'early' else 'decorator'
      if how == 'generator-close':
        via = 'early' if cm is not None else 'with'  # the suspended generator holds the block open with a `with` statement
      box = {}

      def block():
        m.locked = False
        ctx.check(gin.config_is_locked() is False, 'unlock-block-still-locked', '%s: inside unlock_config the config is locked' % label)
        run_ops(ctx, m, body, depth + 1, shape)
        if how == 'BodyError':
          raise BodyError('body')
        if how == 'BodyBase':
          raise BodyBase('body')
        if how == 'StopIteration':
          raise StopIteration('body')
        if how.startswith('gin-'):
          # the block is left by the exception of a gin operation itself
          try:
            if how == 'gin-SyntaxError':
              gin.parse_config('f.a = = 1')
            elif how == 'gin-RuntimeError' and m.locked:
              gin.bind_parameter('f.a', 0)  # the body finalized: the lock guard's own exception leaves the block
            else:
              gin.bind_parameter('c12_unknown_configurable.x', 1)
          except Exception as e:  # pylint: disable=broad-except
            box['gin'] = e
            raise
          # the operations are invalid whatever the lock state, except the bind after the body finalized: there the guard did not fire
          ctx.check(False, 'expected-exception-missing', '%s: the gin operation ending the block (locked=%s) did not raise' % (label, m.locked))
          raise BodyError('body')  # leave the block by an exception all the same

      try:
        if how == 'generator-close':
          # a generator is suspended inside the block and closed: the block is left by GeneratorExit
          def suspended():
            with (cm if cm is not None else gin.unlock_config()):
              block()
              yield 1
          it = suspended()
          next(it)
          it.close()
        elif via.endswith('decorator'):
          (cm if cm is not None else gin.unlock_config())(block)()
        else:
          with (cm if cm is not None else gin.unlock_config()):
            block()
      except (BodyError, BodyBase, StopIteration) as e:
        raised = e
      except Exception as e:  # pylint: disable=broad-except
        if e is not box.get('gin'):
          raise
        raised = e
      if how in ('BodyError', 'BodyBase'):
        ctx.check(raised is not None and type(raised).__name__ == how, 'unlock-swallowed-exception', '%s: body exception %s did not propagate' % (label, how))
      if how not in ('ok', 'generator-close'):
        ctx.bucket('op:unlock-raises')
        if saved:
          ctx.bucket('state:unlock-raises-while-locked')
      if how.startswith('gin-') or how == 'generator-close':
        tag = 'gin-exception' if how.startswith('gin-') else how
        ctx.bucket('op:unlock-' + tag)
        if saved:
          ctx.bucket('state:unlock-%s-while-locked' % tag)
      if via != 'with':
        tag = 'decorator' if via.endswith('decorator') else 'early-cm'
        ctx.bucket('op:unlock-' + tag)
        if saved:
          ctx.bucket('state:unlock-%s-while-locked' % tag)
      m.locked = saved
      ctx.count('ops_compared')
      key = 'unlock-did-not-restore-lock' + ('-normal-exit' if how == 'ok' else '-gin-exception' if how.startswith('gin-') else
                                             '-generator-close' if how == 'generator-close' else '')
      if via != 'with':
        key += '-decorator' if via.endswith('decorator') else ''
        key += '-cm-created-earlier' if cm is not None else ''
      ctx.check(gin.config_is_locked() == m.locked, key,
                '%s: after leaving unlock_config (%s, used as %s) locked=%s, on entry it was %s' % (label, how, via, gin.config_is_locked(), saved))
      if gin.config_is_locked() != m.locked:
        gc._set_config_is_locked(m.locked)  # resynchronise so one defect is reported once per history
      continue

    # compare after the op
    ctx.count('ops_compared')
    if expect_exc is None:
      ctx.check(got_exc is None, 'unexpected-exception', '%s raised %s: %s' % (label, type(got_exc).__name__, str(got_exc)[:300]))
    else:
      ctx.check(isinstance(got_exc, expect_exc), 'expected-exception-missing',
                '%s: expected %s, got %r' % (label, getattr(expect_exc, '__name__', expect_exc), got_exc))
      if kind == 'finalize' and expect_exc is not RuntimeError:
        after = snap.store_nonempty(gc)
        ctx.check(after == before and gin.config_is_locked() is False, 'rejected-finalize-left-changes',
                  '%s: rejected finalize left locked=%s diff=%r' % (label, gin.config_is_locked(), snap.diff(before, after)))
      elif expect_exc is RuntimeError:
        after = snap.store_nonempty(gc)
        ctx.check(after == before, 'mutation-under-lock-changed-config', '%s: changed %r' % (label, snap.diff(before, after)))
    ctx.check(gin.config_is_locked() == m.locked, 'lock-state-differs', '%s: config_is_locked()=%s, model %s' % (label, gin.config_is_locked(), m.locked))
    if other_thread or (ctx.case_no + len(shape)) % 40 == 0:
      seen = in_thread(gin.config_is_locked)
      ctx.check(seen == m.locked, 'lock-state-differs-between-threads', '%s: another thread sees locked=%s, model %s' % (label, seen, m.locked))
    cur = snap.store_nonempty(gc)
    ctx.check(cur == m.store, 'store-differs-from-model', '%s: store diff (gin, model) %r' % (label, snap.diff(cur, m.store)))
    if gin.config_is_locked() != m.locked:
      gc._set_config_is_locked(m.locked)
    if cur != m.store:
      m.store = cur


def run_case(ctx, case):
  import gin
  gin.clear_config()
  _S['plan'] = [None, None]
  m = Model()
  shape = []
  run_ops(ctx, m, case['ops'], 0, shape)
  ctx.fp(tuple(shape))
  ctx.sample({'ops': case['ops']}, cap=3)
  gin.clear_config()


EXH_OPS = [['finalize'], ['bind', 'a', '', 1], ['parse', 'b', 's', 2, True], ['macro', 3], ['register', 'register'], ['clear'],
           ['unlock', [['bind', 'a', '', 4]], 'ok'], ['unlock', [['bind', 'b', '', 5]], 'BodyError'], ['unlock', [['finalize']], 'ok'],
           ['poison', 'unbound-macro'], ['hookplan', 'conflict-spelling'],
           ['unlock', [['unlock', [['parse', 'a', '', 6, False]], 'BodyBase']], 'ok'],
           ['register', 'class-method-register'], ['mkcm'], ['unlock', [['bind', 'a', 's', 7, 'tuple']], 'gin-ValueError', 'early'],
           ['validref', 'bound-macro', '']]


def finish(ctx):
  L = ctx.params.get('exhaustive_len', 0)
  if not L:
    return
  n = 0
  for length in range(1, L + 1):
    for seq in itertools.product(range(len(EXH_OPS)), repeat=length):
      n += 1
      if n % ctx.nworkers != ctx.widx:
        continue
      case = {'ops': [EXH_OPS[i] for i in seq]}
      ctx.cur_case = case
      run_case(ctx, case)
      ctx.count('exhaustive_sequences')
  ctx.cur_case = None
  ctx.exhaustive = True


LEVEL_TEXT = ('Runtime monitor with a lock state machine + store model compared after every operation of generated histories (lock flag, '
              'binding store, exception class), with hooks recording the configuration they were shown and fault injection through raising '
              'bodies, raising gin operations, closed generators and hooks; registrations under the lock include classes, classes with registered '
              'methods and implicit dynamic registration; every binding entry point (tuple keys, lists, files, includes, '
              'parse_config_files_and_bindings) is driven under the lock; valid configurations with references must be accepted; '
              'thorough enumerates every sequence of length<=4 over a 16-operation alphabet.')
LEVEL_NOTE = ('Trusted: the FSM/store model (~80 lines). Imports and gin.constant under lock are not constrained (DESIGN X); nor is the order '
              'in which built-in and user hooks run (a raising user hook together with an unbound macro may surface as either exception).')
TECHNIQUE = 'runtime state-machine monitor over generated and exhaustively enumerated operation histories with injected faults'
DESIGN_REF = 'DESIGN.md section 4, C12'
