"""C12 — finalize locks the configuration; unlock_config always restores the lock."""
import itertools

from vf import probes, snap
from vf.teq import canon

ID = 'C12'
LEVEL = 'exploration'
RULE = ('random operation histories over {finalize, bind, parse binding, parse macro, register, external_configurable, clear_config, '
        'unlock_config block (nested <=3, body ops, body returning or raising Exception/BaseException), hook-plan changes (None / new '
        'bindings / same parameter by same or different spelling / invalid key / raising), configs finalize must reject (unbound macro, '
        'unevaluated macro reference, unknown-reference placeholder at depth, top-level %gin.REQUIRED)}; a lock-FSM + store model is '
        'compared with config_is_locked(), the binding store and the exception class after every operation, and every hook records '
        'the configuration it was shown. thorough adds all sequences of length<=4 over a 12-op alphabet. distinct = op-kind sequences')
TIERS = {
    'quick': {'workers': 8, 'cases': 4200, 'timeout': 600, 'exhaustive_len': 0},
    'thorough': {'workers': 16, 'cases': 12000, 'timeout': 3000, 'exhaustive_len': 4},
}
# further workloads for the property's online monitor (vf/online.py): the repository's tests and other checks' generated cases
ONLINE = {'which': ['lock'], 'foreign': ['C05', 'C11', 'C14', 'C20'], 'n': {'quick': 40, 'thorough': 600}}
REQUIRED_BUCKETS = ['op:finalize', 'op:bind', 'op:parse', 'op:macro', 'op:register', 'op:register-same-object-again', 'op:external', 'op:clear', 'op:unlock', 'op:unlock-raises',
                    'op:unlock-nested', 'op:hookplan', 'op:poison', 'state:mutation-under-lock', 'state:double-finalize',
                    'state:unlock-while-locked', 'state:unlock-raises-while-locked', 'state:finalize-inside-unlock',
                    'reject:unbound-macro', 'reject:unevaluated-macro', 'reject:unknown-reference', 'reject:required', 'reject:unbound-macro-as-dict-key', 'reject:unknown-reference-unevaluated',
                    'reject:hook-conflict', 'reject:hook-conflict-spelling', 'reject:hook-conflict-same-value', 'op:register-hook', 'reject:hook-invalid-key', 'reject:hook-raises',
                    'hooks:return-bindings-applied', 'hooks:saw-pre-finalize-config', 'op:from-another-thread']
ORACLE_COUNTERS = ['oracle_evals', 'ops_compared']

_S = {'plan': [None, None], 'seen': []}
_reg = itertools.count()


class BodyError(Exception):
  pass


class BodyBase(BaseException):
  pass


class HookError(Exception):
  pass


def setup(ctx):
  import gin
  from gin import config as gc

  def make_hook(i):
    def hook(config):
      _S['seen'].append((i, {k: {a: canon(v) for a, v in d.items()} for k, d in config.items() if d}))
      plan = _S['plan'][i]
      if plan is None:
        return None
      if plan == 'raise':
        raise HookError('hook %d' % i)
      return dict(plan)
    return hook

  gc.register_finalize_hook(make_hook(0))
  gc.register_finalize_hook(make_hook(1))
  _S['f'] = probes.build({'shape': 'fn', 'api': 'external', 'name': 'f', 'module': 'c12.sub', 'pos': [], 'dflt': [['a', 0], ['b', 0], ['c', 0]],
                          'varargs': False, 'kwonly': [], 'varkw': False})
  gin.constant('c12.CONST', 5)


POISONS = {
    'unbound-macro': ("f.c = %c12_undefined_macro", None, ('ref', 'c12_undefined_macro/gin.macro', True)),
    'unevaluated-macro': ("f.c = @c12m/gin.macro", None, ('ref', 'c12m/gin.macro', False)),
    'unknown-reference': ("f.c = [1, {'k': (@c12_nosuch(), 2)}]", True, None),
    'required': ("f.c = %gin.REQUIRED", None, ('ref', 'gin.REQUIRED/gin.constant', True)),
    # the same kinds of references deeper inside containers, in dict-key position, and unevaluated
    'unbound-macro-nested': ("f.c = [1, (%c12_undefined_macro,)]", None, None),
    'unbound-macro-as-dict-key': ("f.c = {%c12_undefined_macro: 1}", None, None),
    'unevaluated-macro-as-dict-key': ("f.c = {'k': {@c12m/gin.macro: 1}}", None, None),
    'unknown-reference-as-dict-key': ("f.c = {@c12_nosuch(): 1}", True, None),
    'unknown-reference-unevaluated': ("f.c = @c12_nosuch", True, None),
}
HOOKPLANS = ['none', 'new', 'conflict', 'conflict-spelling', 'conflict-same-value', 'invalid-key', 'raise', 'two-distinct']


def gen_ops(rng, depth=0, n=None):
  ops = []
  for _ in range(n if n is not None else rng.randrange(2, 9)):
    k = rng.random()
    if k < 0.2:
      ops.append(['finalize'])
    elif k < 0.32:
      ops.append(['bind', rng.choice(['a', 'b']), rng.choice(['', 's']), rng.randrange(100)])
    elif k < 0.42:
      ops.append(['parse', rng.choice(['a', 'b']), rng.choice(['', 's']), rng.randrange(100), rng.random() < 0.3])
    elif k < 0.48:
      ops.append(['macro', rng.randrange(100)])
    elif k < 0.54:
      ops.append(['register', rng.choice(['register', 'external', 'configurable', 'again'])] if rng.random() < 0.8 else ['register-hook'])
    elif k < 0.6:
      ops.append(['clear'])
    elif k < 0.78 and depth < 3:
      ops.append(['unlock', gen_ops(rng, depth + 1, rng.randrange(0, 4)), rng.choice(['ok', 'ok', 'BodyError', 'BodyBase'])])
    elif k < 0.88:
      ops.append(['hookplan', rng.choice(HOOKPLANS)])
    elif k < 0.96:
      ops.append(['poison', rng.choice(sorted(POISONS)), rng.choice(['', '', 's', 's/t'])])
    else:
      ops.append(['unpoison'])
  return ops


def iter_cases(ctx, rng, n):
  for _ in range(n):
    yield {'ops': gen_ops(rng)}


class Model:

  def __init__(self):
    self.locked = False
    self.store = {}
    self.plan = 'none'
    self.poisons = {}

  def set(self, scope, sel, param, cv):
    self.store.setdefault((scope, sel), {})[param] = cv


SEL = 'c12.sub.f'


def plan_bindings(plan):
  """hook plans -> (plan for hook0, plan for hook1, expected rejection bucket or None, bindings applied on success)"""
  if plan == 'none':
    return None, None, None, {}
  if plan == 'new':
    return {'h/f.a': 'h0'}, None, None, {('h', 'a'): 'h0'}
  if plan == 'two-distinct':
    return {'h/f.a': 'h0', 'f.b': 'h0b'}, {'h/sub.f.b': 'h1'}, None, {('h', 'a'): 'h0', ('', 'b'): 'h0b', ('h', 'b'): 'h1'}
  if plan == 'conflict':
    return {'h/f.a': 'h0'}, {'h/f.a': 'h1'}, 'reject:hook-conflict', {}
  if plan == 'conflict-spelling':
    return {'h/f.a': 'h0'}, {'h/c12.sub.f.a': 'h1'}, 'reject:hook-conflict-spelling', {}
  if plan == 'conflict-same-value':
    # two hooks updating the same parameter are rejected whatever they want to set it to
    return {'h/f.a': 'same'}, {('h', 'sub.f', 'a'): 'same'}, 'reject:hook-conflict-same-value', {}
  if plan == 'invalid-key':
    return {'h/f.a': 'h0'}, {'c12_unknown_configurable.x': 1}, 'reject:hook-invalid-key', {}
  if plan == 'raise':
    return {'h/f.a': 'h0'}, 'raise', 'reject:hook-raises', {}
  raise ValueError(plan)


def in_thread(fn):
  """Run fn in a fresh thread and return/raise what it returns/raises: the lock is a property of the configuration, not of a thread."""
  import threading
  box = {}

  def run():
    try:
      box['r'] = fn()
    except BaseException as e:  # pylint: disable=broad-except
      box['e'] = e
  t = threading.Thread(target=run)
  t.start()
  t.join(60)
  if 'e' in box:
    raise box['e']
  return box.get('r')


def run_ops(ctx, m, ops, depth, shape):
  """Runs ops against gin and model; returns normally (exceptions from unlock bodies are raised by the caller)."""
  import gin
  from gin import config as gc
  for op in ops:
    kind = op[0]
    shape.append(kind if kind != 'unlock' else 'unlock%d:%s' % (depth, op[2]))
    before = snap.store_nonempty(gc)
    expect_exc = None
    got_exc = None
    other_thread = (ctx.case_no + len(shape)) % 14 == 0 and kind in ('finalize', 'bind', 'parse', 'macro', 'register')
    call = in_thread if other_thread else (lambda f: f())
    if other_thread:
      ctx.bucket('op:from-another-thread')
    label = '%r (locked=%s%s)' % (op if kind != 'unlock' else ['unlock', '...', op[2]], m.locked, ', from another thread' if other_thread else '')
    if kind in ('bind', 'parse', 'macro', 'poison', 'unpoison', 'register') and m.locked:
      ctx.bucket('state:mutation-under-lock')
    if kind == 'finalize':
      ctx.bucket('op:finalize')
      h0, h1, rej, applied = plan_bindings(m.plan)
      _S['plan'] = [h0, h1]
      del _S['seen'][:]
      if m.locked:
        ctx.bucket('state:double-finalize')
        expect_exc = RuntimeError
      elif m.poisons:
        expect_exc = ValueError
        for pk in set(m.poisons.values()):
          ctx.bucket('reject:' + pk)
      elif rej:
        expect_exc = HookError if rej == 'reject:hook-raises' else ValueError
        ctx.bucket(rej)
      if depth > 0 and not m.locked:
        ctx.bucket('state:finalize-inside-unlock')
      runs_before = [t['runs'] for t in _S.get('extra_hooks', [])]
      try:
        call(gin.finalize)
      except Exception as e:  # pylint: disable=broad-except
        got_exc = e
      if expect_exc is None and got_exc is None:
        # a successful finalize ran every registered hook exactly once, whenever it was registered
        runs = [t['runs'] - b for t, b in zip(_S.get('extra_hooks', []), runs_before)]
        ctx.check(all(r == 1 for r in runs) and sorted(i for i, _ in _S['seen']) == [0, 1], 'finalize-did-not-run-every-hook',
                  '%s: hooks registered during earlier histories ran %r times, the two initial hooks %r' % (label, runs, sorted(i for i, _ in _S['seen'])))
      if expect_exc is None:
        for (sc, prm), v in applied.items():
          m.set(sc, SEL, prm, canon(v))
        if applied:
          ctx.bucket('hooks:return-bindings-applied')
        m.locked = True
      if not (m.locked and expect_exc is RuntimeError):
        # every hook that ran was shown the configuration as it was before finalize
        for (i, shown) in _S['seen']:
          if ctx.check(shown == before, 'hook-saw-modified-config', 'hook %d was shown %r, configuration before finalize was %r' % (i, shown, before)):
            ctx.bucket('hooks:saw-pre-finalize-config')
    elif kind == 'bind':
      ctx.bucket('op:bind')
      expect_exc = RuntimeError if m.locked else None
      try:
        call(lambda: gin.bind_parameter((op[2] + '/' if op[2] else '') + 'f.' + op[1], op[3]))
      except Exception as e:  # pylint: disable=broad-except
        got_exc = e
      if not m.locked:
        m.set(op[2], SEL, op[1], canon(op[3]))
    elif kind == 'parse':
      ctx.bucket('op:parse')
      expect_exc = RuntimeError if m.locked else None
      pre = op[2] + '/' if op[2] else ''
      text = ('%sf:\n  %s = %d\n' % (pre, op[1], op[3])) if op[4] else ('%ssub.f.%s = %d' % (pre, op[1], op[3]))
      try:
        call(lambda: gin.parse_config(text))
      except Exception as e:  # pylint: disable=broad-except
        got_exc = e
      if not m.locked:
        m.set(op[2], SEL, op[1], canon(op[3]))
    elif kind == 'macro':
      ctx.bucket('op:macro')
      expect_exc = RuntimeError if m.locked else None
      try:
        call(lambda: gin.parse_config('c12m = %d' % op[1]))
      except Exception as e:  # pylint: disable=broad-except
        got_exc = e
      if not m.locked:
        m.set('c12m', 'gin.macro', 'value', canon(op[1]))
    elif kind == 'register' and op[1] == 'again':
      # an object that is already registered is registered again under the same name (accepted when unlocked): under the lock this is
      # a registration like any other - it raises and the registry entry stays the very same one
      ctx.bucket('op:register-same-object-again')
      expect_exc = RuntimeError if m.locked else None
      if 'again' not in _S:
        def again(x=1, y=2):
          return x
        again.__name__ = 'c12again_' + ctx.uid
        with gin.unlock_config():
          gin.external_configurable(again, again.__name__, module='c12')
        _S['again'] = again
      again = _S['again']
      entry = gc._REGISTRY['c12.' + again.__name__]
      try:
        call(lambda: gin.external_configurable(again, again.__name__, module='c12', **({'denylist': ['y']} if m.locked else {})))
      except Exception as e:  # pylint: disable=broad-except
        got_exc = e
      if m.locked:
        ctx.check(gc._REGISTRY['c12.' + again.__name__] is entry, 'registration-vs-lock', '%s: registering an already registered object again replaced its registry entry '
                  '(denylist %r -> %r)' % (label, entry.denylist, gc._REGISTRY['c12.' + again.__name__].denylist))
    elif kind == 'register':
      api = op[1]
      ctx.bucket('op:external' if api == 'external' else 'op:register')
      name = 'c12reg%d_%s' % (next(_reg), ctx.uid)
      expect_exc = RuntimeError if m.locked else None

      def fresh(x=1):
        return x
      fresh.__name__ = name
      try:
        if api == 'register':
          call(lambda: gin.register(name, module='c12')(fresh))
        elif api == 'external':
          call(lambda: gin.external_configurable(fresh, name, module='c12'))
        else:
          call(lambda: gin.configurable(name, module='c12')(fresh))
      except Exception as e:  # pylint: disable=broad-except
        got_exc = e
      try:
        gin.get_configurable('c12.' + name)
        registered = True
      except ValueError:
        registered = False
      ctx.check(registered == (not m.locked), 'registration-vs-lock',
                '%s: after %s the name is %sregistered' % (label, api, '' if registered else 'not '))
    elif kind == 'clear':
      ctx.bucket('op:clear')
      gin.clear_config()
      m.locked = False
      m.store = {}
      m.poisons = {}
    elif kind == 'hookplan':
      ctx.bucket('op:hookplan')
      m.plan = op[1]
    elif kind == 'register-hook':
      # hooks may be registered at any point of a history (at most 4 extra ones per process: they cannot be removed again)
      ctx.bucket('op:register-hook' + ('-while-locked' if m.locked else ''))
      if len(_S.setdefault('extra_hooks', [])) < 4:
        tally = {'runs': 0}

        def extra_hook(config, tally=tally):
          tally['runs'] += 1
          return None
        try:
          gc.register_finalize_hook(extra_hook)
          _S['extra_hooks'].append(tally)
        except Exception:  # pylint: disable=broad-except
          ctx.count('hook_registration_refused')
    elif kind == 'poison':
      ctx.bucket('op:poison')
      text, skip, cv = POISONS[op[1]]
      psc = op[2] if len(op) > 2 else ''
      text = text.replace('f.c', (psc + '/' if psc else '') + 'f.c', 1)
      expect_exc = RuntimeError if m.locked else None
      try:
        gin.parse_config(text, skip_unknown=bool(skip))
      except Exception as e:  # pylint: disable=broad-except
        got_exc = e
      if not m.locked:
        m.poisons[psc] = op[1]
        m.store.setdefault((psc, SEL), {})['c'] = cv if cv is not None else snap.store_nonempty(gc)[(psc, SEL)]['c']
    elif kind == 'unpoison':
      expect_exc = RuntimeError if m.locked else None
      try:
        for psc in sorted(m.poisons) or ['']:
          gin.bind_parameter((psc + '/' if psc else '') + 'f.c', 7)
      except Exception as e:  # pylint: disable=broad-except
        got_exc = e
      if not m.locked:
        for psc in sorted(m.poisons) or ['']:
          m.set(psc, SEL, 'c', canon(7))
        m.poisons = {}
    elif kind == 'unlock':
      body, how = op[1], op[2]
      ctx.bucket('op:unlock')
      if depth >= 1:
        ctx.bucket('op:unlock-nested')
      if m.locked:
        ctx.bucket('state:unlock-while-locked')
      saved = m.locked
      raised = None
      try:
        with gin.unlock_config():
          m.locked = False
          ctx.check(gin.config_is_locked() is False, 'unlock-block-still-locked', '%s: inside unlock_config the config is locked' % label)
          run_ops(ctx, m, body, depth + 1, shape)
          if how == 'BodyError':
            raise BodyError('body')
          if how == 'BodyBase':
            raise BodyBase('body')
      except (BodyError, BodyBase) as e:
        raised = e
      if how != 'ok':
        ctx.bucket('op:unlock-raises')
        if saved:
          ctx.bucket('state:unlock-raises-while-locked')
        ctx.check(raised is not None and type(raised).__name__ == how, 'unlock-swallowed-exception', '%s: body exception %s did not propagate' % (label, how))
      m.locked = saved
      ctx.count('ops_compared')
      ctx.check(gin.config_is_locked() == m.locked, 'unlock-did-not-restore-lock' if how != 'ok' else 'unlock-did-not-restore-lock-normal-exit',
                '%s: after leaving unlock_config (%s) locked=%s, on entry it was %s' % (label, how, gin.config_is_locked(), saved))
      if gin.config_is_locked() != m.locked:
        gc._set_config_is_locked(m.locked)  # resynchronise so one defect is reported once per history
      continue

    # compare after the op
    ctx.count('ops_compared')
    if expect_exc is None:
      ctx.check(got_exc is None, 'unexpected-exception', '%s raised %s: %s' % (label, type(got_exc).__name__, str(got_exc)[:300]))
    else:
      ctx.check(isinstance(got_exc, expect_exc), 'expected-exception-missing',
                '%s: expected %s, got %r' % (label, expect_exc.__name__, got_exc))
      if kind == 'finalize' and expect_exc is not RuntimeError:
        after = snap.store_nonempty(gc)
        ctx.check(after == before and gin.config_is_locked() is False, 'rejected-finalize-left-changes',
                  '%s: rejected finalize left locked=%s diff=%r' % (label, gin.config_is_locked(), snap.diff(before, after)))
      elif expect_exc is RuntimeError:
        after = snap.store_nonempty(gc)
        ctx.check(after == before, 'mutation-under-lock-changed-config', '%s: changed %r' % (label, snap.diff(before, after)))
    ctx.check(gin.config_is_locked() == m.locked, 'lock-state-differs', '%s: config_is_locked()=%s, model %s' % (label, gin.config_is_locked(), m.locked))
    if other_thread or (ctx.case_no + len(shape)) % 40 == 0:
      seen = in_thread(gin.config_is_locked)
      ctx.check(seen == m.locked, 'lock-state-differs-between-threads', '%s: another thread sees locked=%s, model %s' % (label, seen, m.locked))
    cur = snap.store_nonempty(gc)
    ctx.check(cur == m.store, 'store-differs-from-model', '%s: store diff (gin, model) %r' % (label, snap.diff(cur, m.store)))
    if gin.config_is_locked() != m.locked:
      gc._set_config_is_locked(m.locked)
    if cur != m.store:
      m.store = cur


def run_case(ctx, case):
  import gin
  gin.clear_config()
  _S['plan'] = [None, None]
  m = Model()
  shape = []
  run_ops(ctx, m, case['ops'], 0, shape)
  ctx.fp(tuple(shape))
  ctx.sample({'ops': case['ops']}, cap=3)
  gin.clear_config()


EXH_OPS = [['finalize'], ['bind', 'a', '', 1], ['parse', 'b', 's', 2, True], ['macro', 3], ['register', 'register'], ['clear'],
           ['unlock', [['bind', 'a', '', 4]], 'ok'], ['unlock', [['bind', 'b', '', 5]], 'BodyError'], ['unlock', [['finalize']], 'ok'],
           ['poison', 'unbound-macro'], ['hookplan', 'conflict-spelling'],
           ['unlock', [['unlock', [['parse', 'a', '', 6, False]], 'BodyBase']], 'ok']]


def finish(ctx):
  L = ctx.params.get('exhaustive_len', 0)
  if not L:
    return
  n = 0
  for length in range(1, L + 1):
    for seq in itertools.product(range(len(EXH_OPS)), repeat=length):
      n += 1
      if n % ctx.nworkers != ctx.widx:
        continue
      case = {'ops': [EXH_OPS[i] for i in seq]}
      ctx.cur_case = case
      run_case(ctx, case)
      ctx.count('exhaustive_sequences')
  ctx.cur_case = None
  ctx.exhaustive = True


LEVEL_TEXT = ('Runtime monitor with a lock state machine + store model compared after every operation of generated histories (lock flag, '
              'binding store, exception class), with hooks recording the configuration they were shown and fault injection through raising '
              'bodies and hooks; thorough enumerates every sequence of length<=4 over a 12-operation alphabet.')
LEVEL_NOTE = 'Trusted: the FSM/store model (~60 lines). Imports and gin.constant under lock are not constrained (DESIGN X).'
TECHNIQUE = 'runtime state-machine monitor over generated and exhaustively enumerated operation histories with injected faults'
DESIGN_REF = 'DESIGN.md section 4, C12'
